"""C19 — build-server jobs cannot read or create files outside their private root (partial: bubblewrap itself is
outside the model).

Three differential legs against the hooked `sccache-dist __verif_paths` (src/bin/sccache-dist/verif_paths.rs):
  calc     pure path arithmetic on adversarial strings: std::path primitives, join_suffix, id validation,
           make_lru_key_path, every path prepare_overlay_dirs / perform_build derive for a job
  fs       a REAL Server + TcCache + OverlayBuilder (real mount namespaces, real overlayfs, real tar unpack) in a
           scratch root; only bubblewrap is replaced by a stand-in that writes the files the case asks for inside
           the job's root.  After every job everything created / changed / removed outside the toolchain cache,
           the unpacked toolchains and the builds directory is reported.  The hooked process first moves into a
           private mount namespace with an overlay over `/` and a fresh tmpfs on /dev/shm, so that (a) nothing a
           defect writes can reach the machine and (b) any write anywhere below `/` is seen.
  fs_sym   like fs, every case with a symlink inside the job root (unpacked from the inputs archive or created by the
           job, also in place of its own cwd or an ancestor) that the cwd / output paths go through.
  fs2      scripts with jobs that are still running while other requests are handled, two toolchains and a small
           toolchain cache (eviction, the builder forgetting / re-unpacking toolchains, build counters restarting).
"""
import os
import subprocess

from .. import pipeline, sx
from ..pipeline import Leg

ID = 'C19'
HARNESS_BIN = 'c19'
RUN_MODULE = 'Run.C19'
REPO_BINS = ['sccache-dist']
THEOREMS = ['C19_join_suffix_confined', 'C19_no_symlink_followed', 'C19_join_suffix_total_without_links', 'C19_job_confined',
            'C19_cache_file_confined', 'C19_rejects_escapes', 'C19_valid_ids_are_plain_names', 'C19_server_ids_valid',
            'C19_jobs_disjoint', 'C19_prepare_fresh', 'C19_prepare_guard', 'C19_started_job_root_fresh', 'C19_build_names_injective', 'C19_build_roots_not_nested',
            'C19_toolchain_readonly_by_construction', 'C19_job_view_independent_of_history',
            'C19_docker_pool_only_additions', 'C19_docker_removes_added_only', 'C19_launcher_env_independent',
            'C19_client_env_only_after_setenv', 'C19_no_overlay_no_job', 'C19_components_join']
ASSUMPTIONS = [
    'PARTIAL: bubblewrap is not available in the sandbox; the job itself is replaced by a stand-in that is confined to '
    'its root by construction. What is covered is everything the SERVER does outside the sandbox: directory creation, '
    'where uploads are written, which paths are read back as job outputs, build-directory allocation and clean-up.',
    'overlayfs semantics are assumed in the model (a job starts from the unpacked toolchain plus its own inputs; its '
    'writes land in its own upper directory, deleted by finish_overlay) and exercised for real by the fs leg',
    'symlinks INSIDE a job root are modelled (join_suffix resolves them inside the root; C19_no_symlink_followed); the '
    'server\'s own base directories (and the path leading to them) are assumed to be symlink-free, and nothing changes '
    'the job root between join_suffix and the create_dir_all / open that uses its result (true in perform_build: the '
    'job is not running at either point)',
    'leg fs2 / Part 5 of the model: the toolchain cache is modelled by the number of archives it has room for (only 0 = no '
    'limit, 1 and 2 are generated, with two archives, so LRU order beyond "the other one is evicted" is not exercised); that the '
    'builder removes the unpacked toolchain (overlay lower layer) of a job that is still running is outside the property and '
    'not modelled (running jobs in the generated scripts do not read toolchain files back)',
    'the tar crate\'s own member-name checks are exercised (members named ../x, /abs) but not modelled beyond '
    '"a member with a .. component is skipped, leading / and . are dropped"',
    'the server base directories are given as absolute paths without symlinks (as in the documented configuration)',
]
TRUSTED = [
    'hook: src/bin/sccache-dist/verif_paths.rs (drives Server::handle_assign_job / handle_submit_toolchain / '
    'handle_run_job and OverlayBuilder for real inside /dev/shm; fake bwrap script re-entering the binary)',
    'hook wrappers: build::verif::join_suffix, dist::verif_make_lru_key_path, ToolchainReader/InputsReader::verif_new, '
    'OutputData::verif_bytes',
]

HEX = b'0123456789abcdef'
# the only absolute location fs cases may name (the hook watches and cleans it)
ABS_ESCAPE = b'/dev/shm/vp-c19-abs-escape'
SECRET = b'SECRET'
TOOL = b'TOOL'


def impl_env():
    return {'VERIF_C19_DIST': pipeline.repo_bin('sccache-dist')}


def prebuild(rep):
    ok, out = pipeline.build_repo_bins(['sccache-dist'], features='dist-server')
    rep.oblige('build:sccache-dist(hooked)', ok, out[-3000:] if not ok else 'cargo build --features dist-server, --cfg sccache_verif')


_real = {}


def real_digest():
    """id of the toolchain archive the hook uploads, computed by the real code (util::Digest)."""
    if 'id' not in _real:
        p = subprocess.run([pipeline.repo_bin('sccache-dist'), '__verif_paths', 'digest'], stdout=subprocess.PIPE, timeout=60)
        _real['id'] = p.stdout.decode().strip().encode()
        assert valid_id(_real['id']), _real['id']
    return _real['id']


def real_digest2():
    if 'id2' not in _real:
        p = subprocess.run([pipeline.repo_bin('sccache-dist'), '__verif_paths', 'digest2'], stdout=subprocess.PIPE, timeout=60)
        _real['id2'] = p.stdout.decode().strip().encode()
        assert valid_id(_real['id2']) and _real['id2'] != real_digest(), _real['id2']
    return _real['id2']


def hook_caps():
    """what the hook in this tree can do beyond its first legs (`__verif_paths caps`): launcher (records how the stand-in
    bwrap was started; jobs may carry environment variables), overlayfail (server directories on an overlay), entries
    (docker leg: entries with any bytes in their path)"""
    if 'caps' not in _real:
        try:
            p = subprocess.run([pipeline.repo_bin('sccache-dist'), '__verif_paths', 'caps'], stdin=subprocess.DEVNULL,
                               stdout=subprocess.PIPE, timeout=60)
            _real['caps'] = set(p.stdout.decode().split()) & {'launcher', 'overlayfail', 'entries'}
        except Exception:
            _real['caps'] = set()
    return _real['caps']


ENV_NAMES = [b'LD_PRELOAD', b'LD_AUDIT', b'LD_LIBRARY_PATH', b'BASH_ENV', b'ENV', b'PATH', b'HOME', b'CC', b'LANG', b'SOURCE_DATE_EPOCH',
             b'A=B', b'=', 'é'.encode(), b'X Y', b'TMPDIR', b'IFS']


def gen_env(rng, jid):
    """the client's environment: ordinary variables, and names that mean something to a process started on the host,
    pointing at a file the job ships in its own inputs (by the host path the inputs are unpacked at)"""
    env = []
    for _ in range(rng.range(1, 4)):
        k = rng.choice(ENV_NAMES)
        v = rng.choice([b'gcc', b'C', b'', b'/tmp/build/builds/' + jid[:64] + b'-1/target/in_d/f', b'/in_d/f', b'a=b', b'x y'])
        env.append([k, v])
    return env


def fs_supported():
    if 'fs' not in _real:
        p = subprocess.run([pipeline.repo_bin('sccache-dist'), '__verif_paths', 'probe'], stdout=subprocess.PIPE, timeout=60)
        out = p.stdout.decode()
        _real['fs'] = '(run complete)' in out
        _real['fs_msg'] = out[:400]
    return _real['fs']


# ---------------------------------------------------------------- python-side semantics used by the MONITORS only

def valid_id(i):
    return len(i) >= 2 and all(c in HEX for c in i)


def dangerous_id(i):
    """usable as a path that leaves its directory, or one make_lru_key_path panics on"""
    return (len(i) < 2 or b'/' in i or b'\x00' in i or i in (b'.', b'..') or i[0] >= 128 or i[1] >= 128
            or (len(i) > 2 and 128 <= i[2] < 192))


def comps(p):
    """Path::components on Unix."""
    out = []
    if p.startswith(b'/'):
        out.append('root')
    segs = p.split(b'/')
    if not p.startswith(b'/') and segs and segs[0] == b'.':
        out.append('cur')
    for s in segs:
        if s in (b'', b'.'):
            continue
        out.append('up' if s == b'..' else s)
    return out


def resolve(cs, start=()):
    """what the kernel does in a tree without symlinks"""
    st = list(start)
    for c in cs:
        if c == 'root':
            st = []
        elif c == 'cur':
            pass
        elif c == 'up':
            if st:
                st.pop()
        else:
            st.append(c)
    return st


def sx_comps(x):
    """(root (n a) up ...) -> ['root', b'a', 'up']"""
    out = []
    for c in x:
        if isinstance(c, list):
            out.append(c[1])
        else:
            out.append(c.decode())
    return out


def parent_bytes(p):
    """Path::parent (a rendering with the same components)"""
    cs = comps(p)
    if not cs or cs[-1] == 'root':
        return None
    cs = cs[:-1]
    lead = b''
    if cs and cs[0] == 'root':
        lead = b'/'
        cs = cs[1:]
    return lead + b'/'.join({'cur': b'.', 'up': b'..'}.get(c, c) if isinstance(c, str) else c for c in cs)


def pjoin(a, b):
    if b.startswith(b'/'):
        return b
    if a and not a.endswith(b'/'):
        return a + b'/' + b
    return a + b


# ---------------------------------------------------------------- generators

NAMES = [b'a', b'b', b'src', b'out', b'o.o', b'x.o', b'proj', b'home', b'u', b'tmp', b'obj', b'..', b'..', b'.', b'',
         b'...', b'..a', b'.hidden', b' ', b'x y', 'é'.encode(), b'a\\b', b'-', b'tc_bin', b'tool', b'tc_lib', b'in_d', b'shared',
         b'leak', b'etc', b'passwd', b'secret']
WEIRD = [b'\xff\xfe', b'a\x00b', b'\x00', b'\xc3', b'\x80x', b'n' * 300, b'\t', b'\n', b'*', b'~']


def gen_name(rng, weird):
    if weird and rng.chance(1, 5):
        return rng.choice(WEIRD)
    return rng.choice(NAMES)


def gen_path(rng, weird=False, maxn=5, benign=False):
    if benign:
        k = rng.range(1, 3)
        parts = [rng.choice([b'a', b'b', b'src', b'out', b'proj', b'home', b'u', b'obj', b'o.o', b'x.o', b'tmp']) for _ in range(k)]
        p = b'/'.join(parts)
        r = rng.below(6)
        if r < 2:
            p = b'/' + p
        elif r == 2:
            p = b'../' + p
        elif r == 3:
            p = b'./' + p
        return p
    k = rng.below(maxn + 1)
    parts = [gen_name(rng, weird) for _ in range(k)]
    sep = lambda: b'/' * rng.weighted([(1, 8), (2, 2), (3, 1)])
    p = b''
    for i, x in enumerate(parts):
        if i:
            p += sep()
        p += x
    lead = rng.weighted([(b'', 4), (b'/', 4), (b'//', 1), (b'./', 1), (b'../', 1), (b'/../../', 1), (b'/../../../../../../', 1)])
    trail = rng.weighted([(b'', 6), (b'/', 1), (b'/.', 1), (b'/..', 1)])
    return lead + p + trail


def gen_id(rng, real=None):
    k = rng.weighted([('hex64', 8), ('real', 4 if real else 0), ('short', 2), ('bad', 6)])
    if k == 'hex64':
        return bytes(rng.choice(HEX) for _ in range(64))
    if k == 'real':
        return real
    if k == 'short':
        return rng.choice([b'ab', b'0f', b'abc', b'00', b'ffffffff'])
    return rng.choice([b'', b'a', 'é1'.encode(), b'/etc/cron.d/x', b'../x', b'../../../evil', b'AB12', b'ab/../cd', b'abc-1', b'A' * 64,
                       b'ab cd', b'f' * 63 + b'g', b'..', b'.', b'ab\x00', b'0', b'/', b'ab/', b'/ab', b'a/b', b'ab\n', b'ab.',
                       '0é'.encode(), 'aé'.encode(), 'abé'.encode(), b'-1', b'ab-1', b'0123456789abcdef' * 64, b'g0', b'0g'])


# none of these exists on the machine (join_suffix asks the file system whether a component is a symlink)
BASES = [b'/nx-c19/srv/build/builds/ab-1/target', b'/nx-c19/t', b'nx-c19/t', b'./nx-c19/t', b'/nx-c19/t/', b'/nx-c19/t//x/', b'../nx-c19/t', b'/nx-c19/a/../t',
         b'/nx-c19', b'nx-c19']


def is_utf8(b):
    try:
        b.decode('utf-8')
        return True
    except UnicodeDecodeError:
        return False


def gen_calc(rng, tier):
    n = 250000 if tier == 'thorough' else 16000
    out = []
    for _ in range(n):
        k = rng.weighted([('join_suffix', 8), ('components', 3), ('join', 3), ('parent', 3), ('check_id', 3), ('lru_key', 3), ('job', 8)])
        benign = rng.chance(3, 5)
        if k == 'join_suffix':
            out.append([b'join_suffix', rng.choice(BASES), gen_path(rng, True, benign=benign)])
        elif k == 'components':
            out.append([b'components', gen_path(rng, True)])
        elif k == 'parent':
            out.append([b'parent', gen_path(rng, True)])
        elif k == 'join':
            out.append([b'join', rng.choice(BASES + [b'', b'/', gen_path(rng, True)]), gen_path(rng, True)])
        elif k == 'check_id':
            i = gen_id(rng)
            out.append([b'check_id', i])
        elif k == 'lru_key':
            i = gen_id(rng)
            if is_utf8(i):
                out.append([b'lru_key', i])
        else:
            i = gen_id(rng) if rng.chance(1, 3) else bytes(rng.choice(HEX) for _ in range(rng.choice([2, 8, 64])))
            cwd = gen_path(rng, False, benign=benign)
            outs = [gen_path(rng, False, benign=rng.chance(1, 2)) for _ in range(rng.below(4))]
            if rng.chance(1, 10):
                cwd = cwd + b'\x00'
            if all(is_utf8(x) for x in [i, cwd] + outs):
                out.append([b'job', rng.choice([b'/nx-c19/srv/build', b'/nx-c19/var/lib/sccache-dist', b'/nx-c19/b/']), i, rng.choice([1, 2, 7, 10, 99, 12345678901234567890]), cwd, outs])
    return out


FS_NAMES = [b'a', b'b', b'out', b'o.o', b'shared', b'leak', b'..', b'..', b'.', b'', b'tc_bin', b'tool', b'tc_lib', b'in_d', b'in_f',
            'é'.encode(), b'x y', b'etc', b'secret', b'passwd', b'srv', b'build', b'cache']


def gen_fs_path(rng, benign):
    if benign:
        return gen_path(rng, benign=True)
    k = rng.below(5)
    parts = [rng.choice(FS_NAMES) for _ in range(k)]
    lead = rng.weighted([(b'', 4), (b'/', 4), (b'//', 1), (b'./', 1), (b'../', 2), (b'/../../', 1), (b'/../../../../../', 2), (b'../../../../../../', 2)])
    trail = rng.weighted([(b'', 8), (b'/', 1), (b'/..', 1)])
    p = lead + b'/'.join(parts) + trail
    if rng.chance(1, 40):
        p += b'\x00'
    return p


def gen_fs_job(rng, real, pool, symlinks=False):
    kind = rng.weighted([('real', 12), ('badid', 3), ('wronghex', 1)])
    benign = rng.chance(1, 2)
    cwd = gen_fs_path(rng, benign)
    outs = []
    for _ in range(rng.below(4)):
        outs.append(rng.choice(pool) if pool and rng.chance(1, 2) else gen_fs_path(rng, rng.chance(1, 2)))
    inputs = []
    for _ in range(rng.below(3)):
        nm = rng.choice([b'in_d/f', b'in_d/g', b'/in_a/f', b'../in_evil', b'in_d/../in_x', b'in_f', b'./in_d/h', b'/../../in_up',
                         b'in_d/sub/f', b'../../../../../../secret'])
        if rng.chance(1, 5):
            inputs.append([b'dir', rng.choice([b'in_d', b'in_e/sub', b'../in_updir', b'/in_absdir'])])
        else:
            inputs.append([b'file', nm, b'IN:' + nm[:12]])
    writes = []
    for _ in range(rng.below(4)):
        p = rng.choice(outs) if outs and rng.chance(2, 3) else rng.choice([b'/shared/leak', b'/tc_bin/tool', b'leak', b'../leak', b'/../../../../../../evil',
                                                                           b'/tc_lib/evil', b'o.o'])
        writes.append([b'file', p, b'W%d:' % rng.below(1000) + p[:10]])
        pool.append(p)
    if symlinks:
        # the hook runs in a private mount namespace with an overlay over /, so links may point anywhere
        tgt = rng.choice([b'../../../../../secret', b'../../../../../etc', b'../../../../../srv', b'../../../../..', b'tc_bin/tool', b'tc_bin',
                          b'../../../../../srv/secret', b'../upper', b'../../../toolchains', b'../../../../cache/tc', b'.', b'lnk2',
                          b'../../../../../../../x', b'../../../../../../../../../..', b'/tc_bin', b'/tc_lib/x', b'/tc_bin/tool', b'../tc_bin', b'../../secret', b'/etc', b'/', b'/etc/passwd', b'/dev/shm', b'/tmp'])
        where = rng.choice([b'lnk', b'out', b'o.o', b'lnk2', b'a/lnk', b'in_d/lnk', b'b/c/lnk'])
        if rng.chance(1, 2):
            inputs.append([b'symlink', where, tgt])
        else:
            writes.append([b'symlink', where, tgt])
        if rng.chance(2, 3):
            outs.append(rng.choice([where, where + b'/passwd', where + b'/secret', where + b'/x/y', where + b'/tc_bin/tool']))
        if rng.chance(1, 3):
            cwd = rng.choice([b'/', b'']) + where + rng.choice([b'', b'/newdir', b'/../up'])
    if kind == 'real':
        if 'launcher' in hook_caps() and rng.chance(1, 3):
            return [b'job', real, 1, 1, cwd, outs, inputs, writes, gen_env(rng, real)]
        return [b'job', real, 1, 1, cwd, outs, inputs, writes]
    if kind == 'wronghex':
        return [b'job', bytes(rng.choice(HEX) for _ in range(64)), 0, 0, cwd, outs, inputs, writes]
    bad = rng.choice([b'', b'a', 'é1'.encode(), b'../x', b'../../../evil', b'../../../../evil', b'AB12', b'ab/../cd', b'ab-1', b'..', b'.',
                      ABS_ESCAPE + b'/evil', b'/etc/cron.d/x', b'/c19-evil', b'ab/', b'x/../../../../evil', b'ab\x00', b'../../../../../../../../evil'])
    return [b'job', bad, 0, 1, cwd, outs, inputs, writes]


SENTINELS = [b'secret', b'passwd', b'etc/passwd', b'srv/secret']


def gen_climb_job(rng, real):
    """a symlink DEEP inside the job root (from the inputs archive or made by the compile; absolute and relative
    targets) and cwd / output paths that pass through it and go on with k '..' components: wherever the link leads,
    '..' must stop at the job root.  Five levels above the job root lie the server's `secret`, `etc/passwd`, `srv/`."""
    depth = rng.range(1, 8)
    dirs = [rng.choice([b'a', b'b', b'c', b'd', b'work', b'in_d']) for _ in range(depth)]
    link = b'/'.join(dirs + [b'up'])
    tgt = rng.choice([b'/', b'/', b'/tc_bin', b'/tc_lib', b'/' + dirs[0], b'.', b'..', b'../' * rng.range(1, depth + 2), b'/../..',
                      b'/' + b'/'.join(dirs[:rng.range(1, depth)])])
    inputs, writes = [], []
    if rng.chance(2, 3):
        inputs.append([b'symlink', link, tgt])
    else:
        writes.append([b'symlink', b'/' + link, tgt])
    cwd = rng.choice([b'/', b'/' + dirs[0], b'/' + link, b'/' + link + b'/' + b'../' * rng.range(1, depth + 3) + b'x'])
    rel = link if cwd == b'/' else (b'/'.join(dirs[1:] + [b'up']) if cwd == b'/' + dirs[0] else b'/' + link)
    outs = []
    for _ in range(rng.range(1, 3)):
        k = rng.range(0, depth + 4)
        tail = rng.choice(SENTINELS + [b'newdir/x.o', b'upper/x', b'x.o', b'toolchains', b'tc_bin/tool'])
        outs.append(rel + b'/' + b'../' * k + tail)
    if rng.chance(1, 3):
        writes.append([b'file', b'/x.o', b'OWN'])
    return [b'job', real, 1, 1, cwd, outs, inputs, writes]


def gen_replace_job(rng, real):
    """the compile itself replaces its working directory, or an ancestor of it, by a symlink and the (mostly
    relative) outputs are named below it"""
    depth = rng.range(1, 3)
    names = [rng.choice([b'work', b'w', b'a', b'proj', b'etc', b'srv', b'home']) for _ in range(depth)]
    cwd = b'/' + b'/'.join(names)
    at = rng.range(1, depth)                      # which component is replaced
    victim = b'/' + b'/'.join(names[:at])
    ups = b'../' * (5 + at - 1)                   # from the directory of the link up to the server's scratch root
    tgt = rng.choice([ups, ups + b'etc', ups + b'srv', ups[:-1], ups + b'etc/', b'/etc', b'/', ups + b'../' * rng.range(1, 6),
                      b'/tc_bin', b'tc_lib', b'../' * at, b'.', victim[1:].split(b'/')[-1]])
    outs = []
    for _ in range(rng.range(1, 3)):
        o = rng.choice(SENTINELS + [b'out.o', b'tool', b'../secret', b'../etc/passwd'])
        if rng.chance(1, 8):
            o = cwd + b'/' + o
        outs.append(o)
    writes = []
    own = rng.choice([b'out.o', b'secret', b'passwd'])
    if rng.chance(1, 2):
        writes.append([b'file', own, b'OWN:' + own])
    writes.append([b'replace', victim, tgt])
    if rng.chance(1, 3):
        writes.append([b'file', own, b'LATE:' + own])
    if rng.chance(1, 4):
        writes.append([b'replace', cwd, rng.choice([ups, b'/etc', ups + b'etc'])])
    return [b'job', real, 1, 1, cwd, outs, [], writes]


def gen_fs2(rng, tier):
    """scripts on one server whose toolchain cache has room for one archive (mostly): jobs that are still running
    while other toolchains are uploaded (evicting theirs), other jobs run (the builder forgets unpacked
    toolchains) and their toolchain comes back"""
    if not fs_supported():
        return []
    t = [None, real_digest(), real_digest2()]
    n = 6000 if tier == 'thorough' else 260
    out = []
    for _ in range(n):
        cap = rng.weighted([(1, 5), (0, 1), (2, 1)])
        on_overlay = 'overlayfail' in hook_caps() and rng.chance(1, 6)
        ops = []
        live = []
        key = 0
        nj = 0
        for _ in range(rng.range(3, 9)):
            k = rng.weighted([('start', 3 if len(live) < 3 else 0), ('job', 4), ('release', 3 if live else 0)])
            if k == 'release':
                x = rng.choice(live)
                live.remove(x)
                ops.append([b'release', x])
                continue
            nj += 1
            which = rng.weighted([(1, 3), (2, 2)])
            name = rng.choice([b'out.o', b'a.o', b'x'])
            cwd = rng.choice([b'/w', b'/proj/a', b'/w'])
            if rng.chance(1, 6):
                job = gen_replace_job(rng, t[which])
                job[2] = which
            else:
                outs = [name] + ([b'b.o'] if rng.chance(1, 3) else [])
                writes = [[b'file', o, b'J%d:' % nj + o] for o in outs if rng.chance(5, 6)]
                job = [b'job', t[which], which, 1, cwd, outs, [], writes]
                if on_overlay and rng.chance(1, 2):
                    # what would end up in the shared toolchain if the job were run without its own layer
                    job[6] = [[b'file', rng.choice([b'tc_bin/tool', b'in_d/f', b'tc_lib/evil.so']), b'IN%d' % nj]]
                    job[5] = job[5] + [rng.choice([b'/tc_bin/tool', b'/in_d/f'])]
                if 'launcher' in hook_caps() and rng.chance(1, 4):
                    job.append(gen_env(rng, t[which]))
            if k == 'start':
                key += 1
                live.append(key)
                ops.append([b'start', key, job])
            else:
                ops.append(job)
        for x in live:
            ops.append([b'release', x])
        out.append([cap, ops, 1] if on_overlay else [cap, ops])
    return out


def gen_fs(rng, tier, symlinks=False):
    if not fs_supported():
        return []
    real = real_digest()
    n = (30000 if tier == 'thorough' else 1200)
    if symlinks:
        n //= 4
    out = []
    for _ in range(n):
        pool = [b'/shared/leak', b'o.o', b'/tc_bin/tool']
        jobs = [gen_fs_job(rng, real, pool, symlinks) for _ in range(rng.weighted([(1, 3), (2, 3), (3, 2)]))]
        if symlinks and rng.chance(1, 3):
            jobs.insert(rng.below(len(jobs) + 1), gen_replace_job(rng, real))
        if symlinks and rng.chance(1, 3):
            jobs.insert(rng.below(len(jobs) + 1), gen_climb_job(rng, real))
        out.append(jobs)
    return out


# ---------------------------------------------------------------- monitors: the property on the implementation's output

def under(root, p):
    return p[:len(root)] == root


def mon_calc(case, out):
    op = case[0]
    vs = []
    if isinstance(out, list) and out and out[0] == b'panic' and op != b'lru_key':
        return ['%s panicked' % op.decode()]
    if op == b'join_suffix':
        if out[0] != b'ok':
            return []
        base = resolve(comps(case[1]), ['<cwd>'])
        got = resolve(sx_comps(out[1]), ['<cwd>'])
        if not under(base, got):
            vs.append('join_suffix(%r, %r) resolves to %r, outside %r' % (case[1], case[2], got, base))
    elif op == b'check_id':
        i = case[1]
        if out == 1 and dangerous_id(i):
            vs.append('toolchain id %r accepted although it can be used as a path / makes make_lru_key_path panic' % i)
    elif op == b'lru_key':
        i = case[1]
        if valid_id(i):
            if out[0] != b'ok' or sx_comps(out[1]) != [i[0:1], i[1:2], i]:
                vs.append('cache entry path of valid id %r is %r' % (i, out))
    elif op == b'job':
        _, d, i, n, cwd, outs = case
        if out[0] == b'err':
            return vs
        if out[0] != b'ok':
            return ['unexpected observation %r' % out]
        if dangerous_id(i):
            vs.append('job with toolchain id %r accepted' % i)
        base = resolve(comps(d))
        tcdir = base + [b'toolchains']
        builds = base + [b'builds']
        roots = set()
        for k, (kind, cs) in enumerate(out[1]):
            p = resolve(sx_comps(cs))
            if k == 0:
                if not (under(tcdir, p) and len(p) == len(tcdir) + 1):
                    vs.append('unpacked toolchain directory %r is not a direct child of %r' % (p, tcdir))
            elif k == 1:
                if not (under(builds, p) and len(p) == len(builds) + 1):
                    vs.append('build directory %r is not a direct child of %r' % (p, builds))
                root = p
            elif k <= 4:
                if not (under(root, p) and len(p) == len(root) + 1):
                    vs.append('%s %r not directly inside the build directory' % (kind.decode(), p))
                if k == 4:
                    target = p
            else:
                if not under(target, p):
                    vs.append('%s %r escapes the job root %r (cwd %r outputs %r)' % (kind.decode(), p, target, cwd, outs))
                if under(tcdir, p):
                    vs.append('%s %r is inside the unpacked toolchains' % (kind.decode(), p))
    return vs


def norm_inside(cwd, p):
    return resolve(comps(pjoin(cwd, p)))


TOOLS = (TOOL, b'TOOL2')


def simple_job(job):
    """a job whose outputs python can predict without a model: absolute cwd of plain names, outputs and written files
    plain names in cwd, no inputs, nothing but file writes"""
    _, jid, genuine, do_run, cwd, outs, inputs, writes = job[:8]
    plain = lambda n: n and b'/' not in n and n not in (b'.', b'..') and b'\x00' not in n
    return (cwd.startswith(b'/') and all(plain(x) for x in cwd[1:].split(b'/')) and not cwd.startswith(b'/tc_') and not inputs
            and all(plain(o) for o in outs) and all(w[0] == b'file' and plain(w[1]) for w in writes))


def own_outputs(job):
    _, jid, genuine, do_run, cwd, outs, inputs, writes = job[:8]
    last = {}
    for w in writes:
        last[w[1]] = w[2]
    return [[o, last[o]] for o in outs if o in last]


def check_obs(k, job, f, vs, symlinks, live):
    """the property on one observation.  job = the request this observation belongs to (for a release: the request
    that was started); live = {key: target} of the jobs whose compile is still running AFTER this step"""
    _, jid, genuine, do_run, cwd, outs, inputs, writes = job[:8]
    for step in (b'assign', b'submit', b'run'):
        if f[step] == b'panic':
            vs.append('job %d: handle_%s panicked (id %r)' % (k, step.decode(), jid))
    for e in f[b'escaped']:
        vs.append('job %d: %s outside the server\'s own directories: %r (id %r cwd %r outputs %r)' % (k, e[0].decode(), e[1], jid, cwd, outs))
    # below builds/ there is exactly one intact directory per job that is still running
    top = {}
    for e in f[b'left']:
        parts = e.split(b'/')
        top.setdefault(parts[0], set()).add(b'/'.join(parts[1:2]))
    want = {t.split(b'/')[3]: key for key, t in live.items()}
    for nm in top:
        if nm not in want:
            vs.append('job %d: build directory %r left behind / not owned by a running job' % (k, nm))
    for nm, key in want.items():
        if not {b'upper', b'work', b'target'} <= top.get(nm, set()):
            vs.append('job %d: the root builds/%s of job %r, which is still running, was removed or damaged by another job (left: %r)'
                      % (k, nm.decode(), key, sorted(top.get(nm, set()))))
    # the launcher runs on the host: nothing the client chose may be in ITS environment
    launch = {x[0]: x[1:] for x in f.get(b'launcher', []) if isinstance(x, list) and x}
    client = {(e[0], e[1]) for e in (job[8] if len(job) > 8 else [])}
    for e in launch.get(b'envdiff', []):
        if e[0] == b'set' and (e[1], e[2]) in client:
            vs.append('job %d: the client\'s variable %s=%r is in the environment of the launcher process, which the server starts '
                      'on the host as root (only `--setenv` arguments may carry it)' % (k, e[1].decode('latin-1'), e[2]))
    allowed = set(TOOLS) | {m[2] for m in inputs if m[0] == b'file'} | {w[2] for w in writes if w[0] == b'file'}
    for o in f[b'outputs']:
        if o[1] == SECRET:
            vs.append('job %d: output %r returned the content of a file OUTSIDE the job root' % (k, o[0]))
        elif o[1] not in allowed:
            vs.append('job %d: output %r has content %r that is neither from the toolchain, its inputs nor its own writes' % (k, o[0], o[1]))
    if f[b'run'] in (b'complete', b'err') and simple_job(job) and (f[b'run'] == b'complete' or f[b'head'] == b'release'):
        if f[b'outputs'] != own_outputs(job):
            vs.append('job %d: returned outputs %r, but it wrote %r: another job interfered with its root' % (k, f[b'outputs'], own_outputs(job)))
    for e in f[b'toolchains']:
        parts = e[1].split(b'/')
        if not valid_id(parts[0]):
            vs.append('job %d: entry %r in toolchains/ is not under a well-formed id' % (k, e[1]))
        if e[0] == b'f' and (parts[1:] != [b'tc_bin', b'tool'] or e[2] not in TOOLS):
            vs.append('job %d: unpacked toolchain altered: %r = %r' % (k, e[1], e[2]))
        if len(parts) > 1 and parts[1] not in (b'tc_bin', b'tc_lib'):
            vs.append('job %d: foreign entry %r in the unpacked toolchain' % (k, e[1]))
    for e in f[b'cache']:
        parts = e[1].split(b'/')
        good = (len(parts) <= 3 and all(len(x) == 1 and x in HEX for x in parts[:2])
                and (len(parts) < 3 or (valid_id(parts[2]) and parts[2][0:1] == parts[0] and parts[2][1:2] == parts[1])))
        if not good:
            vs.append('job %d: entry %r in the toolchain cache is not <a>/<b>/<hex id>' % (k, e[1]))
    t = f[b'target']
    if isinstance(t, bytes):
        parts = t.split(b'/')
        nm = parts[3] if len(parts) == 5 else b''
        if parts[:3] != [b'srv', b'build', b'builds'] or parts[4:] != [b'target'] or not valid_id(nm.split(b'-')[0]) or not nm.split(b'-')[-1].isdigit():
            vs.append('job %d: job root %r is not builds/<id>-<n>/target' % (k, t))
        # everything the job finds in its root is explained by the toolchain, its own inputs and the
        # directories the server created for its own cwd / outputs (symlink-free cases only: with links
        # the server legitimately resolves them inside the root)
        if symlinks:
            return
        expl = set()

        def add(p):
            for i in range(1, len(p) + 1):
                expl.add(b'/'.join(p[:i]))
        add([b'tc_bin', b'tool'])
        add([b'tc_lib'])
        for m in inputs:
            cs = comps(m[1])
            if 'up' not in cs:
                add([c for c in cs if not isinstance(c, str)])
        add(norm_inside(cwd, b''))
        for o in outs:
            par = parent_bytes(o)
            if par is not None:
                add(norm_inside(cwd, par))
        for e in f[b'snap']:
            if e[1] not in expl:
                vs.append('job %d: found %r in its root, which comes neither from the toolchain, its inputs nor its own cwd/outputs' % (k, e[1]))


def mon_ops(ops, out, symlinks):
    vs = []
    if out and out[0] == b'env_unsupported':
        return []
    if not isinstance(out, list) or len(out) != len(ops):
        return ['malformed implementation output']
    live = {}      # key -> target of the jobs whose compile is running
    started = {}   # key -> request
    for k, (op, obs) in enumerate(zip(ops, out)):
        if not isinstance(obs, list) or not obs or obs[0] not in (b'job', b'start', b'release'):
            vs.append('step %d: unexpected observation %r' % (k, obs))
            continue
        f = {x[0]: (x[1:] if x[0] == b'launcher' else x[1]) for x in obs[1:]}
        f[b'head'] = obs[0]
        if op[0] == b'start':
            job = op[2]
            t = f[b'target']
            if f[b'run'] == b'running' and isinstance(t, bytes):
                if t in live.values():
                    vs.append('step %d: job %r was given the root %r of a job that is still running' % (k, op[1], t))
                live[op[1]] = t
                started[op[1]] = job
        elif op[0] == b'release':
            job = started.get(op[1])
            live.pop(op[1], None)
            if job is None:
                continue
        else:
            job = op
            t = f[b'target']
            if isinstance(t, bytes) and t in live.values():
                vs.append('step %d: a job was given the root %r of a job that is still running' % (k, t))
        check_obs(k, job, f, vs, symlinks, live)
    return vs


def mon_fs(case, out):
    return mon_ops(case, out, has_symlink(case))


def mon_fs2(case, out):
    ops = case[1]
    return mon_ops(ops, out, has_symlink([o[2] if o[0] == b'start' else o for o in ops if o[0] != b'release']))


def has_symlink(case):
    return any(m[0] in (b'symlink', b'replace') for job in case for m in job[6] + job[7])


def canon_fs(line):
    x = pipeline.parse_out(line)
    if not isinstance(x, list):
        return x
    res = []
    for obs in x:
        if not isinstance(obs, list) or not obs or obs[0] not in (b'job', b'start', b'release'):
            res.append(obs)
            continue
        f = [obs[0]]
        for fld in obs[1:]:
            if fld[0] == b'left':
                # the model knows which build directories exist, not what overlayfs keeps inside them
                f.append([fld[0], sorted(set(e.split(b'/')[0] for e in fld[1]))])
            elif fld[0] == b'cache':
                # entries of ids other than the genuine toolchain depend on the C17 fix (a refused upload used
                # to stay in the cache): compared for the genuine id only; the monitor checks the shape of all
                real = (_real.get('id', b'?'), _real.get('id2', b'?'))
                f.append([fld[0], sorted(set(sx.dumps(e) for e in fld[1] if e[0] == b'f' and e[1].split(b'/')[-1] in real))])
            elif fld[0] in (b'snap', b'toolchains'):
                f.append([fld[0], sorted(set(sx.dumps(e) for e in fld[1]))])
            else:
                f.append(fld)
        res.append(f)
    return res


def compare_fs(m, i):
    cm, ci = canon_fs(m), canon_fs(i)
    if isinstance(cm, list) and isinstance(ci, list) and not any(isinstance(o, list) and any(isinstance(f, list) and f[:1] == [b'launcher'] for f in o) for o in ci):
        # a hook that does not record how the launcher was started (before C19-hook.diff of round 4)
        cm = [[f for f in o if not (isinstance(f, list) and f[:1] == [b'launcher'])] if isinstance(o, list) else o for o in cm]
    return cm == ci


def stats_calc(case, out):
    ks = ['op=' + case[0].decode()]
    if isinstance(out, list) and out and isinstance(out[0], bytes):
        ks.append(case[0].decode() + '.res=' + out[0].decode()[:12])
    if case[0] == b'check_id':
        ks.append('check_id=%s' % out)
    if case[0] == b'join_suffix':
        ks.append('suffix.dotdot=%d' % (b'..' in case[2]))
        ks.append('suffix.abs=%d' % case[2].startswith(b'/'))
    return ks


def stats_fs(case, out):
    ks = ['jobs=%d' % len(case)]
    try:
        for obs in out:
            f = {x[0]: (x[1:] if x[0] == b'launcher' else x[1]) for x in obs[1:]}
            ks.append('assign=' + f[b'assign'].decode())
            ks.append('submit=' + f[b'submit'].decode())
            ks.append('run=' + f[b'run'].decode())
            ks.append('outputs_returned=%d' % min(len(f[b'outputs']), 3))
    except Exception:
        pass
    return ks


def stats_fs2(case, out):
    ks = ['cache_room=%d' % case[0], 'steps=%d' % len(case[1])]
    running = 0
    try:
        for op, obs in zip(case[1], out):
            f = {x[0]: (x[1:] if x[0] == b'launcher' else x[1]) for x in obs[1:]}
            ks.append('%s.run=%s' % (obs[0].decode(), f[b'run'].decode()))
            if obs[0] == b'start' and f[b'run'] == b'running':
                running += 1
            if obs[0] == b'release':
                running -= 1
            if obs[0] != b'release' and running > (1 if obs[0] == b'start' else 0):
                ks.append('step_while_other_job_running')
                if f[b'run'] == b'err':
                    ks.append('refused_while_other_job_running')
    except Exception:
        pass
    return ks


def nontrivial_fs2(case, out):
    return 'step_while_other_job_running' in stats_fs2(case, out)


def shrink_fs2(case):
    cap, ops, flags = case[0], case[1], case[2:]
    for i in range(len(ops)):
        yield [cap, ops[:i] + ops[i + 1:]] + flags
    for i, op in enumerate(ops):
        if op[0] == b'start':
            yield [cap, ops[:i] + [op[2]] + [o for o in ops[i + 1:] if o != [b'release', op[1]]]] + flags


def nontrivial_calc(case, out):
    blob = b' '.join(x for x in case[1:] if isinstance(x, bytes)) + b' '.join(case[5] if case[0] == b'job' else [])
    return b'..' in blob or b'/' in blob or case[0] in (b'check_id', b'lru_key')


def nontrivial_fs(case, out):
    try:
        return any(dict((x[0], x[1]) for x in obs[1:] if len(x) > 1)[b'run'] != b'skipped' for obs in out)
    except Exception:
        return True


def shrink_bytes(b):
    for i in range(len(b)):
        yield b[:i] + b[i + 1:]


def shrink_calc(case):
    for i in range(1, len(case)):
        x = case[i]
        if isinstance(x, bytes):
            for y in list(shrink_bytes(x))[:40]:
                yield case[:i] + [y] + case[i + 1:]
        elif isinstance(x, list):
            for j in range(len(x)):
                yield case[:i] + [x[:j] + x[j + 1:]] + case[i + 1:]


def shrink_fs(case):
    for i in range(len(case)):
        yield case[:i] + case[i + 1:]
    for i, job in enumerate(case):
        for fld in (5, 6, 7):
            for j in range(len(job[fld])):
                j2 = list(job)
                j2[fld] = job[fld][:j] + job[fld][j + 1:]
                yield case[:i] + [j2] + case[i + 1:]
        for y in list(shrink_bytes(job[4]))[:30]:
            j2 = list(job)
            j2[4] = y
            yield case[:i] + [j2] + case[i + 1:]


def neighbours_calc(case):
    esc = [b'/../../x', b'../../../x', b'/..', b'..', b'a/../../..', b'/etc/passwd']
    if case[0] == b'join_suffix':
        for e in esc:
            yield [b'join_suffix', case[1], e]
            yield [b'join_suffix', case[1], case[2] + b'/' + e]
    if case[0] == b'job':
        for e in esc:
            yield case[:4] + [e, case[5]]
            yield case[:5] + [[e]]
        for i in (b'', b'a', b'../x', b'/abs', 'é1'.encode()):
            yield case[:2] + [i] + case[3:]
    if case[0] in (b'check_id', b'lru_key'):
        for i in (b'', b'a', b'../x', b'/abs', 'é1'.encode(), b'ab/../cd'):
            yield [b'check_id', i]


def neighbours_fs(case):
    for i, job in enumerate(case):
        for e in (b'/../../../../../x', b'../../../../../../x'):
            j2 = list(job)
            j2[4] = e
            yield case[:i] + [j2] + case[i + 1:]
        for e in (b'/../../../../../secret', b'../../../../../../etc/passwd'):
            j2 = list(job)
            j2[5] = [e]
            yield case[:i] + [j2] + case[i + 1:]
        for e in (b'../../../evil', b'', b'a'):
            j2 = list(job)
            j2[1] = e
            j2[2] = 0
            yield case[:i] + [j2] + case[i + 1:]


def neighbours_fs_sym(case):
    """around a disagreeing case with symlinks: the same links, moved deeper, with outputs that go through them and
    climb with k '..' towards the server's own files"""
    for i, job in enumerate(case):
        links = [m for m in job[6] + job[7] if m[0] in (b'symlink', b'replace')]
        for m in links[:2]:
            for deep in (b'', b'a/b/c/d/', b'work/a/b/c/d/e/f/'):
                where = deep + m[1].lstrip(b'/')
                for tgt in (m[2], b'/'):
                    for k in (1, 2, 3, 5, 6, 7, 8, 9, 12):
                        for tail in (b'secret', b'etc/passwd', b'newdir/x.o'):
                            j2 = list(job)
                            j2[4] = b'/'
                            j2[6] = [[b'symlink', where, tgt]]
                            j2[7] = []
                            j2[5] = [where + b'/' + b'../' * k + tail]
                            yield case[:i] + [j2] + case[i + 1:]
    yield from neighbours_fs(case)


# ---------------------------------------------------------------- leg docker: DockerBuilder::clean_container

def docker_supported():
    """the hook leg `docker` (C19-hook.diff) may not be merged yet"""
    if 'docker' not in _real:
        try:
            p = subprocess.run([pipeline.repo_bin('sccache-dist'), '__verif_paths', 'docker_probe'], stdin=subprocess.DEVNULL,
                               stdout=subprocess.PIPE, timeout=60)
            _real['docker'] = p.stdout.decode().startswith('docker leg')
        except Exception:
            _real['docker'] = False
    return _real['docker']


D_DIRS = [b'/bin', b'/home', b'/home/u', b'/usr', b'/usr/lib', b'/tmp', b'/home/u/obj', b'/etc']
D_FILES = [b'/bin/cc', b'/bin/ld', b'/usr/lib/a.so', b'/etc/passwd', b'/bin/cc1']       # files of the toolchain image
D_NEW = [b'/bin/cc.orig', b'/bin/cc-real', b'/bin/cc2', b'/bin/cc/x', b'/bin/c', b'/home/u/out.o', b'/home/u/obj/a.o', b'/homer', b'/home/u2',
         b'/tmp/x', b'/tmp/x/y', b'/tmpx', b'/usr/lib/a.so.1', b'/usr/lib/a.so/b', b'/a b', '/é'.encode(), b'/usr/libexec', b'/etc/passwd-',
         b'/etc/passwd.d/x', b'/bin/ld.gold']


def gen_docker(rng, tier):
    if not docker_supported():
        return []
    n = 30000 if tier == 'thorough' else 2500
    out = []
    for _ in range(n):
        lines = {}
        kind = rng.weighted([('ordinary', 5), ('tamper', 4), ('odd', 1)])
        for _ in range(rng.range(1, 5)):
            p = rng.choice(D_NEW)
            lines[p] = b'A'
            # docker lists the parents of an added entry as changed
            if rng.chance(1, 3):
                par = p.rsplit(b'/', 1)[0]
                if par in D_DIRS:
                    lines[par] = b'C'
        if kind == 'tamper':
            for _ in range(rng.range(1, 2)):
                f = rng.choice(D_FILES)
                lines[f] = rng.weighted([(b'C', 4), (b'D', 2)])
                if rng.chance(2, 3):
                    # a new path whose NAME merely extends the file's name, right behind it in the listing
                    lines[f + rng.choice([b'.orig', b'-real', b'2', b'~', b'.d/x', b'/x'])] = b'A'
                if rng.chance(1, 2):
                    lines[f.rsplit(b'/', 1)[0]] = b'C'
        if rng.chance(1, 4):
            lines[b'/tmp'] = rng.weighted([(b'C', 5), (b'A', 1), (b'D', 1)])
        if 'entries' in hook_caps() and rng.chance(1, 5):
            # names `docker diff` prints raw: a path ending in white space (trimmed away when it ends the listing), a
            # path holding a newline (split into fake lines): rm -rf of the mangled name removes nothing
            lines[rng.choice([b'/zzz ', b'/zzz\t', b'/tmp/a ', b'/tmp/zz\n', b'/zz\nA /tmp/q', b'/zy\nC /tmp', b'/zzz \n', b'/zzzz  '])] = b'A'
        ls = [t + b' ' + p for p, t in sorted(lines.items())]
        if kind == 'odd':
            ls.insert(rng.below(len(ls) + 1), rng.choice([b'A', b'X /p', b'A  /two', b'C', b'A /p q r', b'AA /x', b'a /x']))
            if rng.chance(1, 2):
                ls = rng.shuffle(ls)
            ls = [l for l in ls if l]
            if ls and (ls[0][:1].isspace() or ls[-1][-1:].isspace()) and 'entries' not in hook_caps():
                continue
        out.append(ls)
    return out


def mon_docker(case, out):
    """the property: a container whose toolchain FILES were changed or deleted, or that still holds something a job
    added, is not handed to the next job"""
    vs = []
    if out and out[0] in (b'env_unsupported', b'unknown_leg'):
        return []      # unknown_leg: the hook leg is not in this tree yet (C19-hook.diff)
    if not isinstance(out, list) or len(out) != 3 or out[0][:1] != [b'rms']:
        return ['malformed implementation output %r' % (out,)]
    ok = out[1][1]
    if ok == b'panic':
        return ['clean_container panicked']
    if ok == 1:
        for l in out[2][1:]:
            t, _, p = l.partition(b' ')
            if t == b'A' and p != b'/tmp':
                vs.append('container goes back into the pool although %r, added by the job, is still in it' % p)
            elif t in (b'C', b'D') and p in D_FILES:
                vs.append('container goes back into the pool although the job %s the toolchain file %r (diff %r): the next job of '
                          'this toolchain gets the altered toolchain' % ('changed' if t == b'C' else 'deleted', p, case))
            elif t not in (b'A', b'C', b'D'):
                vs.append('container goes back into the pool with an unreadable diff line %r' % l)
    for p in out[0][1:]:
        if p in D_FILES or p in D_DIRS:
            vs.append('clean_container removed %r, which belongs to the toolchain image' % p)
    return vs


def stats_docker(case, out):
    try:
        return ['ok=%s' % out[1][1], 'lines=%d' % min(len(case), 8), 'rms=%d' % min(len(out[0]) - 1, 5)]
    except Exception:
        return []


def shrink_docker(case):
    for i in range(len(case)):
        yield case[:i] + case[i + 1:]


def neighbours_docker(case):
    for f in D_FILES:
        for ext in (b'.orig', b'2', b'/x'):
            for par in ([], [b'C ' + f.rsplit(b'/', 1)[0]]):
                yield par + [b'C ' + f, b'A ' + f + ext]
                yield par + [b'D ' + f, b'A ' + f + ext]


# the text of clean_container the model (Model/C19Docker.v) was transcribed from: until the hook leg `docker` can
# run the real function, a change of this text is all that ties the model to the code
CLEAN_CONTAINER_SHA = '6e51b8a25243d876bab76c380cfc764d0475651345e9e11895b90c011afd2956'


def _clean_container_text():
    import hashlib
    import re
    src = open(os.path.join(pipeline.REPO, 'src/bin/sccache-dist/build.rs'), encoding='utf-8').read()
    i = src.index('fn clean_container(&self, cid: &str) -> Result<()> {')
    depth = 0
    j = src.index('{', i)
    for k in range(j, len(src)):
        if src[k] == '{':
            depth += 1
        elif src[k] == '}':
            depth -= 1
            if depth == 0:
                break
    body = src[i:k + 1]
    body = re.sub(r'//[^\n]*', '', body)
    body = re.sub(r'\s+', ' ', body).strip()
    return body, hashlib.sha256(body.encode()).hexdigest()


PERFORM_BUILD_SHA = 'f9330da44565944311e4d21b6b0725de8cc83d4c7034a9fc9f27ed37237d9a2b'


def _fn_text(header):
    import hashlib
    import re
    src = open(os.path.join(pipeline.REPO, 'src/bin/sccache-dist/build.rs'), encoding='utf-8').read()
    i = src.index(header)
    depth = 0
    j = src.index('{', src.index(')', i))
    k = j
    for k in range(j, len(src)):
        if src[k] == '{':
            depth += 1
        elif src[k] == '}':
            depth -= 1
            if depth == 0:
                break
    body = re.sub(r'//[^\n]*', '', src[i:k + 1])
    body = re.sub(r'\s+', ' ', body).strip()
    return hashlib.sha256(body.encode()).hexdigest()


def translate(rep):
    caps = hook_caps()
    if not {'launcher', 'overlayfail'} <= caps:
        h = _fn_text('fn perform_build(')
        rep.oblige('transcription:OverlayBuilder::perform_build', h == PERFORM_BUILD_SHA,
                   'the hook in this tree cannot yet record how the launcher is started nor put the server on an overlay, so '
                   'the model of perform_build (mount or refuse; client variables as --setenv arguments) is tied to the source '
                   'text only; sha256 of the comment- and space-normalised function: %s (model transcribed from %s)' % (h, PERFORM_BUILD_SHA))
    body, h = _clean_container_text()
    if docker_supported():
        rep.notes.append('clean_container: compared with the model by running it (leg docker)')
        return
    rep.oblige('transcription:DockerBuilder::clean_container', h == CLEAN_CONTAINER_SHA,
               'the hook leg `docker` is not in this tree, so the model of clean_container is tied to the source text only; '
               'sha256 of the comment- and space-normalised function: %s (model transcribed from %s)' % (h, CLEAN_CONTAINER_SHA))


def extra(rep, known):
    if not fs_supported():
        rep.notes.append('fs / fs_sym legs NOT RUN: the hooked sccache-dist cannot set up its private mount namespace / overlay '
                         'here (needs root with CAP_SYS_ADMIN and overlayfs): ' + _real.get('fs_msg', ''))


def legs(tier):
    env = impl_env()
    docker = [Leg('docker', gen_docker, monitor=mon_docker, compare=lambda m, i: i == '(unknown_leg)' or m == i, shrink=shrink_docker, neighbours=neighbours_docker, stats=stats_docker,
                  impl_env=env, nontrivial=lambda c, o: any(l[:1] in (b'C', b'D') for l in c),
                  rule='`docker diff` listings of a used container over a toolchain image (files /bin/cc, /bin/ld, ... and '
                       'directories): additions with and without their parents listed as changed, changed / deleted toolchain '
                       'files with and without a new path whose name extends theirs right behind them, /tmp lines, malformed and '
                       'unsorted listings; non-trivial = the listing has a C or D line')]
    return docker + [
        Leg('calc', gen_calc, monitor=mon_calc, nontrivial=nontrivial_calc, shrink=shrink_calc, neighbours=neighbours_calc,
            stats=stats_calc, impl_env=env,
            rule='PRNG strings over a path alphabet (absolute, relative, many "..", ".", "//", empty, NUL, non-UTF-8, 300-byte '
                 'names) and id alphabet (64-hex, short hex, empty, one char, non-ASCII, absolute, "../x", upper case, 1024 hex); '
                 '3/5 of path cases benign; non-trivial = the case contains "/" or ".." or is an id check; distinct by case text'),
        Leg('fs', lambda rng, tier: gen_fs(rng, tier), monitor=mon_fs, nontrivial=nontrivial_fs, shrink=shrink_fs,
            neighbours=neighbours_fs, stats=stats_fs, compare=compare_fs, impl_env=env,
            rule='1-3 jobs on one real Server/TcCache/OverlayBuilder in a scratch root (real overlayfs, fake bwrap): genuine '
                 'toolchain (3/4), invalid ids, wrong hex id; adversarial cwd / outputs / archive member names / job writes; '
                 'non-trivial = at least one job reached handle_run_job'),
        Leg('fs_sym', lambda rng, tier: gen_fs(rng, tier, True), monitor=mon_fs, nontrivial=nontrivial_fs, shrink=shrink_fs,
            neighbours=neighbours_fs_sym, stats=stats_fs, compare=compare_fs, impl_env=env, model_leg='fs', impl_args=['fs'],
            rule='as fs, every case with a symlink unpacked from the inputs archive or created by the job, requested as / below '
                 'cwd and outputs; 1/3 of the cases with a job whose compile replaces its cwd or an ancestor by a symlink '
                 '(targets: the server\'s scratch root, its etc/ and srv/, /etc, /, inside the root) and names relative outputs below it'),
        Leg('fs2', gen_fs2, monitor=mon_fs2, nontrivial=nontrivial_fs2, shrink=shrink_fs2, stats=stats_fs2, compare=compare_fs,
            impl_env=env,
            rule='scripts of 3-9 steps on one server with two toolchains and a toolchain cache with room for 1 (5/7), 2 or any '
                 'number of archives: start (the compile stays running), job, release; uploads evict the other toolchain, the '
                 'builder forgets and re-unpacks toolchains, counters restart; non-trivial = some step ran while another job\'s '
                 'compile was running'),
        # witnesses that need the round-4 hook (launcher record, server on an overlay): compared and monitored only when
        # the hook in the tree has these capabilities
        Leg('fs2o', lambda rng, tier: [], monitor=lambda c, o: mon_fs2(c, o) if {'launcher', 'overlayfail'} <= hook_caps() else [],
            compare=lambda m, i: compare_fs(m, i) if {'launcher', 'overlayfail'} <= hook_caps() else True,
            stats=stats_fs2, impl_env=env, model_leg='fs2', impl_args=['fs2'],
            rule='corpus only: a server whose directories lie on an overlay (every job must be refused, the unpacked toolchain '
                 'stays as it is); jobs with client environment variables naming files of their own inputs'),
    ]
