"""C11 — losing the server mid-request degrades to a correct local compile.

Legs (all differential: extracted Model/Client.v vs the real code; monitors evaluate the property itself):
  decode_resp / decode_req   the model's bincode decoders vs the real `bincode::deserialize::<Response|Request>`
  client   fake server (harness) <-> REAL `sccache` client binary: the response stream `CompileStarted ++
           CompileFinished` cut at EVERY byte offset, ended by close (FIN) / SO_LINGER-0 close (RST) / garbage,
           with SCCACHE_IGNORE_SERVER_IO_ERROR on/off and a succeeding/failing compiler
  server   scripted byte chunks (valid requests, garbage, oversized and truncated frames) on several connections
           to a LIVE real server while a bystander client compiles through it with real gcc
  coldstart  no server on a fresh port, k in {1,2,6,12} real clients released together through a barrier (also right
           after a SIGKILLed server): every client must start / find a server and deliver exit 0 + the true object;
           each client's (start-up class, outcome) is looked up in the model's decision table (trace acceptance)
  poison   ONE fresh real server: well-formed but unservable compile requests (real client or hand-built bincode
           frame) FIRST, then ordinary requests for the SAME compiler path on other connections, which must be served
  bigout   compiler output just below / at / above what fits into one CompileFinished frame: relayed whole, or the
           connection drops after the acknowledgement and the client compiles locally; never a clipped result
  vanish   DAEMONISED real server; a peer sends a complete well-formed Compile request and closes / resets / half-closes
           before or after the acknowledgement while a bystander compile is in flight: the same server must survive
  kill     the real server SIGKILLed while its compiler is in a scripted phase (detection = before the first
           response / preprocessor / compiler), then a compile with no server running
"""
from .. import pipeline
from .. import sx
from ..pipeline import Leg

ID = 'C11'
HARNESS_BIN = 'c11'
RUN_MODULE = 'Run.C11'
REPO_BINS = ['sccache']
THEOREMS = ['C11_never_false_success', 'C11_eof_after_ack_falls_back', 'C11_killed_while_answering',
            'C11_io_error_after_ack', 'C11_lost_before_ack', 'C11_complete_exchange_delivered',
            'C11_chunking_irrelevant', 'C11_connection_isolation', 'C11_only_shutdown_stops_the_server',
            'C11_frame_decoder_total', 'C11_start_up_table', 'C11_addr_in_use_proceeds', 'C11_cold_start_delivers',
            'C11_process_never_false_success', 'C11_failed_probe_does_not_poison',
            'C11_server_reports_requested_address', 'C11_cold_start_any_address',
            'C11_cold_start_stale_environment', 'C11_unusable_tmpdir_is_an_error',
            'C11_oversized_result_falls_back', 'C11_result_whole_or_not_at_all',
            'C11_fallback_is_the_original_command', 'C11_exit_keeps_the_socket', 'C11_socket_belongs_to_last_binder']
ASSUMPTIONS = [
    'which error kind the kernel reports to the client for a lost peer (clean EOF vs ECONNRESET) is an input of the model (the `ending` of the stream), not derived: observed in the kill leg (a SIGKILLed server that had read the whole request yields EOF) — the claim is PARTIAL there',
    'bytes written by the server before it dies are delivered to the client before the end-of-stream indication (TCP ordering; Linux keeps already queued data readable after an RST)',
    'the three responses that cannot occur in a compile exchange (Stats, DistStatus, ShuttingDown) are decoded through an oracle; every theorem quantifies over the oracle, the legs only send such payloads when they are too short to decode',
    'the local fallback is "the client spawns the original command and returns its status" (std::process); the compiler itself is not modelled: its exit status is a parameter',
    'the server is stopped only by the Shutdown RPC in this model; idle time-out and signals are outside it (C20)',
    'cold start: which spawned server wins the port is not modelled (C20 does); the client-side decision on every ServerStartup report is, and the coldstart leg accepts every observed (report, outcome) pair against it',
    'compiler map: whether a probe succeeds is a per-request input of the model (it runs with the request\'s environment); the map logic (None entries are never answered from, Some entries only with the current mtime) is modelled and proved',
]
TRUSTED = [
    'hook: protocol::verif_{encode,decode}_{request,response} (thin wrappers around the same bincode::serialize/deserialize calls both ends use)',
    'harness/src/bin/c11.rs: fake server, live-server driver with frame-boundary pacing, /proc scan for daemonised servers (by unique SCCACHE_DIR, state != Z, kill by pid)',
    'real gcc behind a logging wrapper script as the compiler of the server and kill legs',
]

CAP = 4096          # SCCACHE_MAX_FRAME_LENGTH of the live server in the server leg (the bystander's own request is ~1 KiB)
DEFAULT_CAP = 8 * 1024 * 1024


# ---------------------------------------------------------------- wire encoding (bincode 1.3, fixint, little endian)

def le32(n):
    return (n & 0xffffffff).to_bytes(4, 'little')


def le64(n):
    return n.to_bytes(8, 'little')


def be32(n):
    return n.to_bytes(4, 'big')


def frame(p):
    return be32(len(p)) + p


def opt32(o):
    return b'\0' if o is None else b'\1' + le32(o)


def vec(b):
    return le64(len(b)) + b


def osstr(b):
    return le32(0) + vec(b)


CS = le32(0) + le32(0)
UNHANDLED = le32(0) + le32(1)
ZEROSTATS_RESP = le32(1)


def unsupported(msg):
    return le32(0) + le32(2) + osstr(msg)


def finished(rc, sig, out, err, color=2):
    return le32(5) + opt32(rc) + opt32(sig) + vec(out) + vec(err) + le32(color)


REQ_ZERO, REQ_GET, REQ_DIST, REQ_SHUT = le32(0), le32(1), le32(2), le32(3)


def compile_req(exe, cwd, args, env):
    return (le32(4) + osstr(exe) + osstr(cwd) + le64(len(args)) + b''.join(osstr(a) for a in args)
            + le64(len(env)) + b''.join(osstr(k) + osstr(v) for k, v in env))


STDOUT = b'compiler says hello on stdout: 0123456789\n'
STDERR = b'x.c:1:1: warning: something on stderr\n'
BASE = frame(CS) + frame(finished(0, None, STDOUT, STDERR))


# ---------------------------------------------------------------- the property's own reading of a response stream

def split_frames(b, limit=2):
    """complete frames at the front of b (at most `limit`), and whether the remainder is a proper prefix"""
    out = []
    pos = 0
    while len(out) < limit and len(b) - pos >= 4:
        n = int.from_bytes(b[pos:pos + 4], 'big')
        if len(b) - pos - 4 < n:
            break
        out.append(b[pos + 4:pos + 4 + n])
        pos += 4 + n
    return out, b[pos:]


def py_finished(p):
    """retcode (or a marker) of a CompileFinished payload as the client would decode it, else None"""
    try:
        if p[:4] != le32(5):
            return None
        pos = 4
        vals = []
        for _ in range(2):
            t = p[pos]
            pos += 1
            if t == 0:
                vals.append(None)
            elif t == 1:
                if len(p) < pos + 4:
                    return None
                vals.append(int.from_bytes(p[pos:pos + 4], 'little'))
                pos += 4
            else:
                return None
        for _ in range(2):
            if len(p) < pos + 8:
                return None
            n = int.from_bytes(p[pos:pos + 8], 'little')
            pos += 8
            if len(p) < pos + n:
                return None
            pos += n
        if len(p) < pos + 4 or int.from_bytes(p[pos:pos + 4], 'little') > 2:
            return None
        rc, sig = vals
        if rc is not None:
            return rc % 256
        return 254 if sig is not None else 253
    except IndexError:
        return None


def first_tag(p):
    return int.from_bytes(p[:4], 'little') if len(p) >= 4 else None


def opaque_free(b):
    """no frame the client would look at carries one of the oracle-decoded tags with a payload that could decode"""
    fr, _ = split_frames(b)
    return all(not (first_tag(p) in (2, 3, 4) and len(p) >= 16) for p in fr)


def monitor_client(case, out):
    ig, b, ending, status = case
    if not isinstance(out, list) or len(out) != 5:
        return ['the client run did not complete normally: %r' % (out,)]
    kind, why, code, ran, obj = out
    vs = []
    fr, rest = split_frames(b)
    acked = len(fr) >= 1 and fr[0][:8] == CS
    delivered = py_finished(fr[1]) if acked and len(fr) >= 2 else None
    if code == 0:
        if ran >= 1:
            if not (status == 0 and obj == b'L'):
                vs.append('exit 0 after a local compile whose status was %d / output state %s' % (status, obj))
        elif not (delivered == 0 and obj == b'S'):
            vs.append('exit 0 without a fully received CompileFinished(retcode 0) and without a local compile '
                      '(output state %s)' % obj)
    if ran > 1:
        vs.append('the compiler was executed %d times' % ran)
    if ran >= 1 and code != status:
        vs.append('local compile exited %d but the client returned %d' % (status, code))
    if ran == 0 and delivered is not None and kind == b'finished' and code != delivered:
        vs.append('CompileFinished said %d, the client returned %d' % (delivered, code))
    if kind == b'error' and code == 0:
        vs.append('sccache error reported with exit status 0')
    if acked and len(fr) == 1 and ending == b'eof' and ran != 1:
        # first sentence of the property: connection dropped after the acknowledgement
        vs.append('server lost (EOF) after CompileStarted but the client did not compile locally: %s %s' % (kind, why))
    if acked and len(fr) == 1 and ig == 1 and ran != 1:
        vs.append('SCCACHE_IGNORE_SERVER_IO_ERROR=1, server lost after CompileStarted, no local compile')
    return vs


def stats_client(case, out):
    ig, b, ending, status = case
    fr, rest = split_frames(b)
    region = 'complete' if len(fr) >= 2 else ('after_ack' if len(fr) == 1 else 'before_ack')
    ks = ['end=' + ending.decode(), 'ignore=%d' % ig, 'cc_status=%d' % status, 'region=' + region]
    try:
        ks.append('outcome=%s/%s' % (out[0].decode(), out[1].decode()))
    except Exception:
        ks.append('outcome=abnormal')
    return ks


def nontrivial_client(case, out):
    fr, rest = split_frames(case[1])
    return len(fr) < 2 or py_finished(fr[1]) is None      # something was lost or corrupted


def shrink_client(case):
    ig, b, e, st = case
    for k in (len(b) // 2, len(b) - 1):
        if 0 <= k < len(b):
            yield [ig, b[:k], e, st]
    if st:
        yield [ig, b, e, 0]
    if ig:
        yield [0, b, e, st]


def neighbours_client(case):
    ig, b, e, st = case
    for e2 in (b'eof', b'reset'):
        for ig2 in (0, 1):
            for st2 in (0, 1):
                yield [ig2, b, e2, st2]
    for k in range(len(b)):
        yield [ig, b[:k], e, st]


GARBAGE = [b'\xff' * 16, b'\0' * 16, frame(CS), frame(ZEROSTATS_RESP), frame(le32(9) + b'abc'),
           be32(5) + b'\5\0\0\0\7']


def gen_client(rng, tier):
    out = []

    def add(ig, b, e, st):
        if opaque_free(b):
            out.append([ig, b, e, st])

    bases = [BASE]
    if tier == 'thorough':
        bases.append(frame(CS) + frame(finished(1, None, b'', b'error: no\n')))
        bases.append(frame(CS + b'trailing') + frame(finished(None, 11, b'o', b'')))
    for base in bases:
        for k in range(len(base) + 1):
            pre = base[:k]
            for ig in (0, 1):
                for st in (0, 1):
                    add(ig, pre, b'eof', st)
                    add(ig, pre, b'reset', st)
                    add(ig, pre + b'\xff' * 16, b'eof', st)
                    add(ig, pre + rng.bytes(rng.range(1, 24)), b'eof', st)
            g = GARBAGE[k % len(GARBAGE)]
            add(k & 1, pre + g, b'eof', (k >> 1) & 1)
            add(k & 1, pre + g, b'reset', (k >> 1) & 1)
    # other first / second responses, other CompileFinished contents
    firsts = [UNHANDLED, unsupported(b'no such compiler'), ZEROSTATS_RESP, finished(0, None, b'', b''), CS + b'xx',
              le32(0) + le32(3), le32(0) + le32(2) + le32(1) + vec(b'win'), le32(6), b'', le32(0)]
    for f in firsts:
        for ig in (0, 1):
            for st in (0, 3):
                add(ig, frame(f), b'eof', st)
                add(ig, frame(f) + frame(finished(0, None, b'', b'')), b'reset', st)
    seconds = [finished(1, None, b'out', b'err'), finished(0, None, b'', b'', 0), finished(0, None, b'', b'', 1),
               finished(0, None, b'', b'', 3), finished(None, 9, b'', b''), finished(None, None, b'', b''),
               finished(256, None, b'', b''), finished(0xfffffffe, None, b'', b''), finished(255, 6, b'a', b'b'),
               finished(0, None, b'', b'') + b'trailing bytes are allowed', CS, UNHANDLED, ZEROSTATS_RESP,
               le32(5) + b'\2', le32(5) + b'\0\0' + le64(1 << 40), b'']
    for s in seconds:
        for ig in (0, 1):
            add(ig, frame(CS) + frame(s), b'eof', 0)
            add(ig, frame(CS) + frame(s), b'reset', 1)
    # a large CompileFinished (crosses the client's 8 KiB BufReader) cut at sampled offsets
    big = frame(CS) + frame(finished(0, None, b'A' * 9000, b'B' * 300))
    offs = sorted(set([0, 12, 16, 8191, 8192, 8193, 8204, len(big) - 1, len(big)] +
                      [rng.below(len(big)) for _ in range(60 if tier == 'thorough' else 14)]))
    for k in offs:
        add(rng.below(2), big[:k], rng.choice([b'eof', b'reset']), rng.below(2))
    n = 3000 if tier == 'thorough' else 150
    for _ in range(n):
        b = BASE[:rng.below(len(BASE) + 1)]
        if rng.chance(1, 2):
            b = bytearray(b)
            if b:
                b[rng.below(len(b))] = rng.below(256)
            b = bytes(b)
        b += rng.bytes(rng.below(12))
        add(rng.below(2), b, rng.choice([b'eof', b'reset']), rng.below(2))
    return out


# ---------------------------------------------------------------- pure decode legs

def mutate(rng, b):
    r = rng.below(5)
    if r == 0 and b:
        return b[:rng.below(len(b))]
    if r == 1 and b:
        x = bytearray(b)
        x[rng.below(len(x))] = rng.below(256)
        return bytes(x)
    if r == 2 and b:
        x = bytearray(b)
        x[rng.below(len(x))] = rng.choice([0, 1, 2, 3, 255])
        return bytes(x)
    if r == 3:
        return b + rng.bytes(rng.range(1, 9))
    return b


def gen_decode_resp(rng, tier):
    seeds = [CS, UNHANDLED, unsupported(b''), unsupported(b'clang: error'), ZEROSTATS_RESP,
             finished(0, None, b'', b''), finished(1, None, STDOUT, STDERR), finished(None, 9, b'x', b''),
             finished(None, None, b'', b'y'), finished(0x80000000, 0xffffffff, b'\xff\0', b'\0', 1),
             finished(0, None, b'', b'', 3), le32(5) + b'\2', le32(6), le32(0) + le32(3), b'', le32(2), le32(3) + b'abc',
             le32(4) + b'\0' * 11, le32(0) + le32(2) + le32(1) + vec(b'ab')]
    out = list(seeds)
    n = 12000 if tier == 'thorough' else 1500
    for _ in range(n):
        b = rng.choice(seeds)
        for _ in range(rng.range(1, 3)):
            b = mutate(rng, b)
        out.append(b)
    for _ in range(n // 3):
        out.append(le32(rng.below(7)) + rng.bytes(rng.below(20)))
    return [b for b in out if not (first_tag(b) in (2, 3, 4) and len(b) >= 16)]


def gen_decode_req(rng, tier):
    seeds = [REQ_ZERO, REQ_GET, REQ_DIST, REQ_SHUT, REQ_SHUT + b'trailing',
             compile_req(b'/usr/bin/gcc', b'/tmp', [b'-c', b'a.c', b'-o', b'a.o'], [(b'PATH', b'/bin'), (b'A', b'')]),
             compile_req(b'', b'', [], []), compile_req(b'\xff\xfe', b'/', [b''], [(b'', b'')]),
             le32(4) + osstr(b'x') + osstr(b'y') + le64(1 << 60), le32(4) + osstr(b'x') + osstr(b'y') + le64(2) + osstr(b'1'),
             le32(4) + le32(1) + vec(b'ab'), le32(5), b'', b'\3\0\0']
    out = list(seeds)
    n = 12000 if tier == 'thorough' else 1500
    for _ in range(n):
        b = rng.choice(seeds)
        for _ in range(rng.range(1, 3)):
            b = mutate(rng, b)
        out.append(b)
    for _ in range(n // 3):
        out.append(le32(rng.below(6)) + rng.bytes(rng.below(40)))
    return out


def stats_decode(case, out):
    if isinstance(out, list) and out:
        return ['decoded=' + out[0].decode('latin-1')]
    return ['decoded=' + (out.decode('latin-1') if isinstance(out, bytes) else 'other')]


# ---------------------------------------------------------------- live server leg

SIMPLE = {REQ_ZERO: b'zero_stats', REQ_GET: b'stats', REQ_DIST: b'dist_status'}


def well_behaved(b):
    """the answers a connection that sent only complete, valid, non-shutdown requests is owed (else None)"""
    fr, rest = split_frames(b, limit=1 << 30)
    if rest or not fr:
        return None
    if any(p not in SIMPLE for p in fr):
        return None
    return [SIMPLE[p] for p in fr]


def monitor_server(case, out):
    cap, evs = case
    if not isinstance(out, list) or len(out) != 3 or not isinstance(out[0], list):
        return ['the server run did not complete normally: %r' % (out,)]
    rows, alive, bystander = out
    vs = []
    asked = any(b'shutting_down' in r[1] for r in rows)
    if alive != 1 and not asked:
        vs.append('the server no longer answers GetStats although no Shutdown request was accepted')
    if bystander != [0, 1]:
        vs.append('a client compiling through the server while other connections sent malformed data got '
                  'exit/object-ok = %r' % (bystander,))
    per = {}
    for i, ch in evs:
        per[i] = per.get(i, b'') + ch
    for r in rows:
        want = well_behaved(per.get(r[0], b''))
        if want is not None and not asked and (r[1] != want or r[2] != b'open'):
            vs.append('connection %d sent only valid requests but got %r / %s' % (r[0], r[1], r[2]))
    return vs


def gen_server(rng, tier):
    good = [frame(REQ_GET), frame(REQ_ZERO), frame(REQ_DIST), frame(REQ_GET + b'\0trailing')]
    real_compile = frame(compile_req(b'/bin/true', b'/tmp', [b'-c', b'a.c'], [(b'A', b'B')]))

    def bad(rng):
        k = rng.below(9)
        if k == 0:
            return be32(CAP + 1 + rng.below(1000)) + rng.bytes(rng.below(8))        # oversized
        if k == 1:
            return b'\xff\xff\xff\xff'
        if k == 2:
            return frame(le32(rng.range(5, 300)) + rng.bytes(rng.below(30)))          # unknown variant
        if k == 3:
            return frame(rng.bytes(rng.below(4)))                                       # too short for a tag
        if k == 4:
            return frame(le32(4) + rng.bytes(rng.below(60)))                            # broken Compile
        if k == 5:
            return frame(b'')                                                           # empty frame
        if k == 6:
            p = rng.choice(good)
            return p[:rng.range(1, len(p) - 1)]                                         # truncated, then silence
        if k == 7:
            return be32(CAP) + le32(9) + b'z' * (CAP - 4)                               # exactly at the cap, undecodable
        return be32(rng.range(8, 64)) + rng.bytes(3)                                    # header promising more than sent

    def script(rng):
        parts = []
        for _ in range(rng.range(1, 4)):
            parts.append(rng.choice(good) if rng.chance(3, 5) else bad(rng))
        return b''.join(parts)

    out = []
    # fixed cases first
    out.append([CAP, [[1, frame(REQ_GET)]]])
    out.append([CAP, [[1, be32(CAP) + REQ_GET + b'\0' * (CAP - 4)], [1, frame(REQ_GET)]]])          # exactly at the cap, valid
    out.append([CAP, [[1, be32(CAP + 1)], [2, frame(REQ_GET)]]])
    out.append([CAP, [[1, real_compile], [2, b'\xff' * 64], [1, frame(REQ_GET)]]])
    out.append([DEFAULT_CAP, [[1, be32(DEFAULT_CAP + 1)], [2, be32(0x7fffffff)], [3, frame(REQ_GET)]]])
    out.append([CAP, [[1, frame(REQ_GET)], [2, frame(REQ_GET) + b'\0\0\0'], [3, b'\xff' * 9], [1, frame(REQ_SHUT)]]])
    n = 2500 if tier == 'thorough' else 400
    for _ in range(n):
        nconn = rng.range(1, 3)
        scripts = {i + 1: script(rng) for i in range(nconn)}
        # cut every script into chunks and interleave them
        pieces = []
        for i, b in scripts.items():
            pos = 0
            while pos < len(b):
                step = rng.range(1, max(1, min(len(b) - pos, rng.choice([1, 3, 7, 40, 5000]))))
                pieces.append([i, b[pos:pos + step]])
                pos += step
        order = []
        cursors = {i: [p for p in pieces if p[0] == i] for i in scripts}
        while any(cursors.values()):
            i = rng.choice([k for k, v in cursors.items() if v])
            order.append(cursors[i].pop(0))
        if order:
            out.append([CAP, order])
    return out


def stats_server(case, out):
    ks = ['conns=%d' % len(set(e[0] for e in case[1])), 'events=%d' % min(len(case[1]), 20)]
    try:
        for r in out[0]:
            ks.append('conn_end=' + r[2].decode())
            for x in r[1]:
                ks.append('resp=' + x.decode())
    except Exception:
        ks.append('abnormal')
    return ks


def nontrivial_server(case, out):
    try:
        return any(r[2] == b'closed' for r in out[0]) or len(out[0]) > 1
    except Exception:
        return True


def shrink_server(case):
    cap, evs = case
    for i in range(len(evs)):
        yield [cap, evs[:i] + evs[i + 1:]]


# ---------------------------------------------------------------- kill leg

def monitor_kill(case, out):
    phase, ig = case
    if not isinstance(out, list) or len(out) != 8:
        return ['the run did not complete normally: %r' % (out,)]
    kind, why, code, ran, who, obj, restart, other = out
    vs = []
    if phase != b'none':
        # the concurrent client lost the server during its compiler run, after its acknowledgement
        if not (isinstance(other, list) and len(other) == 6 and other[3] == 1 and other[2] == 0 and other[5] == b'ok'):
            vs.append('a concurrent client whose server died during its compile did not deliver the original command\'s '
                      'result (exit 0, same object, same diagnostics bytes as a direct run): %r' % (other,))
    if code == 0 and obj != b'ok':
        vs.append('exit 0 with an object or diagnostics that differ from the direct run of the original command '
                  '(forced colour, SOURCE_DATE_EPOCH in the client environment)')
    if kind == b'error' and code == 0:
        vs.append('sccache error with exit 0')
    if phase in (b'preprocess', b'compile') and not (ran == 1 and code == 0):
        vs.append('server killed in phase %s (after the acknowledgement): the client did not deliver a local '
                  'compile (%s %s exit %d)' % (phase.decode(), kind.decode(), why.decode(), code))
    if phase == b'detect' and not (code != 0 or ran == 1):
        vs.append('server killed before the acknowledgement: exit 0 without a local compile')
    if phase != b'none' and restart != b'restart_ok':
        vs.append('with no server running the next compile did not start one and succeed')
    return vs


def gen_kill(rng, tier):
    reps = 6 if tier == 'thorough' else 2
    out = []
    for _ in range(reps):
        for ph in (b'none', b'detect', b'preprocess', b'compile'):
            for ig in (0, 1):
                out.append([ph, ig])
    return out


# ---------------------------------------------------------------- cold start leg

def compare_coldstart(m, i):
    """every client's (class, kind, exit) must be a row of the model's decision table"""
    try:
        table = {r[0]: (r[1], r[2]) for r in sx.loads(m)}
        rows = sx.loads(i)
        if not rows:
            return False
        return all(len(r) == 4 and table.get(r[0]) == (r[1], r[2]) for r in rows)
    except Exception:
        return False


ADDR_KINDS = [b'tcp', b'uds_plain', b'uds_symlink', b'uds_dotdot', b'uds_dot', b'uds_abstract']


ENV_KINDS = [b'plain', b'xdg_ok', b'xdg_stale', b'xdg_notdir', b'xdg_empty', b'home_unset', b'home_stale',
             b'home_notdir', b'tmpdir_ok', b'tmpdir_stale', b'all_stale']


def monitor_coldstart(case, out):
    k, after_kill = case[0], case[1]
    addr = case[2].decode() if len(case) > 2 else 'tcp'
    env = case[3].decode() if len(case) > 3 else 'plain'
    if not isinstance(out, list) or len(out) != k or not all(isinstance(r, list) and len(r) == 4 for r in out):
        return ['the cold-start run did not complete normally: %r' % (out,)]
    vs = []
    for n, (cls, kind, code, ok) in enumerate(out):
        if env == 'tmpdir_stale':
            # the one environment fault that is the client's own business: no rendezvous directory can be made.
            # Still never a false success.
            if code == 0 and ok != 1:
                vs.append('TMPDIR unusable: client %d exits 0 without the correct object' % n)
            continue
        if code != 0 or ok != 1:
            vs.append('no server running (address %s, client environment %s), %d clients started together%s: client %d '
                      '(%s) did not start/find a server and deliver the compile: %s, exit %r, correct object %r'
                      % (addr, env, k, ' after a killed server' if after_kill else '', n, cls.decode(), kind.decode(), code, ok))
    if env != 'tmpdir_stale' and not any(r[0] == b'started' for r in out):
        vs.append('no client reports having started the server although none was running')
    return vs[:3]


def gen_coldstart(rng, tier):
    reps = 4 if tier == 'thorough' else 1
    out = []
    for _ in range(reps):
        for k in (1, 2, 6, 12):
            out.append([k, 0, b'tcp', b'plain'])
        out.append([1, 1, b'tcp', b'plain'])
        out.append([12, 1, b'tcp', b'plain'])
        # the address space: Unix sockets, canonical and non-canonical spellings of the path, abstract names
        for a in ADDR_KINDS[1:]:
            out.append([1, 0, a, b'plain'])
            out.append([1, 1, a, b'plain'])
            out.append([rng.choice([2, 6]), rng.below(2), a, b'plain'])
        # the clients' environment: runtime / home / temporary directories unset, usable, stale, not a directory
        for e in ENV_KINDS[1:]:
            out.append([1, 0, b'tcp', e])
            out.append([rng.choice([1, 2]), 1, rng.choice([b'tcp', b'uds_plain']), e])
    out.append([12, 0, b'tcp', b'plain'])
    return out


def stats_coldstart(case, out):
    ks = ['k=%d' % case[0], 'addr=' + (case[2].decode() if len(case) > 2 else 'tcp'),
          'env=' + (case[3].decode() if len(case) > 3 else 'plain')]
    try:
        for r in out:
            ks.append('class=' + r[0].decode())
    except Exception:
        ks.append('abnormal')
    return ks


# ---------------------------------------------------------------- poison leg

BAD_HOWS = {
    # how: (compilers it applies to, ways to send it)
    b'gcc_exec_prefix': ((b'real', b'wrapper'), (b'client', b'frame')),   # GCC_EXEC_PREFIX=/nonexistent/: probe fails
    b'wrapper_fail': ((b'wrapper',), (b'client', b'frame')),              # request env makes the compiler exit 1
    b'broken_exe': ((b'wrapper',), (b'client', b'frame')),                # executable unusable now, repaired afterwards
    b'bad_cwd': ((b'real', b'wrapper'), (b'frame',)),                     # working directory does not exist
    b'unsupported_exe': ((b'real', b'wrapper'), (b'client', b'frame')),   # /bin/true
    b'nonexistent_exe': ((b'real', b'wrapper'), (b'frame',)),             # only a hand-built frame can name it
}


def monitor_poison(case, out):
    cc, steps = case
    if not isinstance(out, list) or len(out) != len(steps):
        return ['the run did not complete normally: %r' % (out,)]
    vs = []
    seen_bad = []
    for st, ans in zip(steps, out):
        if st[0] == b'bad':
            seen_bad.append(b'%s/%s' % (st[1], st[2]))
            if any(a == b'served' for a in ans):
                pass   # not the property's business
        else:
            for n, a in enumerate(ans):
                if a != b'served':
                    vs.append('an ordinary %s request for compiler %s on its own connection was answered %s after '
                              'other connections had sent unservable requests %s'
                              % (st[1].decode(), cc.decode(), a.decode(), [b.decode() for b in seen_bad]))
    return vs[:3]


def gen_poison(rng, tier):
    out = []
    tail = [[b'good', b'client', 3], [b'good', b'frame', 1]]
    for how, (ccs, vias) in sorted(BAD_HOWS.items()):
        for cc in ccs:
            for via in vias:
                out.append([cc, [[b'bad', how, via]] + tail])                                   # bad FIRST
    # control order and mixtures
    out.append([b'real', [[b'good', b'client', 1], [b'bad', b'gcc_exec_prefix', b'client'], [b'good', b'client', 2]]])
    out.append([b'wrapper', [[b'good', b'frame', 1], [b'bad', b'broken_exe', b'frame'], [b'good', b'client', 2]]])
    n = 60 if tier == 'thorough' else 6
    for _ in range(n):
        cc = rng.choice([b'real', b'wrapper'])
        steps = []
        for _ in range(rng.range(2, 5)):
            if rng.chance(1, 2):
                how = rng.choice(sorted(h for h, (ccs, _) in BAD_HOWS.items() if cc in ccs))
                steps.append([b'bad', how, rng.choice(BAD_HOWS[how][1])])
            else:
                steps.append([b'good', rng.choice([b'client', b'frame']), rng.range(1, 3)])
        steps.append([b'good', b'client', 2])
        out.append([cc, steps])
    return out


def stats_poison(case, out):
    ks = ['cc=' + case[0].decode()]
    for st in case[1]:
        ks.append('step=' + (b'/'.join(x for x in st if isinstance(x, bytes))).decode())
    try:
        for ans in out:
            for a in ans:
                ks.append('answer=' + a.decode())
    except Exception:
        ks.append('abnormal')
    return ks


def shrink_poison(case):
    cc, steps = case
    for i in range(len(steps)):
        if len(steps) > 1:
            yield [cc, steps[:i] + steps[i + 1:]]


# ---------------------------------------------------------------- bigout leg

BIG_CAP = 20000          # SCCACHE_MAX_FRAME_LENGTH of the server in this leg (a client request is ~1.5 KB)
LAST = b'noisycc: last line of the diagnostics'
ENVELOPE = 30            # bincode bytes of a CompileFinished around stdout/stderr (tag, 2 options, 2 lengths, color)


def gen_bigout(rng, tier):
    fit = BIG_CAP - ENVELOPE - len(LAST) - 2          # largest noise that still fits into one frame
    sizes = [0, 1000, fit - 300, fit - 1, fit, fit + 1, fit + 2, fit + 300, BIG_CAP, 2 * BIG_CAP + 17]
    out = []
    for n in sizes:
        out.append([BIG_CAP, n, 0, LAST])
    for n in (fit, fit + 1, 2 * BIG_CAP):
        out.append([BIG_CAP, n, 1, LAST])
    extra = 40 if tier == 'thorough' else 4
    for _ in range(extra):
        out.append([BIG_CAP, rng.range(fit - 50, fit + 50) if rng.chance(1, 2) else rng.range(0, 3 * BIG_CAP),
                    rng.choice([0, 0, 1, 3]), LAST])
    if tier == 'thorough':
        big = 8 * 1024 * 1024
        fitb = big - ENVELOPE - len(LAST) - 2
        for n in (fitb, fitb + 1, big + 4096):
            out.append([big, n, 0, LAST])
    return out


def monitor_bigout(case, out):
    cap, noise, status, last = case
    if not isinstance(out, list) or len(out) != 6:
        return ['the run did not complete normally: %r' % (out,)]
    kind, why, code, ran, complete, obj = out
    what = 'compiler writes %d bytes of diagnostics and exits %d, frame limit %d' % (noise + len(last) + 2, status, cap)
    vs = []
    if code == status and complete != b'complete':
        vs.append("%s: the client returned the compiler's exit status with PARTIAL output (%r) [%s/%s]"
                  % (what, complete, kind.decode(), why.decode()))
    if code != status and kind != b'error':
        vs.append('%s: the client returned %d' % (what, code))
    if kind == b'error' and code == 0:
        vs.append('%s: sccache error with exit 0' % what)
    if code == 0 and obj != b'ok':
        vs.append('%s: exit 0 with a missing or wrong object' % what)
    if kind == b'error':
        vs.append('%s: the client neither relayed the result nor compiled locally (%s)' % (what, why.decode()))
    return vs[:3]


# ---------------------------------------------------------------- takeover leg

def monitor_takeover(case, out):
    if not isinstance(out, list) or len(out) != 5:
        return ['the run did not complete normally: %r' % (out,)]
    inflight, during, old_gone, reachable, nxt = out
    what = 'Unix-socket server told to stop with a compile in flight, a new server takes the path over (%s), the old one exits' % case[0].decode()
    vs = []
    if inflight != b'served':
        vs.append('%s: the in-flight compile was not delivered: %r' % (what, inflight))
    if case[0] == b'client' and during != b'served':
        vs.append('%s: the client that arrived during the drain was not served: %r' % (what, during))
    if reachable != 1:
        vs.append('%s: a server is alive but the socket file is gone' % what)
    if nxt != b'served':
        vs.append('%s: the next client did not find/start a server and compile: %r' % (what, nxt))
    return vs


# ---------------------------------------------------------------- vanish leg

VANISH_FRAME = frame(compile_req(b'/d/bin/gcc', b'/d/wv', [b'-c', b'unit.c', b'-o', b'unit.o'],
                                 [(b'PATH', b'/usr/bin:/bin'), (b'C11_TAG', b'v')]))


def gen_vanish(rng, tier):
    reps = 3 if tier == 'thorough' else 1
    out = []
    for _ in range(reps):
        for beh in (b'close', b'reset', b'half_close'):
            for when in (b'immediately', b'after_started'):
                out.append([beh, when, VANISH_FRAME])
    out.append([b'close', b'immediately', VANISH_FRAME])
    return out


def monitor_vanish(case, out):
    beh, when, _ = case
    if not isinstance(out, list) or len(out) != 5:
        return ['the run did not complete normally: %r' % (out,)]
    alive, count, bystander, later, peer = out
    what = 'a peer sent a complete well-formed Compile request and then %s (%s)' % (beh.decode(), when.decode())
    vs = []
    if alive != 1:
        vs.append('%s: the daemonised server process is gone (or was replaced)' % what)
    if bystander != b'served':
        vs.append('%s: a bystander whose compile was in flight on the server was not served by it: %s'
                  % (what, bystander.decode() if isinstance(bystander, bytes) else bystander))
    if later != b'served':
        vs.append('%s: a later ordinary client was not served by the server: %r' % (what, later))
    if alive == 1 and count != 4:
        vs.append('%s: the server counts %r compile requests instead of 4 (not the same server / requests lost)' % (what, count))
    if beh == b'half_close' and peer != b'both':
        vs.append('a peer that only half-closed after its request did not receive both answers (%r)' % (peer,))
    return vs[:3]


# ---------------------------------------------------------------- wiring

def prebuild(rep):
    ok, out = pipeline.build_repo_bins(REPO_BINS)
    rep.oblige('build:sccache-binary', ok, out[-2000:] if not ok else 'cargo build --offline --bin sccache, --cfg sccache_verif')


def legs(tier):
    env = {'C11_SCCACHE': pipeline.repo_bin('sccache')}
    return [
        Leg('decode_resp', gen_decode_resp, stats=stats_decode, nontrivial=lambda c, o: o != b'err',
            rule='every Response shape of a compile exchange, byte-mutated / truncated / extended, plus random '
                 'payloads under every variant tag; non-trivial = decodes'),
        Leg('decode_req', gen_decode_req, stats=stats_decode, nontrivial=lambda c, o: o != b'err',
            rule='every Request shape incl. Compile with argument and environment vectors, mutated as above'),
        Leg('client', gen_client, monitor=monitor_client, stats=stats_client, nontrivial=nontrivial_client,
            shrink=shrink_client, neighbours=neighbours_client, impl_env=env,
            rule='EXHAUSTIVE cut offsets 0..len of CompileStarted++CompileFinished x {FIN, RST, 0xff garbage, random '
                 'garbage, structured garbage} x ignore-switch x compiler status; other first/second responses; a '
                 '9 KB CompileFinished; random corruptions; non-trivial = the exchange was cut or corrupted'),
        Leg('server', gen_server, monitor=monitor_server, stats=stats_server, nontrivial=nontrivial_server,
            shrink=shrink_server, impl_env=env, shards=8,
            rule='1-3 connections, each a random mix of valid requests, oversized headers, undecodable frames, '
                 'truncated frames, cut into random chunks and interleaved; a bystander client compiles with real gcc '
                 'meanwhile; non-trivial = a connection was closed by the server or several connections were open'),
        Leg('takeover', lambda rng, tier: [[b'start_server'], [b'client']] * (3 if tier == 'thorough' else 1),
            monitor=monitor_takeover, impl_env=env, shards=2, stats=lambda c, o: ['how=' + c[0].decode()],
            rule='SCCACHE_SERVER_UDS; server A holds a compile in flight, --stop-server, a new server takes the socket '
                 'path over inside the drain window (by --start-server / by an ordinary client), A finishes and exits; '
                 'monitor: in-flight compile delivered, socket still reachable, next client served'),
        Leg('bigout', gen_bigout, monitor=monitor_bigout, impl_env=env, shards=4,
            stats=lambda c, o: ['fits=%d' % (ENVELOPE + c[1] + len(c[3]) + 2 <= c[0]), 'status=%d' % c[2]],
            nontrivial=lambda c, o: ENVELOPE + c[1] + len(c[3]) + 2 > c[0],
            rule='real server with SCCACHE_MAX_FRAME_LENGTH=20000 (thorough: also the default 8 MiB); compiler diagnostics '
                 'of sizes around the exact fit boundary (fit-1, fit, fit+1, ...), far below and far above, compiler '
                 'status 0 / non-zero; the model predicts relayed vs local fallback to the byte; monitor: the status '
                 'is delivered only with the COMPLETE diagnostics'),
        Leg('vanish', gen_vanish, monitor=monitor_vanish, impl_env=env, shards=7,
            stats=lambda c, o: ['peer=%s/%s' % (c[0].decode(), c[1].decode())],
            rule='DAEMONISED real server (sccache --start-server; pid through /proc); a peer sends a complete well-formed '
                 'Compile request and then {closes, resets (SO_LINGER 0), half-closes} x {at once (request and FIN in '
                 'one segment), after reading CompileStarted}; its compile is held in the compiler until it is gone, a '
                 'bystander compile is held in flight meanwhile; monitor: same server pid alive and answering, 4 compile '
                 'requests counted, bystander and a later client served by the server (no local fallback)'),
        Leg('coldstart', gen_coldstart, monitor=monitor_coldstart, compare=compare_coldstart, stats=stats_coldstart,
            impl_env=env, shards=4,
            rule='server address in {TCP port, Unix socket path: plain / through a symlinked directory / with .. / with . '
                 'and a doubled separator, abstract socket}; '
                 'no server on a fresh address (also right after a SIGKILLed one), k in {1,2,6,12} real clients parked on a '
                 'barrier and released together; the model prints its start-up decision table, every observed client '
                 '(class existing/started/addr_in_use/..., outcome) must be a row of it; the monitor demands exit 0 and '
                 'the correct object from EVERY client'),
        Leg('poison', gen_poison, monitor=monitor_poison, stats=stats_poison, shrink=shrink_poison, impl_env=env, shards=8,
            nontrivial=lambda c, o: any(st[0] == b'bad' for st in c[1]),
            rule='one fresh server per case; every kind of well-formed but unservable compile request (probe failing '
                 'through the request environment, executable broken then repaired, missing cwd, unsupported / '
                 'nonexistent executable) sent through the real client and as a hand-built frame FIRST, then ordinary '
                 'requests for the same compiler (3 concurrent real clients + a hand-built frame); control orders and '
                 'random step sequences'),
        Leg('kill', gen_kill, monitor=monitor_kill, impl_env=env, shards=8,
            stats=lambda c, o: ['phase=' + c[0].decode()],
            rule='server SIGKILLed in {compiler detection (before the first response), preprocessor, compiler} x '
                 'ignore-switch, and an undisturbed control; then a compile with no server running'),
    ]
