"""C10 — outputs restored from the cache replace existing files atomically.

Two legs on the real `CacheRead::extract_objects` (harness/src/bin/c10.rs), then trace acceptance:

  strace  the real extraction runs in a child process under `strace -f`; the harness turns the system calls into
          FsModel events.  The model (Run/C10.v, leg `strace`) predicts from the case the canonical event sequence
          (temp files numbered in creation order, chunk sizes dropped), the result, the final state of every output
          and the number of leftovers; the lines must be equal.  The monitor evaluates the property on the observed
          calls: every output path changes only by `rename` from a temp file created in the same directory, nothing
          is opened for writing / written / truncated / unlinked at an output path, afterwards every output holds the
          complete old or the complete new bytes and no temp file remains.
  live    large outputs; polling readers and holders of descriptors opened before the request watch the real
          extraction; a torn read is a violation (one-sided: silence proves nothing, the strace leg is the tie).
          The model side executes the extracted scheduler on a PRNG schedule of the same observers.
  accept  (two-stage, in `extra`) the RAW observed calls of every strace case (real temp names, real chunk sizes, real
          modes) are fed to the extracted model, which reads the object descriptions back from them and checks that
          `trace (prog objs)` IS the observed sequence, that the model's final state is the observed one, and the
          monitors.
"""
import os

from .. import pipeline, sx
from ..pipeline import Leg

ID = 'C10'
HARNESS_BIN = 'c10'
RUN_MODULE = 'Run.C10'
THEOREMS = ['C10_reader_sees_whole', 'C10_open_fd_keeps_old', 'C10_inode_content_never_changes',
            'C10_no_partial_on_failure', 'C10_crash_anywhere_finals_whole', 'C10_success_installs_new',
            'C10_hit_installs_stored_bytes', 'C10_existing_output_never_absent',
            'C10_outputs_change_only_by_rename', 'C10_special_output_never_replaced', 'C10_mode_window']
ASSUMPTIONS = [
    'kernel (Model/FsModel.v): rename(2) is one atomic directory switch that leaves the replaced inode untouched; an open '
    'descriptor pins its inode; open(O_CREAT|O_EXCL) never reuses an existing name; write(2) through a descriptor changes '
    'only that inode.  These are the POSIX guarantees the code relies on; they are assumed, the strace leg only validates '
    'that the real code uses exactly these calls',
    'an output that is a device node (-o /dev/null) is modelled as a sink: the code writes into it, nothing is there to be '
    'read or lost; the legs use a private mknod copy of the null device (the harness runs as root), never /dev/null itself',
    'no output file is itself named like a temp file (name starting with ".tmp", tempfile\'s prefix): hypothesis outputs_okb',
    'nobody but the one extraction writes into the output directories during the request (observers only open and read); '
    'two concurrent extractions onto the same path are outside the statement',
    'an observer\'s read is modelled as a snapshot of the whole inode; C10_inode_content_never_changes shows that all '
    'snapshots of one inode are equal, so a read in several chunks returns the same bytes',
    '"crash" means the process (or the whole server) stopping at any point; power loss is not modelled (the code does not '
    'fsync the temp file before the rename)',
    'after a DecompressionFailure the request is treated as a miss and the COMPILER rewrites the outputs (not atomically): '
    'that is the compiler\'s behaviour, outside extract_objects and outside this property',
]
TRUSTED = [
    'strace 6.1 (ptrace) and the log parser in harness/src/bin/c10.rs (fd -> path tracking across rename, the two marker '
    'opens delimiting the extraction)',
    'zip local-header walk in the harness used to damage one member of a real entry',
]

SIZES = [0, 1, 100, 5000, 8192, 8193, 70000, 300000]
MODES = [0o644, 0o755, 0o600, 0o444]
NAMES = [b'a.o', b'a.d', b'a.dwo', b'b.rlib', b'b.rmeta', b'c.gcno']
FAULTS = [b'missing', b'corrupt_head', b'corrupt_mid', b'corrupt_tail']

_OBS = []          # (case, observation) of the strace leg, for the acceptance stage


def gen_outs(rng, big=False):
    n = rng.weighted([(1, 3), (2, 4), (3, 3), (4, 2)])
    names = rng.shuffle(NAMES)[:n]
    outs = []
    for i in range(n):
        d = rng.choice([b'd0', b'd0', b'd1'])
        if big:
            size = rng.range(2, 8) * 1024 * 1024 + rng.below(5000) if i == 0 or rng.chance(1, 2) else rng.choice(SIZES)
        else:
            size = rng.choice(SIZES)
        if rng.chance(1, 4):
            old = []
        elif big:
            old = [rng.range(1, 6) * 1024 * 1024 + rng.below(999), rng.choice(MODES)]
        else:
            # a zero-length previous file only under a non-empty new one (the two must be distinguishable)
            old = [rng.choice(SIZES if size > 0 else SIZES[1:]), rng.choice(MODES)]
        if old:
            # unusual previous files an implementation might special-case: a second hard link (cargo / ccache-style
            # linked artefacts), a symbolic link to a file elsewhere, a private (0700) directory; read-only (0444)
            # previous files come from MODES, smaller / larger / empty ones from SIZES
            shape = rng.weighted([(b'plain', 11), (b'hardlink', 5), (b'symlink', 3), (b'dir700', 2)])
            if shape != b'plain':
                old = old + [shape]
        if rng.chance(1, 10):
            # the output path is a device node (`-o /dev/null`; here a private mknod copy of the null device):
            # the member is written INTO it, the node is never replaced
            old = b'special'
        out = [d, names[i], size, rng.choice(MODES), 1 if rng.chance(1, 5) else 0, old, b'none']
        if rng.chance(1, 5):
            # contents that compress by far more than 1000:1 (zero / 0xff filled tables, sparse placeholder files):
            # what is renamed into place must still be the COMPLETE member
            out.append(rng.choice([b'zeros', b'ff']))
            if not big and size < 70000:
                out[2] = rng.choice([70000, 300000])       # (the acceptor replays every byte count: keep the lists short)
        outs.append(out)
    kind = rng.weighted([('none', 8), ('corrupt', 9), ('no_dir', 1), ('old_dir', 1)])
    if kind == 'corrupt':
        pos = rng.weighted([(1, 4), (n - 1, 4), (rng.below(n), 2)])
        pos = min(pos, n - 1)
        outs[pos][6] = rng.choice(FAULTS)
        if rng.chance(1, 2):
            outs[pos][4] = 1
        if rng.chance(1, 6):
            q = rng.below(n)
            outs[q][6] = rng.choice(FAULTS)
    elif kind == 'no_dir' and not big:
        pos = rng.below(n)
        outs[pos][0] = b'nodir%d' % pos
        outs[pos][5] = []
        outs[pos][6] = b'no_dir'
    elif kind == 'old_dir' and not big:
        pos = rng.below(n)
        outs[pos][5] = b'dir'
    return outs


def gen_strace(rng, tier):
    n = 1500 if tier == 'thorough' else 150
    return [[rng.below(1 << 30), gen_outs(rng)] for _ in range(n)]


def gen_live(rng, tier):
    n = 320 if tier == 'thorough' else 40
    cases = []
    for _ in range(n):
        outs = gen_outs(rng, big=True)
        rds = []
        for _ in range(rng.range(2, 5)):
            rds.append([rng.choice([b'poll', b'poll', b'hold']), rng.below(len(outs)), rng.range(1, 4)])
        nthreads = 1 + len(rds)
        sched = [rng.below(nthreads + 1) for _ in range(rng.range(0, 70))]
        cases.append([rng.below(1 << 30), outs, rds, sched, rng.range(1, 5)])
    return cases


def _bad_out(out):
    return (not isinstance(out, list)) or not out or out[0] in (b'harness_error', b'panic', b'unparsable', b'harness_parse_error') \
        or (isinstance(out[0], bytes) and out[0].startswith(b'(harness_died'))


def check_finals(outs, result, fin, left, alias=None):
    """The property's statement about the state a request leaves behind."""
    vs = []
    if alias is not None:
        if not isinstance(alias, list) or len(alias) != 2:
            vs.append('malformed alias observation')
        else:
            if alias[0]:
                vs.append('%d other name(s) of a previous output (second hard link / symlink target) no longer hold its complete '
                          'previous contents: the previous inode was written' % alias[0])
            if alias[1]:
                vs.append('%d output(s) were rewritten IN PLACE (the new contents sit in the inode the path named before, so every '
                          'holder of the previous file saw it change) instead of being replaced by rename' % alias[1])
    if not isinstance(fin, list) or len(fin) != len(outs):
        return ['malformed final state']
    for o, f in zip(outs, fin):
        p, cls, mode = f
        had_old = o[5] != []
        if o[5] == b'special':
            if cls != b'special':
                vs.append('output %s was a device node and has been replaced or removed (%s)' % (p.decode(), cls.decode()))
            continue
        if cls == b'other':
            vs.append('output %s holds neither the complete previous nor the complete new contents' % p.decode())
        elif cls == b'absent' and had_old:
            vs.append('output %s existed before the request and is gone' % p.decode())
        elif cls == b'old' and not had_old:
            vs.append('output %s: inconsistent observation' % p.decode())
        if result == b'ok' and o[6] == b'none' and cls != b'new':
            vs.append('request answered from the cache but output %s was not restored (%s)' % (p.decode(), cls.decode()))
    if left != 0:
        vs.append('%d temp file(s) left behind in the output directories' % left)
    return vs


def monitor_strace(case, out):
    if not (_bad_out(out) or len(out) < 6):
        _OBS.append((case, out))
    return monitor_calls(case, out)


def monitor_request(case, out):
    """Whole request through get_cached_or_compile: the same predicate on the calls of the sccache process and on the
    state the request leaves behind (the compiler of these cases fails, so nothing but the cache touches the outputs)."""
    vs = monitor_calls(case, out, hit=b'hit')
    return vs


def monitor_calls(case, out, hit=b'ok'):
    if _bad_out(out) or len(out) < 6:
        return ['no observation: %r' % (out,)]
    outs = case[1]
    result, canon, fin, left, alias, raw = out[:6]
    if hit != b'ok' and result == hit:
        result = b'ok'
    vs = []
    paths = set(o[0] + b'/' + o[1] for o in outs)
    special = set(o[0] + b'/' + o[1] for o in outs if o[5] == b'special')
    live = {}
    for e in canon:
        h = e[0]
        if h == b'create_tmp':
            live[e[1]] = e[2]
        elif h == b'rename':
            # harness emits this form only for: source = a live temp file, target = an output, same directory
            if e[1] not in live or e[2] not in paths or live[e[1]] != e[2].rsplit(b'/', 1)[0]:
                vs.append('rename onto %s not from a temp file in the same directory' % e[2].decode())
            if e[2] in special:
                vs.append('a file was renamed over the device node %s' % e[2].decode())
            live.pop(e[1], None)
        elif h == b'unlink_tmp':
            live.pop(e[1], None)
        elif h == b'open_special':
            # opening the output for writing is the allowed event for a device node, and for nothing else
            if e[1] not in special:
                vs.append('output path %s opened for writing' % e[1].decode())
        elif h == b'chmod':
            if e[1] not in paths:
                vs.append('chmod of a path that is not an output: %r' % (e,))
        else:
            vs.append('output path touched other than by rename from a temp file: %s' % sx.dumps(e))
    vs += check_finals(outs, result, fin, left, alias)
    return vs


def monitor_live(case, out):
    if _bad_out(out) or len(out) < 6:
        return ['no observation: %r' % (out,)]
    result, torn, hbad, fin, left, alias = out[:6]
    vs = []
    detail = out[6][4].decode('utf-8', 'replace') if len(out) > 6 and len(out[6]) > 4 else ''
    if torn:
        vs.append('%d read(s) of an output path during the request returned neither the complete old nor the complete new contents (%s)' % (torn, detail))
    if hbad:
        vs.append('%d read(s) through a descriptor opened before the request did not return the complete old contents (%s)' % (hbad, detail))
    vs += check_finals(case[1], result, fin, left, alias)
    return vs


def compare_alternatives(k):
    """the model lists the admissible observations (one per order in which the outputs may be restored)"""
    def cmp(m, i):
        try:
            io = sx.loads(i)
            alts = sx.loads(m)
            return isinstance(io, list) and len(io) > k and isinstance(alts, list) and io[:k] in alts
        except Exception:
            return False
    return cmp


def gen_request(rng, tier):
    n = 400 if tier == 'thorough' else 40
    cases = []
    for _ in range(n):
        def one(name, optional):
            size = rng.choice(SIZES + [1048576])
            old = [] if rng.chance(1, 5) else [rng.choice(SIZES if size > 0 else SIZES[1:]), rng.choice(MODES)]
            o = [b'w', name, size, rng.choice(MODES), optional, old, b'none']
            if rng.chance(1, 4):
                o.append(rng.choice([b'zeros', b'ff']))
                if o[2] < 70000:
                    o[2] = rng.choice([70000, 300000, 1048576])
            return o
        outs = [one(b'foo.o', 0)]
        if rng.chance(3, 4):
            outs.append(one(b'foo.dwo', 1))
        if rng.chance(1, 3):
            outs[0][6] = rng.choice(FAULTS[1:])
        if len(outs) == 2 and rng.chance(1, 2):
            outs[1][6] = rng.choice(FAULTS)
        cases.append([rng.below(1 << 30), outs])
    return cases


def shrink_request(case):
    outs = case[1]
    if len(outs) == 2:
        yield [case[0], outs[:1]]
    for i, o in enumerate(outs):
        if o[6] != b'none' and not (i == 0 and o[6] == b'missing'):
            yield [case[0], outs[:i] + [o[:6] + [b'none'] + o[7:]] + outs[i + 1:]]
        if o[5] != []:
            yield [case[0], outs[:i] + [o[:5] + [[]] + o[6:]] + outs[i + 1:]]
        if len(o) > 7:
            yield [case[0], outs[:i] + [o[:7]] + outs[i + 1:]]
        if o[2] > 100:
            yield [case[0], outs[:i] + [o[:2] + [100] + o[3:]] + outs[i + 1:]]


def compare_drop(k):
    def cmp(m, i):
        try:
            io = sx.loads(i)
            return sx.dumps(io[:k]) == m.strip() if isinstance(io, list) and len(io) > k else m.strip() == i.strip()
        except Exception:
            return False
    return cmp


def nontrivial(case, out):
    # an existing file was replaced or a member failed
    return any(o[5] != [] or o[6] != b'none' for o in case[1])


def stats_strace(case, out):
    ks = ['outputs=%d' % len(case[1])]
    for o in case[1]:
        ks.append('fault=' + o[6].decode())
        if len(o) > 7:
            ks.append('content=' + o[7].decode())
        ks.append('old=' + ('none' if o[5] == [] else 'dir' if o[5] == b'dir' else 'special' if o[5] == b'special' else 'file'))
        if isinstance(o[5], list) and len(o[5]) == 3:
            ks.append('old_shape=' + o[5][2].decode())
        if isinstance(o[5], list) and len(o[5]) >= 2:
            ks.append('old_size_vs_new=' + ('empty' if o[5][0] == 0 else 'smaller' if o[5][0] < o[2] else 'larger' if o[5][0] > o[2] else 'equal'))
            if o[5][1] == 0o444:
                ks.append('old_read_only')
        ks.append('size<=%d' % next((s for s in SIZES if o[2] <= s), 1 << 24))
        if o[4]:
            ks.append('optional')
    if not _bad_out(out) and len(out) >= 6:
        ks.append('result=' + out[0].decode())
        prev = None
        for e in out[1]:
            if e[0] == b'chmod' and prev is not None and prev[0] == b'rename' and prev[2] == e[1]:
                ks.append('mode_window_observed(rename then chmod)')
            prev = e
        for f in out[2]:
            ks.append('final=' + f[1].decode())
        ks.append('writes<=%d' % min(64, 1 << max(0, len([e for e in out[5] if e[0] == b'write'])).bit_length()))
    return ks


def stats_live(case, out):
    ks = ['outputs=%d' % len(case[1]), 'observers=%d' % len(case[2])]
    for o in case[1]:
        if isinstance(o[5], list) and len(o[5]) == 3:
            ks.append('old_shape=' + o[5][2].decode())
    if not _bad_out(out) and len(out) >= 7:
        ks.append('result=' + out[0].decode())
        reads, so, sn, hreads = out[6][:4]
        if so and sn:
            ks.append('pollers_saw_both_old_and_new')
        if hreads:
            ks.append('holder_reads>0')
        ks.append('poll_reads>=%d' % (1000 if reads >= 1000 else 100 if reads >= 100 else 0))
    return ks


def drop_out(case, i):
    outs = case[1]
    new = [case[0], outs[:i] + outs[i + 1:]]
    if len(case) > 2:
        rds = [[r[0], r[1] - (1 if r[1] > i else 0), r[2]] for r in case[2] if r[1] != i]
        new += [rds, case[3], case[4]]
    return new


def shrink(case):
    outs = case[1]
    rest = case[2:]
    if len(outs) > 1:
        for i in range(len(outs)):
            yield drop_out(case, i)
    for i, o in enumerate(outs):
        if o[6] != b'none':
            yield [case[0], outs[:i] + [o[:6] + [b'none'] + o[7:]] + outs[i + 1:]] + rest
        if isinstance(o[5], list) and len(o[5]) == 3:
            yield [case[0], outs[:i] + [o[:5] + [o[5][:2]] + o[6:]] + outs[i + 1:]] + rest
        if o[5] != [] and o[5] != b'dir':
            yield [case[0], outs[:i] + [o[:5] + [[]] + o[6:]] + outs[i + 1:]] + rest
        if o[5] == b'special':
            yield [case[0], outs[:i] + [o[:5] + [[100, 0o644]] + o[6:]] + outs[i + 1:]] + rest
        if o[2] > 100:
            yield [case[0], outs[:i] + [o[:2] + [100] + o[3:]] + outs[i + 1:]] + rest
        if o[4]:
            yield [case[0], outs[:i] + [o[:4] + [0] + o[5:]] + outs[i + 1:]] + rest
    if rest and rest[1]:
        yield [case[0], outs, rest[0], [], rest[2]]


def neighbours(case):
    outs = case[1]
    rest = case[2:]
    for i, o in enumerate(outs):
        for f in FAULTS + [b'none']:
            for opt in (0, 1):
                for old in ([], [777, 0o644], [777, 0o644, b'hardlink'], [777, 0o444, b'symlink'], b'special'):
                    yield [case[0], outs[:i] + [o[:4] + [opt, old, f] + o[7:]] + outs[i + 1:]] + rest


_STRACE = {}


def strace_ok():
    """ptrace must be permitted for the trace-acceptance leg; if it is not, only the live observers run (and we say so)."""
    if 'ok' not in _STRACE:
        import subprocess
        try:
            p = subprocess.run(['strace', '-f', '-qq', '-e', 'trace=openat', '-o', '/dev/null', '/bin/true'],
                               stdout=subprocess.DEVNULL, stderr=subprocess.DEVNULL, timeout=30)
            _STRACE['ok'] = p.returncode == 0
        except Exception:
            _STRACE['ok'] = False
    return _STRACE['ok']


def prebuild(rep):
    if strace_ok():
        rep.notes.append('strace can attach in this sandbox: the trace-acceptance leg runs')
    else:
        rep.notes.append('strace cannot attach (ptrace denied): the strace and accept legs are SKIPPED, only the live observers '
                         '(polling readers + descriptor holders) run; their verdict is one-sided')
        rep.oblige('strace-available', False, 'ptrace not permitted: the tie between the model and the real system calls was not checked')


def legs(tier):
    ls = _legs(tier)
    return ls if strace_ok() else [l for l in ls if l.name not in ('strace', 'request')]


def _legs(tier):
    return [
        Leg('strace', gen_strace, monitor=monitor_strace, nontrivial=nontrivial, shrink=shrink, neighbours=neighbours,
            stats=stats_strace, compare=compare_drop(5),
            rule='PRNG cases of 1-4 outputs in 1-2 directories, sizes 0..300000 around the 8 KiB copy buffer, 4 modes, '
                 'optional members (absent: skipped; stored but unreadable: the extraction fails), old file present/absent/a directory/with a second hard link/a symlink to a file elsewhere/in a 0700 directory/read-only/empty/smaller/larger/a device node (written into, never replaced), missing output directory, one (sometimes two) '
                 'damaged members (missing / first, middle, last byte of the stored zstd stream flipped) at the 2nd, last '
                 'or a random position; non-trivial = an existing file is replaced or a member fails; distinct by case text'),
        Leg('request', gen_request, monitor=monitor_request, nontrivial=nontrivial, shrink=shrink_request,
            stats=stats_strace, compare=compare_alternatives(5),
            rule='whole requests through the real get_cached_or_compile (gcc front end, a shell-script compiler, a real '
                 'DiskCache): a miss stores the entry, then the request that should be a hit runs under strace over existing '
                 'foo.o / optional foo.dwo, with the stored entry intact or damaged (obj or dwo member; dwo absent) and a '
                 'compiler that fails if asked again; sizes 0..1 MiB incl. zero/0xff-filled contents; the model gives the '
                 'observation for either restore order (HashMap iteration in the real code)'),
        Leg('live', gen_live, monitor=monitor_live, nontrivial=nontrivial, shrink=shrink,
            stats=stats_live, compare=compare_drop(6), shards=8,
            rule='PRNG cases with outputs of 2-8 MiB over old files of 1-6 MiB (a third of them hard-linked or symlinked), 2-5 observers (polling readers, holders of '
                 'a descriptor opened before), damaged last/2nd member in half of them; model side: the extracted scheduler '
                 'on a PRNG schedule of up to 70 steps with 1-5 chunks per member'),
    ]


def extra(rep, known):
    """Trace acceptance: the raw observed system calls of every strace case, replayed through the extracted model."""
    obs = list(_OBS)
    del _OBS[:]
    if not obs:
        return
    seen = set()
    lines = []
    cases = []
    for case, out in obs:
        key = sx.dumps(case)
        if key in seen:
            continue
        seen.add(key)
        cases.append(case)
        lines.append(sx.dumps([case[0], case[1], out[:4] + [out[5]]]))
    res = pipeline.run_sharded([os.path.join(pipeline.BUILD, 'modelrun-' + ID), 'accept'], lines)
    names = ['observed calls are a trace of the model', 'no call outside the model\'s alphabet', 'bytes written to each '
             'renamed temp file = size of the member', 'result agrees', 'final state agrees', 'every output whole',
             'no temp file left']
    bad = 0
    for case, line in zip(cases, res):
        rep.evaluations += 1
        v = pipeline.parse_out(line)
        ok = isinstance(v, list) and len(v) == 8 and v[0] == b'accept' and all(x == 1 for x in v[1:])
        if ok:
            rep.traces += 1
            continue
        bad += 1
        failed = [n for n, x in zip(names, v[1:])] if not (isinstance(v, list) and len(v) == 8) else \
            [n for n, x in zip(names, v[1:]) if x != 1]
        prop = isinstance(v, list) and len(v) == 8 and (v[2] != 1 or v[6] != 1 or v[7] != 1)
        if bad <= 3:
            rep.violation('property' if prop else 'correspondence', 'strace', case,
                          'trace acceptance: the model rejects the observed system calls: ' + '; '.join(failed))
    rep.legs['accept'] = dict(cases=len(cases), rejected=bad)
    rep.rule.append('accept: every distinct strace observation of this run (raw calls: real temp names, chunk sizes, modes)')
    rep.oblige('trace-acceptance:strace', bad == 0, '%d of %d observed traces accepted by the extracted model' % (len(cases) - bad, len(cases)))
