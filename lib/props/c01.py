"""C01 — wrapped C/C++ compiles are observably identical to direct compiles (PARTIAL: the compilers are not modelled).

Ties: T   translator/c01_argtables.py regenerates Gen/C01ArgTables.v (both ARGS tables, the ArgData -> list maps of
          gcc::parse_arguments, the language tables, and the structure of c.rs generate_hash_key: what goes into the
          argument vectors of the two keys, the environment they receive, the order "reference time before the
          preprocessor run"); side conditions proved by vm_compute in Proofs/ArgTables.v
      D   legs `parse` and `search`: Model/Args.v (extracted) vs the real ArgsIter / parse_arguments /
          generate_compile_commands / preprocess_cmd on generated argument vectors
      e2e `extra`: the real sccache binary vs the real gcc 12 / clang 14 on generated translation units and histories
Monitors evaluate the property's predicates on the REAL observations: the tokenizer loses no word, every parsed
argument is on the re-synthesised command line (or accounted for by a dedicated field), the re-synthesised command
parses to the same request.
"""
import json
import subprocess
import time
import os
import sys

from .. import pipeline
from .. import sx
from ..pipeline import Leg

sys.path.insert(0, os.path.join(pipeline.VERIF, 'translator'))
import c01_argtables  # noqa: E402

ID = 'C01'
HARNESS_BIN = 'c01'
RUN_MODULE = 'Run.C01'
REPO_BINS = ['sccache']
THEOREMS = ['C01_table_wf', 'C01_no_argument_lost', 'C01_command_complete', 'C01_parse_total', 'C01_every_argument_placed', 'C01_listed_words_multiset',
            'C01_dep_targets_kept', 'C01_every_result_affecting_arg_is_hashed', 'C01_class_side_conditions',
            'C01_hash_key_side_conditions', 'C01_hashed_args_reach_hash_key', 'C01_preprocessed_suffixes_passthrough', 'C01_commands_run_in_client_env',
            'C01_dep_target_without_md_dropped', 'C01_x_rs_dropped', 'C01_resynthesis_fixpoint_refuted',
            'C01_resynthesis_fixpoint_partial', 'C01_hit_replays_stored', 'C01_hit_returns_stored_entry', 'C01_failure_verbatim_never_stored',
            'C01_noncacheable_passthrough']
ASSUMPTIONS = [
    'PARTIAL: gcc and clang are not modelled.  The theorems are about sccache\'s own classification (no argument lost, '
    'everything not explicitly exempt is hashed, table search well-formed); that the classification is right about the '
    'compilers and the end-to-end transparency are sampled by the e2e leg against the real gcc 12 / clang 14',
    'option spellings and @-file contents are ASCII (to_string_lossy / read_to_string are the identity on them; an @-file '
    'that is not valid UTF-8 is not expanded by the real code); VALUES may hold arbitrary bytes: after the fix they are '
    'carried verbatim, which the differential leg exercises with 0xe9 / 0xff 0xfe / UTF-8 values',
    'reviewed lists in Proofs/ArgTables.v: PreprocOnly, DependencyOnly, and the two S19 rows PreprocDebatable '
    '(-verify, -no-opaque-pointers: act on the compile proper but are classified preprocessor-only; not reproducible '
    'as a wrong result with clang 14)',
    'extra hashed files (-fsanitize-blacklist=, -fplugin=, -fprofile-use=, -Xclang -load, SCCACHE_EXTRAFILES): sccache is REQUIRED '
    'to re-read them on every request; a stat-keyed shortcut (size + mtime) is exactly what the same-size-edit quantifier forbids '
    '(e2e rewrites such a file normally, with the same size and a new mtime, and with the same size and the SAME mtime)',
    'the dist (remote) form of generate_compile_commands and the msvc/nvcc/diab/tasking front ends are not modelled',
]
TRUSTED = [
    'translator/c01_argtables.py transcribes the two counted_array! ARGS tables, the ArgData enum, the argument -> list '
    'matches of gcc::parse_arguments, the -x / extension / language_to_*_arg tables (every row is also exercised by the '
    'differential legs; unknown syntax raises)',
    'hook gcc::verif_preprocess_args (records the argument vector of the private preprocess_cmd with a MockCommand)',
    'translator: c.rs generate_hash_key is transcribed structurally (statement shapes of the two argument vectors, the '
    'environment handed to the key functions, both CACHED_ENV_VARS lists, the position of start_of_compilation); any other '
    'statement shape raises',
    'e2e/c01_e2e.py: drives the real sccache binary and the real gcc 12 / clang 14 (snapshot / restore of the tree, '
    'byte-for-byte comparison, /proc scan for servers); Model/ReqSM.v + Proofs/ReqSM.v (C09/C14) for the request-level theorems',
]

GEN_DIR = os.path.join(pipeline.COQ, 'theories', 'Gen')
ARGTYPES = os.path.join(pipeline.COQ, 'theories', 'Model', 'ArgTypes.v')
SPEC = None

CTORS = ['TooHardFlag', 'TooHard', 'DiagnosticsColor', 'DiagnosticsColorFlag', 'NoDiagnosticsColorFlag',
         'PassThroughFlag', 'PassThrough', 'PassThroughPath', 'PreprocessorArgumentFlag', 'PreprocessorArgument',
         'PreprocessorArgumentPath', 'UnhashedFlag', 'Unhashed', 'DoCompilation', 'Output', 'NeedDepTarget',
         'DepTarget', 'DepArgumentPath', 'Language', 'SplitDwarf', 'ProfileGenerate', 'ClangProfileUse',
         'TestCoverage', 'Coverage', 'ExtraHashFile', 'XClang', 'Arch', 'PedanticFlag', 'Standard',
         'SerializeDiagnostics']
CI = {n: i for i, n in enumerate(CTORS)}


def load_spec():
    global SPEC
    if SPEC is None:
        SPEC = c01_argtables.read_all(pipeline.REPO, strict=False)
    return SPEC


def translate(rep):
    global SPEC
    SPEC = c01_argtables.main(pipeline.REPO, GEN_DIR, ARGTYPES)      # raises on unknown syntax
    rep.oblige('translate', True, 'Gen/C01ArgTables.v from %s: %d gcc + %d clang table rows, %d ArgData constructors'
               % (pipeline.REPO, len(SPEC['gcc']), len(SPEC['clang']), len(SPEC['variants'])))


# ------------------------------------------------------------------ generators

VALUES = [b'foo', b'bar.h', b'inc', b'pdir', b'gnu99', b'c++17', b'c', b'c++', b'objective-c++-header', b'none',
          b'x86_64', b'arm64', b'@rsp1', b'-weird', b'', b'a=b', b'always', b'never', b'auto', b'FOO=1',
          b'-MD,-MF,x.d', b'cu', b'cuda', b'rs', b'hip', b'c-header', b'c++-header', b'objective-c', b'objective-c++',
          b'out.o', b'd/out.o', b'x.dia', b'dep.d', b'tgt', b'/nonexistent/p', b'libcc1plugin', b'gnu++2a', b'@x',
          b'-', b'--', b'plug.so', b'foo.c', b'inc\xe9', b'\xff\xfe', b'caf\xc3\xa9']
UNKNOWN = [b'-O2', b'-Wall', b'-fPIC', b'-g', b'-S', b'-v', b'--verbose', b'-Wl,x', b'-march=native', b'-W', b'-Wp',
           b'-Wpe', b'-Wpedanti', b'-Wpedantic2', b'-fplugin=x.so', b'-include-pch', b'-g3', b'-pthread', b'-m64',
           b'-std', b'-stdlib', b'-fdiagnostics-color', b'-fno-diagnostics-colo', b'-MDX', b'-M2', b'-ffoo', b'-C',
           b'-i', b'-is', b'-D', b'-I', b'-o', b'-x', b'-u', b'-z', b'-B', b'-F', b'-U', b'-arc', b'-archx',
           b'--param=x', b'--sysroot=/x', b'-fprofile-use', b'-fprofile-use=pdir', b'-fprofile-use=foo',
           b'-fprofile-instr-use', b'-fprofile-instr-use=', b'@', b'-@', b'--coverag', b'--coverage2', b'/winsysroot',
           b'/winsysrootx', b'-plugin-arg', b'-plugin-arg-x', b'-plugin-argx', b'-Xclan', b'-remap2', b'-pedantic-error']
INPUTS = [b'foo.c', b'bar.cpp', b'd/x.cc', b'a.b.c', b'noext', b'.hidden', b'x.h', b'y.hpp', b'z.m', b'w.mm', b'q.cu',
          b'p.rs', b'foo.c/', b'..', b'.', b'/', b'dir/..', b'x.C', b'f.S', b'a.c/.', b'./b.c', b'e.', b'.c', b'k.hip',
          b'l.ptx', b'm.cubin', b'n.cxx', b'o.c++', b'r.tcc', b's.M', b'dir.d/t', b'u.c//', b'',
          b'pp.i', b'pp.ii', b'pp.mi', b'pp.mii', b'a.s', b'a.S', b'd/x.i']
WS = [b' ', b'\n', b'\t', b'  ', b'\r\n', b'\x0b', b'\x0c']


def entry_forms(rng, row):
    kind, s, vtype, disp, delim, ctor = row
    s = s.encode()
    if kind == 'flag':
        return [s]
    v = rng.choice(VALUES)
    if rng.chance(1, 6):
        v = rng.choice(INPUTS)
    d = bytes([delim]) if delim is not None else b''
    form = rng.weighted([('sep', 4), ('cat', 4), ('delim', 3), ('wrongdelim', 1), ('bare', 1), ('bared', 1)])
    if form == 'sep':
        return [s, v]
    if form == 'cat':
        return [s + v]
    if form == 'delim':
        return [s + (d or b'=') + v]
    if form == 'wrongdelim':
        return [s + rng.choice([b':', b'-', b',', b'=', b'a', b'~', b'\x01']) + v]
    if form == 'bare':
        return [s]
    return [s + (d or b'=')]


def gen_atom(rng, spec, kind, depth=0):
    rows = spec['gcc'] + (spec['clang'] if (kind == b'clang' or rng.chance(1, 5)) else [])
    what = rng.weighted([('entry', 10), ('unknown', 4), ('input', 2), ('xclang', 2 if kind == b'clang' else 1),
                         ('rsp', 1), ('dd', 1), ('mutant', 2)])
    if what == 'entry':
        return entry_forms(rng, rng.choice(rows))
    if what == 'unknown':
        return [rng.choice(UNKNOWN)]
    if what == 'input':
        return [rng.choice(INPUTS)]
    if what == 'xclang':
        inner = entry_forms(rng, rng.choice(spec['gcc'] + spec['clang'])) if rng.chance(4, 5) else [rng.choice(UNKNOWN + INPUTS + [b'@rsp2'])]
        out = []
        for w in inner:
            out += [b'-Xclang', w]
        if rng.chance(1, 10):
            out = out[:-1]
        return out
    if what == 'rsp':
        return [b'@' + rng.choice([b'rsp1', b'rsp2', b'rsp3', b'missing', b'pdir', b''])]
    if what == 'dd':
        return [b'--']
    # mutant: a table spelling with one edit
    s = rng.choice(rows)[1].encode()
    m = rng.below(4)
    if m == 0 and len(s) > 1:
        return [s[:-1]]
    if m == 1:
        return [s + rng.choice([b'x', b'=', b',', b'-', b'0', b'=x', b',x', b'-x', b'\x7f'])]
    if m == 2:
        return [s.swapcase()]
    i = rng.below(len(s))
    return [s[:i] + bytes([(s[i] + 1) % 128 or 1]) + s[i + 1:]]


SAFE_CLASSES = ('PassThrough', 'PassThroughFlag', 'PassThroughPath', 'PreprocessorArgument', 'PreprocessorArgumentFlag',
                'PreprocessorArgumentPath', 'NeedDepTarget', 'DepTarget', 'DepArgumentPath', 'SplitDwarf',
                'ProfileGenerate', 'TestCoverage', 'Coverage', 'Arch', 'PedanticFlag', 'Standard', 'DiagnosticsColor',
                'DiagnosticsColorFlag', 'NoDiagnosticsColorFlag', 'ExtraHashFile', 'ClangProfileUse',
                'SerializeDiagnostics', 'Output', 'Language')


def gen_safe_atom(rng, spec, kind):
    """an argument that keeps the request cacheable (so that most cases reach ROk)"""
    rows = [r for r in spec['gcc'] + (spec['clang'] if kind == b'clang' else []) if r[5] in SAFE_CLASSES]
    if rng.chance(1, 4):
        return [rng.choice([b'-O2', b'-Wall', b'-fPIC', b'-g', b'-march=native', b'-ffoo', b'-W', b'-DX', b'-Iinc'])]
    row = rng.choice(rows)
    kind_, s, vtype, disp, delim, ctor = row
    s = s.encode()
    if kind_ == 'flag':
        return [s]
    pool = {'Language': [b'c', b'c++', b'c-header', b'objective-c', b'cu', b'cuda', b'hip', b'rs', b'objective-c++-header'],
            'Standard': [b'gnu99', b'c++17', b'c11', b'gnu++2a'],
            'Arch': [b'x86_64', b'arm64', b'x86_64'],
            'DiagnosticsColor': [b'always', b'never', b'auto', b''],
            'Output': [b'out.o', b'd/out.o', b'o', b'out.x.y', b'sub/', b'..', b'']}.get(ctor, [b'foo', b'bar.h', b'inc', b'pdir', b'FOO=1', b'tgt', b'', b'a b'])
    v = rng.choice(pool)
    d = bytes([delim]) if delim is not None else b''
    if disp == 'Separated':
        return [s, v]
    if disp == 'Concatenated':
        return [s + d + v]
    return [s, v] if rng.chance(1, 2) else [s + d + v]


def gen_files(rng, spec, kind):
    files = []
    for i, name in enumerate([b'rsp1', b'rsp2', b'rsp3']):
        if rng.chance(1, 4):
            continue
        toks = []
        for _ in range(rng.below(4)):
            toks += gen_safe_atom(rng, spec, kind) if rng.chance(2, 3) else gen_atom(rng, spec, kind)
        toks = [t for t in toks if t and not any(c in t for c in b' \t\n\r\x0b\x0c')]
        toks = [t for t in toks if all(c < 128 for c in t)]    # @-file contents stay ASCII (model domain: read_to_string)
        if i < 2 and rng.chance(1, 4):
            toks.insert(rng.below(len(toks) + 1), b'@' + [b'rsp2', b'rsp3'][i])   # only forward references: no cycles
        if rng.chance(1, 10):
            toks.append(rng.choice([b'"q"', b"'q'"]))
        if rng.chance(1, 12):
            toks.append(rng.choice([b'-DX=a\\b', b'-Iinc\\', b'\\']))      # backslash: an escape character for gcc / clang
        content = b''
        for t in toks:
            content += rng.choice(WS) + t
        if rng.chance(1, 2):
            content += rng.choice(WS)
        files.append([name, content])
    return files


def gen_parse(rng, n):
    spec = load_spec()
    out = []
    for _ in range(n):
        kind = rng.choice([b'gcc', b'clang'])
        files = gen_files(rng, spec, kind)
        dirs = [b'pdir', b'inc', b'd', b'sub']
        style = rng.weighted([('compile', 7), ('random', 2), ('tiny', 1)])
        words = []
        if style == 'compile':
            parts = [[b'-c'], [rng.choice(INPUTS[:12] if rng.chance(4, 5) else INPUTS)]]
            if rng.chance(1, 2):
                o = rng.choice([b'out.o', b'd/out.o', b'x', b'sub/o.obj'])
                parts.append([b'-o', o] if rng.chance(2, 3) else [b'-o' + o])
            for _ in range(rng.below(7)):
                parts.append(gen_safe_atom(rng, spec, kind) if rng.chance(4, 5) else gen_atom(rng, spec, kind))
            if rng.chance(1, 8):
                parts.append([b'@' + rng.choice([b'rsp1', b'rsp2', b'rsp3'])])
            parts = rng.shuffle(parts)
            if kind == b'clang' and rng.chance(1, 6):
                # `--` in front of the input
                i = rng.below(len(parts) + 1)
                parts.insert(i, [b'--'])
            for p in parts:
                words += p
        elif style == 'random':
            for _ in range(rng.range(1, 8)):
                words += gen_atom(rng, spec, kind)
            if rng.chance(1, 2):
                words.insert(rng.below(len(words) + 1), b'-c')
        else:
            for _ in range(rng.below(3)):
                words += gen_atom(rng, spec, kind)
        words = [w for w in words if 0 not in w]
        opts = [1 if rng.chance(1, 4) else 0, 1 if rng.chance(1, 2) else 0,
                rng.choice([[], [b'-P'], [b'-P', b'-fminimize-whitespace']])]
        out.append([kind, 1 if rng.chance(1, 4) else 0, 1 if rng.chance(1, 5) else 0, files, dirs, words, opts])
    return out


def gen_search(rng, n):
    spec = load_spec()
    out = []
    rows = spec['gcc'] + spec['clang']
    # every table spelling, bare / with its delimiter / with every interesting next character
    for r in rows:
        s = r[1].encode()
        for sel in (b'gcc', b'clang', b'merged'):
            out.append([sel, s])
            for tail in (b'x', b'=', b',', b'-', b'=x', b',x', b'-x', b'\x01', b'\x7f', b'pedantic', b'lib', b'before', b'-pch', b'=libcc1plugin'):
                out.append([sel, s + tail])
            if len(s) > 1:
                out.append([sel, s[:-1]])
    for _ in range(n):
        s = rng.choice(rows)[1].encode()
        k = rng.below(5)
        if k == 0:
            s = s[:rng.below(len(s) + 1)]
        elif k == 1:
            s = s + bytes(rng.range(1, 127) for _ in range(rng.range(1, 3)))
        elif k == 2:
            i = rng.below(len(s))
            s = s[:i] + bytes([rng.range(1, 127)]) + s[i + 1:]
        elif k == 3:
            s = bytes(rng.range(33, 126) for _ in range(rng.range(0, 4)))
        out.append([rng.choice([b'gcc', b'clang', b'merged']), s])
    return out


# ------------------------------------------------------------------ monitors (on the REAL output)

def expand(words, files, backslash_literal=False):
    """@file expansion as documented by gcc (and re-implemented by ExpandIncludeFile), written independently here.
    A file with quotes is left alone; one with a backslash (an escape character for gcc) either way, see the callers."""
    out = []
    fm = {f[0]: f[1] for f in files}
    stack = list(reversed(words))
    steps = 0
    while stack:
        steps += 1
        if steps > 10000:
            return None
        w = stack.pop()
        if (w.startswith(b'@') and w[1:] in fm and b'"' not in fm[w[1:]] and b"'" not in fm[w[1:]]
                and not (backslash_literal and b'\\' in fm[w[1:]])):
            stack.extend(reversed(fm[w[1:]].split()))
        else:
            out.append(w)
    return out


def tok_forms(t):
    """the word sequences a token may have been written as / may be rendered as"""
    k = t[0]
    if k in (b'raw', b'unknown', b'flag'):
        return [[t[1]]]
    s, v, disp = t[1], t[3], t[4]
    forms = [[s, v], [s + v]]
    d = None
    if isinstance(disp, list) and len(disp) == 2 and disp[1]:
        d = bytes([disp[1][0]])
        forms.append([s + d + v])
    return forms


def tok_written_forms(t):
    """the word sequences a token can have been WRITTEN as, given the disposition the tokenizer reports"""
    if t[0] in (b'raw', b'unknown', b'flag'):
        return [[t[1]]]
    s, v, disp = t[1], t[3], t[4]
    if disp == b'sep' or (isinstance(disp, list) and disp[0] == b'cbc'):
        return [[s, v]]
    forms = [[s + v]]
    if isinstance(disp, list) and len(disp) == 2 and disp[1]:
        forms.insert(0, [s + bytes([disp[1][0]]) + v])
    return forms


def check_tokens_cover(toks, tend, words, what):
    """M1: the concatenation of the tokens, in order, is the word sequence (nothing swallowed, nothing invented)"""
    i = 0
    for t in toks:
        ok = False
        for f in tok_written_forms(t):
            if words[i:i + len(f)] == f:
                i += len(f)
                ok = True
                break
        if not ok:
            return ['%s: token %r does not match the words at position %d: %r' % (what, t, i, words[i:i + 2])]
    if tend == b'end' and i != len(words):
        return ['%s: %d trailing words were not turned into arguments: %r' % (what, len(words) - i, words[i:])]
    return []


def find_seq(cmd, used, seq):
    n = len(seq)
    for i in range(len(cmd) - n + 1):
        if cmd[i:i + n] == seq and not any(used[i:i + n]):
            return i
    return -1


def monitor_parse(case, out):
    kind, plusplus, multiarch, files, dirs, words, opts = case
    vs = []
    if not isinstance(out, list) or len(out) != 5:
        return ['malformed implementation output']
    toks, tend, xtoks, xtend, res = out
    # a response file with backslash escapes may be expanded (words split at white space) or passed on literally
    best = None
    for bl in (False, True):
        exp = expand(words, files, bl)
        if exp is None:
            best = []
            break
        cur = check_tokens_cover(toks, tend, exp, 'tokenizer')
        xv = expand([t[3] for t in toks if t[0] == b'with' and t[2] == CI['XClang']], files, bl)
        if xv is not None:
            cur += check_tokens_cover(xtoks, xtend, xv, '-Xclang tokenizer')
        if best is None or len(cur) < len(best):
            best = cur
    vs += best
    if not res or res[0] == b'panic':
        vs.append('parse_arguments panicked')
        return vs
    if res[0] != b'ok':
        return vs
    if len(res) != 19:
        return vs + ['malformed ok result']
    (_, inp, dd, lang, cflag, outputs, pre, dep, unh, common, arch, extra, pg, color, suppress, toohard, cmd, ppcmd, re2) = res
    obj = [o[1] for o in outputs if o[0] == b'obj']
    obj = obj[0] if obj else b''
    used = [False] * len(cmd)

    pending = []

    def need(seqs, why):
        pending.append((seqs, why))

    def settle():
        # longest forms first, so that a one-word requirement cannot take a word out of a longer one
        todo = list(pending)
        for n in sorted({len(f) for seqs, _ in todo for f in seqs}, reverse=True):
            rest = []
            for seqs, why_ in todo:
                done = False
                for f in seqs:
                    if len(f) != n:
                        continue
                    i = find_seq(cmd, used, f)
                    if i >= 0:
                        for j in range(i, i + n):
                            used[j] = True
                        done = True
                        break
                if not done:
                    rest.append((seqs, why_))
            todo = rest
        for _, why_ in todo:
            vs.append(why_)

    # the input is the last word
    if not cmd or cmd[-1] != inp:
        vs.append('the re-synthesised command does not end with the input %r' % inp)
    else:
        used[-1] = True
    has_need_dep = any(t[0] == b'flag' and t[2] == CI['NeedDepTarget'] for t in toks)
    n_out = sum(1 for t in toks if t[0] == b'with' and t[2] == CI['Output'])
    n_lang = sum(1 for t in toks if t[0] == b'with' and t[2] == CI['Language'])
    seen_input = False
    seen_dd = False
    seen_out = seen_lang = 0
    for t in toks:
        k = t[0]
        if k == b'raw':
            if t[1] == b'--' and kind == b'clang':
                if not seen_input:
                    need([[b'--']], 'lost: a second `--` in front of the input (the compiler reads it as a file name) is dropped'
                         if seen_dd else 'lost: the `--` in front of the input is not on the re-synthesised command line')
                    seen_dd = True
                continue
            seen_input = True
            if t[1] != inp:
                vs.append('input %r is neither the request\'s input nor refused' % t[1])
            continue
        if k == b'unknown':
            need([[t[1]]], 'lost: unknown flag %r is not on the re-synthesised command line' % t[1])
            continue
        c = CTORS[t[2]] if t[2] < len(CTORS) else '?'
        if c == 'DoCompilation':
            if cflag != t[1] or find_seq(cmd, [False] * len(cmd), [t[1]]) < 0:
                vs.append('lost: compilation flag %r' % t[1])
            continue
        if c == 'Output':
            seen_out += 1
            if seen_out == n_out:
                need([[b'-o', t[3]]], 'lost: the last -o %r is not the output of the re-synthesised command' % t[3])
            continue
        if c == 'Language':
            seen_lang += 1
            if seen_input:
                vs.append('x-after-input: `-x %s` follows the input file (it applies to later files only) but decides the language of %r'
                          % (t[3].decode('latin-1'), inp))
            if seen_lang == n_lang:
                alias = {b'cu': b'cuda', b'cuda': b'cu'}
                if not (cmd[:2] == [b'-x', t[3]] or cmd[:2] == [b'-x', alias.get(t[3], b'\0')]):
                    vs.append('lost: `-x %s` is not on the re-synthesised command line (it starts %r)' % (t[3].decode('latin-1'), cmd[:2]))
            continue
        if c == 'XClang':
            continue
        if c == 'DepTarget' and not has_need_dep:
            need(tok_forms(t), 'lost: dependency target `%s %s` given without -MD/-MMD/-MP is dropped' % (t[1].decode(), t[3].decode('latin-1')))
            continue
        need(tok_forms(t), 'lost: argument %r (%s) is not on the re-synthesised command line' % (t[1:4:2] if k == b'with' else t[1], c))
    for t in xtoks:
        forms = []
        for f in tok_forms(t):
            g = []
            for w in f:
                g += [b'-Xclang', w]
            forms.append(g)
        need(forms, 'lost: -Xclang argument %r is not on the re-synthesised command line' % (t[1],))
    settle()
    # what sccache adds on its own
    if cmd[:1] == [b'-x'] and len(cmd) > 1:
        used[0] = used[1] = True
    for seq in ([cflag], [b'-o', obj]):
        i = find_seq(cmd, used, seq)
        if i >= 0:
            for j in range(i, i + len(seq)):
                used[j] = True
    if has_need_dep and not any(t[0] == b'with' and t[2] == CI['DepTarget'] for t in toks):
        i = find_seq(cmd, used, [b'-MT', obj])
        if i >= 0:
            used[i] = used[i + 1] = True
    for i in range(len(cmd) - 1):
        if (not used[i] and not used[i + 1] and cmd[i] == b'-MF' and has_need_dep
                and not any(t[0] == b'with' and t[2] == CI['DepArgumentPath'] for t in toks)):
            used[i] = used[i + 1] = True
    for i in range(len(cmd)):
        if not used[i] and cmd[i].startswith(b'-D_gsplit_dwarf_path='):
            used[i] = True
    extra_words = [cmd[i] for i in range(len(cmd)) if not used[i]]
    if extra_words:
        vs.append('invented: words %r of the re-synthesised command were not on the original command line' % extra_words)
    # the dependency file is written by the preprocessor run: with -MD & co. that run must not be skipped
    if has_need_dep and not toohard:
        vs.append('depfile: -MD/-MMD/-MP given but preprocessor cache mode stays enabled (on a hit the dependency file would not be written)')
    if any(t[0] == b'with' and t[1] in (b'-Wp', b'-Xpreprocessor') for t in toks) and not toohard and not has_need_dep:
        last_pp = [t for t in toks if t[0] == b'with' and t[2] == CI['PreprocessorArgument']]
        if last_pp and last_pp[-1][1] in (b'-Wp', b'-Xpreprocessor'):
            vs.append('depfile: -Wp,/-Xpreprocessor given but preprocessor cache mode stays enabled')
    # M3: the re-synthesised command means the same request to sccache
    if re2[0] != b'ok':
        vs.append('reparse: the re-synthesised command is no longer a cacheable compile: %r' % re2[:2])
    else:
        (_, inp2, dd2, lang2, cflag2, outputs2, pre2, dep2, unh2, common2, arch2, extra2, pg2, color2, suppress2, toohard2) = re2
        gs = [w for w in common if w.startswith(b'-D_gsplit_dwarf_path=')]

        def strip_gs(l):
            return [w for w in l if not w.startswith(b'-D_gsplit_dwarf_path=')]
        diffs = []
        for name, a, b in (('input', inp, inp2), ('double_dash', dd, dd2), ('language', lang, lang2), ('compilation_flag', cflag, cflag2),
                           ('outputs', outputs, outputs2), ('preprocessor_args', pre, pre2), ('unhashed_args', unh, unh2),
                           ('common_args', strip_gs(common), strip_gs(common2)), ('arch_args', arch, arch2),
                           ('dependency_args', sorted(dep), sorted(dep2)), ('extra_hash_files', extra, extra2),
                           ('profile_generate', pg, pg2), ('color', color, color2), ('suppress_rewrite', suppress, suppress2)):
            if a != b:
                diffs.append('%s %r -> %r' % (name, a, b))
        if diffs:
            vs.append('reparse: the re-synthesised command parses differently: ' + '; '.join(diffs)[:600])
    return vs


def classify_parse(case, out, v):
    """known classes (known/C01.json)"""
    try:
        toks = out[0]
    except Exception:
        return None
    if v.startswith('x-after-input'):
        return 'C01-S21'
    if v.startswith('lost: dependency target') and 'without -MD' in v:
        return 'C01-S23'
    langs = [t for t in toks if t[0] == b'with' and t[2] == CI['Language']]
    if langs and langs[-1][3] == b'rs' and (v.startswith('lost: `-x rs`') or (v.startswith('reparse') and ('language' in v or 'unknown source language' in v))):
        return 'C01-S28'
    # an option written without its value and re-rendered as the bare flag (joined rendering of an empty value)
    empties = [t for t in list(out[0]) + list(out[2])
               if t[0] == b'with' and t[3] == b'' and (len(t[1]) == 2 or (isinstance(t[4], list) and t[4][0] == b'conc'))]
    # a -Xclang argument whose JOINED value begins with `@` (the -Xclang loop has no `@` check, unlike the main loop)
    if any(t[0] == b'with' and t[3].startswith(b'@') for t in out[2]) and (v.startswith('reparse') or v.startswith('lost: -Xclang') or v.startswith('invented')):
        return 'C01-S42'
    if v.startswith('lost: a second `--`'):
        return 'C01-S24'
    if empties and (v.startswith('reparse') or v.startswith('lost: argument') or v.startswith('lost: -Xclang') or v.startswith('invented')):
        return 'C01-S24'
    return None


def nontrivial_parse(case, out):
    try:
        return out[4][0] == b'ok' and len(out[0]) >= 3
    except Exception:
        return False


def stats_parse(case, out):
    ks = ['kind=' + case[0].decode(), 'words=%d' % min(len(case[5]), 20)]
    try:
        ks.append('res=' + out[4][0].decode())
        if out[4][0] == b'cannot_cache':
            ks.append('why=' + out[4][1].decode('latin-1')[:40])
        for t in out[0]:
            ks.append('tok=' + (CTORS[t[2]] if t[0] in (b'flag', b'with') else t[0].decode()))
            if t[0] == b'with':
                d = t[4]
                ks.append('disp=' + (d.decode() if isinstance(d, bytes) else d[0].decode()))
        if out[2]:
            ks.append('xclang_tokens')
    except Exception:
        pass
    return ks


def shrink_parse(case):
    kind, pp, ma, files, dirs, words, opts = case
    for i in range(len(words)):
        yield [kind, pp, ma, files, dirs, words[:i] + words[i + 1:], opts]
    for i in range(len(files)):
        yield [kind, pp, ma, files[:i] + files[i + 1:], dirs, words, opts]
    if pp or ma:
        yield [kind, 0, 0, files, dirs, words, opts]
    if opts != [0, 0, []]:
        yield [kind, pp, ma, files, dirs, words, [0, 0, []]]
    for i, w in enumerate(words):
        if len(w) > 2:
            yield [kind, pp, ma, files, dirs, words[:i] + [w[:-1]] + words[i + 1:], opts]


def neighbours_parse(case):
    kind, pp, ma, files, dirs, words, opts = case
    other = b'clang' if kind == b'gcc' else b'gcc'
    yield [other, pp, ma, files, dirs, words, opts]
    base = [b'-c', b'foo.c']
    for w in words:
        yield [kind, pp, ma, files, dirs, base + [w], opts]
        yield [kind, pp, ma, files, dirs, base + [w, b'v'], opts]
        yield [kind, pp, ma, files, dirs, [w] + base, opts]
    for i in range(1, len(words)):
        yield [kind, pp, ma, files, dirs, words[i:] + words[:i], opts]


def monitor_search(case, out):
    """the entry found prefix-matches the key (or equals it): the search never returns an unrelated entry"""
    sel, key = case
    if out and out[0] == b'found':
        if not key.startswith(out[1]):
            return ['search(%r) returned the entry %r, which is not a prefix of the key' % (key, out[1])]
    return []


# ------------------------------------------------------------------ leg `entry`: what a hit hands back, byte for byte

ENTRY_SIZES = [0, 1, 100, 4095, 65535, 65536, 65537, 131071, 131072, 131073, 196608, 200001, 262144, 300000, 400001]


def gen_entry(rng, n):
    out = []
    # every size class with each kind alone (random = zstd stores the blocks raw; zeros; text) ...
    for size in ENTRY_SIZES:
        for kind in (0, 1, 2):
            if size > 200001 and kind:
                continue                      # the large compressible ones are covered by the mixtures below
            out.append([0o644 if kind else 0o755, [[kind, size]], size % 977, size % 313])
    # ... and mixtures, so that raw and compressed blocks alternate inside one member
    for _ in range(n):
        chunks = [[rng.choice([0, 0, 1, 2]), rng.choice([1, 1000, 60000, 65536, 70000, 131072, 131073, 150000])] for _ in range(rng.range(1, 4))]
        out.append([rng.choice([0o644, 0o755, 0o600, 0o640]), chunks, rng.choice([0, 10, 70000, 140000]), rng.choice([0, 5, 131073])])
    return out


def monitor_entry(case, out):
    """the property on the real path: the restored member has the length, the mode and the checksum of what was stored"""
    mode, chunks, nout, nerr = case
    if not isinstance(out, list) or not out or out[0] != b'ok':
        return ['storing / restoring a cache entry failed: %r' % (out,)]
    want_len = sum(c[1] for c in chunks)
    vs = []
    if out[2] != want_len:
        vs.append('a cache hit restores %d bytes of an object of %d bytes (chunks %r): truncated / padded output file' % (out[2], want_len, chunks))
    if out[1] != mode:
        vs.append('a cache hit restores mode %o for an object stored with mode %o' % (out[1], mode))
    if out[4] != nout or out[6] != nerr:
        vs.append('a cache hit replays %d / %d bytes of stdout / stderr, stored were %d / %d' % (out[4], out[6], nout, nerr))
    return vs


def legs(tier):
    def gp(rng, tier):
        return gen_parse(rng, 60000 if tier == 'thorough' else 2400)

    def gs(rng, tier):
        return gen_search(rng, 30000 if tier == 'thorough' else 1500)
    def ge(rng, tier):
        return gen_entry(rng, 400 if tier == 'thorough' else 24)
    return [
        Leg('entry', ge, monitor=monitor_entry, nontrivial=lambda c, o: sum(x[1] for x in c[1]) > 65536,
            stats=lambda c, o: ['kinds=' + ''.join(str(x[0]) for x in c[1]), 'size>128K=%d' % (sum(x[1] for x in c[1]) > 131072)],
            shrink=lambda c: ([c[0], c[1][:i] + c[1][i + 1:], c[2], c[3]] for i in range(len(c[1]))),
            rule='cache entries written by the real CacheWrite and read back by the real CacheRead (what a hit hands to the client): one '
                 'object member of 15 sizes around the 64 KiB / 128 KiB block sizes x incompressible / zeros / text, mixtures of such '
                 'chunks, stdout / stderr up to 140 KB; observation = mode, length, 32-bit checksum; non-trivial = member > 64 KiB'),
        Leg('parse', gp, monitor=monitor_parse, nontrivial=nontrivial_parse, shrink=shrink_parse,
            neighbours=neighbours_parse, classify=classify_parse, stats=stats_parse,
            rule='argument vectors for gcc and clang kinds: table rows of both ARGS tables in every spelling form '
                 '(separate, joined, with / with a wrong delimiter, bare), unknown flags, one-edit mutants of table '
                 'spellings, inputs incl. odd paths, -Xclang pairs, `--`, nested @-files with every ASCII white space; '
                 'non-trivial = parse_arguments returned Ok and >= 3 parsed arguments; distinct by full case text'),
        Leg('search', gs, monitor=monitor_search, nontrivial=lambda c, o: bool(o) and o[0] == b'found',
            stats=lambda c, o: ['sel=' + c[0].decode(), 'res=' + (o[0].decode() if o else '?')],
            rule='table search: every spelling of both tables bare, with 14 continuations and truncated, in the gcc, '
                 'clang and merged tables, plus PRNG edits; non-trivial = an entry was found'),
    ]


def _known_with_local(pid):
    """KNOWN_FINDINGS.json plus the entries of known/C01.json that the coordinator has not merged yet."""
    known = _orig_load_known(pid)
    p = os.path.join(pipeline.VERIF, 'known', 'C01.json')
    if pid == ID and os.path.exists(p):
        mine = json.load(open(p))
        repaired = {e['id'] for e in mine if e.get('status') == 'fixed'}
        known = [k for k in known if k['id'] not in repaired]       # repaired since the coordinator's last merge
        have = {k['id'] for k in known}
        for e in mine:
            if e.get('status') == 'open' and e['id'] not in have:
                known.append(e)
    return known


_orig_load_known = pipeline.load_known


def replay_e2e(path, data):
    """./check C01 --replay <file> for a violation found by the e2e leg: re-runs that history against the current tree"""
    sys.path.insert(0, os.path.join(pipeline.VERIF, 'e2e'))
    import hashlib
    import c01_e2e
    from ..prng import Rng
    info = json.loads(data['case'])
    ok, out = pipeline.build_harness([HARNESS_BIN])
    ok2, out2 = pipeline.build_repo_bins(['sccache'])
    c01_argtables.main(pipeline.REPO, GEN_DIR, ARGTYPES)
    ok3, out3 = pipeline.coq_make(['theories/Run/C01.vo'])
    ok4, out4 = pipeline.build_modelrun(ID, RUN_MODULE) if ok3 else (False, out3)
    if not (ok and ok2 and ok3 and ok4):
        print('build failed'); print((out + out2 + out3 + str(out4))[-3000:])
        return 1
    v = c01_e2e.Verdict()
    known_ids = {k['id'] for k in _known_with_local(ID)}
    if 'scenario' in info:
        kw = {k: info[k] for k in ('real_compiler', 'compiler', 'cxx') if k in info}
        if info['scenario'] == 'two_driver_names':
            kw = {'drivers': ['clang', 'clang++']}
        if info['scenario'] == 'header_saved_during_compile':
            kw = {'real_compiler': info.get('compiler', 'gcc'), 'cxx': bool(info.get('cxx'))}
        c01_e2e.SCENARIOS[info['scenario']](int(info.get('sid', 0)), pipeline.repo_bin('sccache'), 28500, v, known_ids, **kw)
        print('scenario %s: %d requests, %d violations' % (info['scenario'], v.requests, len(v.violations)))
        for kind, detail, r in v.violations:
            print('%s: %s' % (kind, detail[:3000]))
        if v.violations:
            print('VIOLATION property=%s replay=%s' % (ID, path))
            return 1
        return 0
    hid, seed = int(info['history']), int(data.get('seed', 1))
    rng = Rng(int.from_bytes(hashlib.sha256(b'C01:e2e:%d:%d' % (seed, hid)).digest()[:7], 'big'))
    c01_e2e.run_history(hid, rng, pipeline.repo_bin('sccache'), _model_predict_fn(), 29000 + hid % 2000, v,
                        int(info.get('n_ops', 9)), known_ids)
    print('history %d (seed %d): %d requests, %d violations' % (hid, seed, v.requests, len(v.violations)))
    for kind, detail, r in v.violations:
        print('%s: %s' % (kind, detail[:3000]))
    if v.violations:
        print('VIOLATION property=%s replay=%s' % (ID, path))
        return 1
    return 0


def check(tier, seed, replay=None):
    pipeline.load_known = _known_with_local
    try:
        if replay:
            data = json.load(open(replay))
            if data.get('leg') == 'e2e':
                return replay_e2e(replay, data)
        return pipeline.standard_check(sys.modules[__name__], tier, seed, replay)
    finally:
        pipeline.load_known = _orig_load_known


# ------------------------------------------------------------------ e2e leg (real sccache binary vs real gcc / clang)

def _model_predict_fn():
    exe = os.path.join(pipeline.BUILD, 'modelrun-' + ID)

    def fn(kind, args, rsp_files, plusplus=0):
        case = [kind.encode(), plusplus, 0, [[k.encode(), v] for k, v in sorted(rsp_files.items())], [b'inc', b'inc2', b'incalt', b'sub'],
                [a.encode() for a in args], [0, 0, []]]
        try:
            p = subprocess.run([exe, 'parse'], input=(sx.dumps(case) + '\n').encode(), stdout=subprocess.PIPE, timeout=30)
            out = sx.loads(p.stdout.decode().strip())
            return out[4][0].decode()
        except Exception as e:          # a model failure is reported as a prediction nobody can meet
            return 'model_error'
    return fn


def extra(rep, known):
    if os.environ.get('VERIF_C01_SKIP_E2E') == '1':      # development aid only; the registered commands never set it
        rep.notes.append('e2e leg skipped (VERIF_C01_SKIP_E2E=1)')
        return
    sys.path.insert(0, os.path.join(pipeline.VERIF, 'e2e'))
    import c01_e2e
    from concurrent.futures import ThreadPoolExecutor
    from ..prng import Rng
    for c in ('gcc', 'g++', 'clang', 'clang++'):
        if not shutil_which(c):
            rep.oblige('e2e:compilers-present', False, c + ' not found')
            return
    ok, out = pipeline.build_repo_bins(['sccache'])
    rep.oblige('build:sccache', ok, out[-2000:] if not ok else 'cargo build --offline --bin sccache (hooks cfg on)')
    if not ok:
        return
    sccache = pipeline.repo_bin('sccache')
    n_hist = 900 if rep.tier == 'thorough' else 32
    n_ops = 16 if rep.tier == 'thorough' else 6
    known_ids = {k['id'] for k in known}
    model_fn = _model_predict_fn()
    base_port = 20000 + (os.getpid() % 400) * 100
    verdicts = []
    t0 = time.time()

    def one(hid):
        v = c01_e2e.Verdict()
        import hashlib
        rng = Rng(int.from_bytes(hashlib.sha256(b'C01:e2e:%d:%d' % (rep.seed, hid)).digest()[:7], 'big'))
        try:
            c01_e2e.run_history(hid, rng, sccache, model_fn, base_port + hid % 100 if rep.tier != 'thorough' else 20000 + hid % 20000,
                                v, n_ops, known_ids)
        except Exception:
            import traceback
            v.violations.append(('driver', traceback.format_exc()[-1500:], {'history': hid}))
        return v

    def scen(item):
        i, (name, kw) = item
        v = c01_e2e.Verdict()
        try:
            c01_e2e.SCENARIOS[name](i, sccache, 45000 + (os.getpid() % 300) * 40 + i, v, known_ids, **kw)
        except Exception:
            import traceback
            v.violations.append(('driver', traceback.format_exc()[-1500:], {'scenario': name}))
        return v

    with ThreadPoolExecutor(max_workers=8) as ex:
        fut_s = [ex.submit(scen, it) for it in enumerate(c01_e2e.scenario_plan(rep.tier))]
        verdicts = list(ex.map(one, range(n_hist)))
        verdicts += [f.result() for f in fut_s]
    total = sum(v.requests for v in verdicts)
    nv = 0
    for v in verdicts:
        for k, n in v.hist.items():
            rep.count('e2e.' + k, n)
        for k, n in v.known.items():
            rep.known_hits[k] = rep.known_hits.get(k, 0) + n
        for kind, detail, replay in v.violations:
            nv += 1
            if nv <= 5:
                rep.violation('property' if kind in ('transparency', 'must-hit') else 'correspondence', 'e2e',
                              json.dumps(replay, default=str)[:4000], '%s: %s' % (kind, detail[:1500]))
        for s in v.samples:
            if len(rep.samples) < 16:
                rep.samples.append({'leg': 'e2e', 'case': json.dumps(s)[:800]})
    try:
        json.dump([[k, d, r] for v in verdicts for k, d, r in v.violations],
                  open(os.path.join(pipeline.BUILD, 'c01-e2e-violations.json'), 'w'), indent=1, default=str)
    except Exception:
        pass
    kmap = {k['id']: k for k in known}
    for fid in sorted({f for v in verdicts for f in v.known}):
        if fid in kmap and kmap[fid].get('leg') == 'e2e':
            rep.known_lines.append('KNOWN-FINDING: property=%s %s [%s] (reproduced %d times in the e2e leg)'
                                   % (ID, kmap[fid]['what'], fid, sum(v.known.get(fid, 0) for v in verdicts)))
    rep.evaluations += total
    rep.traces += total
    rep.legs['e2e'] = dict(histories=n_hist, requests=total, violations=nv, wall_s=round(time.time() - t0, 1))
    rep.rule.append('e2e: %d histories x <=%d steps; every history: first / repeat, three diagnostics-rendering styles on a unit that '
                    'compiles WITH warnings and the first one again (colour on/off/auto, -w, -Werror, -fmessage-length, show-option, '
                    'caret / column / location switches), the include path given through CPATH / C_INCLUDE_PATH / CPLUS_INCLUDE_PATH '
                    'pointing at two directories with a same-named header of different contents (A, B, A); then random steps (edits '
                    'same-size / different-size / whitespace-only / revert, define, include path, -x language, '
                    'output path, hashed env, include-path env, restart, 4 concurrent clients, error / warning variants, pass-through forms '
                    'incl. response files with backslash escapes); fixed scenarios: a header saved right after the preprocessor of an in-flight '
                    'request read it (compiler shim), one absolute source from two build directories with -I. , a device node as output; '
                    'each request also run directly in the same directory, tree restored in between; everything compared byte for byte'
                    % (n_hist, n_ops))
    rep.oblige('e2e:transparency', nv == 0, '%d requests in %d histories, %d violations' % (total, n_hist, nv))
    log = pipeline.log
    log('leg e2e: %d histories, %d requests, %d violations, %.0fs' % (n_hist, total, nv, time.time() - t0))
    # leftovers (never pkill -f): by environment scan
    for pid in c01_e2e.servers_with_env('SCCACHE_DIR=' + c01_e2e.ROOT_PREFIX + str(os.getpid())):
        try:
            os.kill(pid, 9)
        except OSError:
            pass


def shutil_which(c):
    import shutil
    return shutil.which(c)
