"""C20 — one server per address: cold starts converge, shutdown is graceful.

Everything here is trace acceptance (tie A) + e2e against the REAL `sccache` binary built from the working tree:
  race legs   k real clients released together against a fresh address with no server; the per-process event
              sequences are reconstructed from the processes' own logs, merged into one interleaving, and the
              extracted model (Model/Startup.v) must ACCEPT it step by step and predict the observed end state;
              the singleton monitor is evaluated on the observed process table.
  life legs   idle expiry / stop request with requests in flight; the extracted Model/ServerLife.v must predict
              the observed outcome from the observed event times (one-sided: driver clock before a send, after an exit).
"""
import json
import os
import re
import shutil
import signal
import socket
import subprocess
import struct
import tempfile
import threading
import time

from .. import pipeline, sx

ID = 'C20'
HARNESS_BIN = None
RUN_MODULE = 'Run.C20'
REPO_BINS = ['sccache']
THEOREMS = ['C20_tcp_singleton', 'C20_abstract_singleton', 'C20_uds_singleton', 'C20_uds_unlocked_refuted',
            'C20_uds_retry_needs_timing', 'C20_startup_terminates', 'C20_idle_not_before', 'C20_idle_exact', 'C20_stop_waits',
            'C20_started_server_report_proceeds', 'C20_late_client_cold_starts', 'C20_not_serving_refuses',
            'C20_cut_connection_falls_back', 'C20_addresses_do_not_interfere', 'C20_lock_name_injective',
            'C20_shared_lock_name_refuted', 'C20_exit_ends_connections_orderly',
            'C20_silent_connection_does_not_keep_alive']
ASSUMPTIONS = [
    'kernel semantics as stated in Model/Startup.v: bind on a TCP port / abstract socket name is exclusive and the name is released when its owner exits; bind on a socket PATH fails iff the directory entry exists; unlink removes the entry but not the listening socket behind it; flock is exclusive and released at process exit',
    'bind+listen of one listener, and each of connect / unlink / flock / the start-up notification, are atomic steps',
    'convergence (every client ends connected) assumes no start-up wait times out (10 s, 60 s in the e2e config) and, for the locked Unix-socket path, that the lock holder listens within connect_with_retry\'s 10 x 500 ms (it binds immediately after taking the lock); without these the theorems still give: at most one server, none left behind, failed clients only by time-out',
    'storage-initialisation failures of a starting server (ServerStartup::Err) and daemonisation are not modelled',
    'ServerLife: an abstract clock; the runtime may poll late but the model never acts early; C20_idle_exact is stated for prompt polling',
    'a client that loses its connection when the shutdown cap expires sees EOF, which is a correct local compile by property C11 (not re-proved here; checked e2e in the thorough tier)',
]
TRUSTED = ['e2e driver lib/props/c20.py: log-line -> event mapping and the merge of per-process sequences into one interleaving (a search; the extracted model is the judge of the result)',
           '/proc scan for live (non-zombie) server processes carrying the run\'s unique SCCACHE_DIR']

LOGSPEC = 'sccache=trace'

# spellings of ONE Unix socket (relative to the run's scratch directory)
SPELLINGS = {'plain': 's.sock', 'symlink': 'run/current/s.sock', 'dotdot': 'run/other/../real/s.sock',
             'dslash': 'run//real/./s.sock'}


def legs(tier):
    return []


# ------------------------------------------------------------------ source-derived constants (tie T, light)

def read_consts():
    repo = pipeline.REPO
    client = open(os.path.join(repo, 'src', 'client.rs')).read()
    server = open(os.path.join(repo, 'src', 'server.rs')).read()
    commands = open(os.path.join(repo, 'src', 'commands.rs')).read()
    m = re.search(r'retry\(\s*Fixed::from_millis\((\d+)\)\.take\((\d+)\)\s*,\s*\|\|\s*connect_to_server\(addr\)\)', client)
    if not m:
        raise RuntimeError('client.rs: connect_with_retry no longer is retry(Fixed::from_millis(..).take(..), || connect_to_server(addr))')
    c = {'retry_ms': int(m.group(1)), 'retries': int(m.group(2))}
    m = re.search(r'const SHUTDOWN_TIMEOUT: Duration = Duration::from_secs\((\d+)\);', server)
    if not m:
        raise RuntimeError('server.rs: SHUTDOWN_TIMEOUT not found')
    c['cap_s'] = int(m.group(1))
    m = re.search(r'const DEFAULT_IDLE_TIMEOUT: u64 = (\d+);', server)
    if not m:
        raise RuntimeError('server.rs: DEFAULT_IDLE_TIMEOUT not found')
    c['idle_default_s'] = int(m.group(1))
    m = re.search(r'const SERVER_STARTUP_TIMEOUT: Duration = Duration::from_millis\((\d+)\);', commands)
    if not m:
        raise RuntimeError('commands.rs: SERVER_STARTUP_TIMEOUT not found')
    c['startup_ms'] = int(m.group(1))
    # the Unix-path bind branch: lock, THEN unlink, THEN bind (the order the model's SStart/SLocked/SUnlinked steps have)
    m = re.search(r'crate::net::SocketAddr::Unix\(path\) => \{(.*?)\n            \}', server, re.S)
    if not m:
        raise RuntimeError('server.rs: Unix bind branch not found')
    br = m.group(1)
    i_lock = br.find('lock_unix_socket_path(path)')
    i_unlink = br.find('remove_file(path)')
    i_bind = br.find('UnixListener::bind(path)')
    if i_unlink < 0 or i_bind < 0 or not i_unlink < i_bind:
        raise RuntimeError('server.rs: Unix bind branch no longer is unlink-then-bind')
    c['uds_locked'] = 0 <= i_lock < i_unlink
    # ... and the lock is owned by the LISTENER (released when run() drops it at the start of the shutdown phase)
    c['uds_lock_with_listener'] = 'LockedUnixListener::new(l, lock)' in br and '_lock = lock' not in br
    # the message that resets the idle timer is sent when a request is RECEIVED (first statement of call)
    m = re.search(r'fn call\(&mut self, req: SccacheRequest\) -> Self::Future \{(.*?)let me = self.clone\(\);', server, re.S)
    c['reset_on_receive'] = bool(m and 'start_send(ServerMessage::Request)' in m.group(1))
    return c


def translate(rep):
    c = read_consts()
    rep.consts = c
    rep.oblige('source: unix-socket start-up takes the lock before unlink+bind (C20_uds_singleton is about this order)',
               c['uds_locked'], 'lock_unix_socket_path(path) not found before remove_file(path) in start_server' if not c['uds_locked'] else 'lock < unlink < bind')
    rep.oblige('source: the unix-socket lock is owned by the listener, so the path is free again when the shutdown phase begins (C20_late_client_cold_starts on a socket path)',
               c['uds_lock_with_listener'], 'LockedUnixListener::new(l, lock) not found in the Unix bind branch (or the lock is moved elsewhere)' if not c['uds_lock_with_listener'] else 'LockedUnixListener::new(l, lock)')
    rep.oblige('source: idle timer reset is sent on receipt of a request', c['reset_on_receive'],
               'Service::call no longer starts with start_send(ServerMessage::Request)' if not c['reset_on_receive'] else 'first statement of Service::call')
    rep.notes.append('constants read from source: %s' % json.dumps(c, sort_keys=True))


def prebuild(rep):
    ok, out = pipeline.build_repo_bins(REPO_BINS)
    rep.oblige('build:sccache', ok, out[-3000:] if not ok else 'cargo build --offline --bin sccache, --cfg sccache_verif')
    rep.bin_ok = ok


# ------------------------------------------------------------------ process helpers

def scratch_root():
    return '/dev/shm' if os.path.isdir('/dev/shm') and os.access('/dev/shm', os.W_OK) else tempfile.gettempdir()


def proc_servers(cache_dir):
    """{pid: {'state': 'S', 'log': path}} for processes whose environment carries this run's cache dir and
    SCCACHE_START_SERVER=1 (zombies included, with state 'Z')."""
    want = ('SCCACHE_DIR=' + cache_dir).encode()
    out = {}
    for d in os.listdir('/proc'):
        if not d.isdigit():
            continue
        try:
            env = open('/proc/%s/environ' % d, 'rb').read().split(b'\0')
        except OSError:
            continue
        if want not in env or b'SCCACHE_START_SERVER=1' not in env:
            continue
        try:
            stat = open('/proc/%s/stat' % d).read()
            state = stat[stat.rindex(')') + 2]
        except (OSError, ValueError, IndexError):
            continue
        log = ''
        for e in env:
            if e.startswith(b'SCCACHE_ERROR_LOG='):
                log = e[len(b'SCCACHE_ERROR_LOG='):].decode()
        out[int(d)] = {'state': state, 'log': log}
    return out


def live_servers(cache_dir):
    return {p: v for p, v in proc_servers(cache_dir).items() if v['state'] != 'Z'}


def kill_servers(cache_dir):
    for sig in (signal.SIGTERM, signal.SIGKILL):
        ps = live_servers(cache_dir)
        if not ps:
            return
        for p in ps:
            try:
                os.kill(p, sig)
            except OSError:
                pass
        t0 = time.time()
        while time.time() - t0 < 2.0 and live_servers(cache_dir):
            time.sleep(0.05)


def free_port():
    s = socket.socket()
    s.bind(('127.0.0.1', 0))
    p = s.getsockname()[1]
    s.close()
    return p


class World:
    """One scratch directory = one address + one cache dir."""

    def __init__(self, kind, idle_s=120, tag='r', spelling=None, sock_path=None):
        self.kind = kind
        self.rel = None
        self.base = tempfile.mkdtemp(prefix='c20%s-' % tag, dir=scratch_root())
        self.cache = os.path.join(self.base, 'cache')
        os.makedirs(self.cache)
        os.makedirs(os.path.join(self.base, 'tmp'))
        open(os.path.join(self.base, 'conf'), 'w').write('server_startup_timeout_ms = 60000\n')
        self.env = {
            'PATH': os.environ.get('PATH', '/usr/bin:/bin'), 'HOME': self.base, 'TMPDIR': os.path.join(self.base, 'tmp'),
            'SCCACHE_DIR': self.cache, 'SCCACHE_CONF': os.path.join(self.base, 'conf'),
            'SCCACHE_LOG': LOGSPEC, 'SCCACHE_IDLE_TIMEOUT': str(idle_s), 'LC_ALL': 'C',
        }
        if kind == 'tcp':
            self.env['SCCACHE_SERVER_PORT'] = str(free_port())
        elif kind == 'uds':
            # one socket, spelled the way users do: plainly, through a symlinked directory, with a `..`, with `//`
            rel = SPELLINGS[spelling or 'plain']
            os.makedirs(os.path.join(self.base, 'run', 'real'))
            os.makedirs(os.path.join(self.base, 'run', 'other'))
            os.symlink('real', os.path.join(self.base, 'run', 'current'))
            self.rel = rel
            self.env['SCCACHE_SERVER_UDS'] = self.base + '/' + rel
            if sock_path:
                self.rel = None
                self.env['SCCACHE_SERVER_UDS'] = sock_path
        elif kind == 'abstract':
            self.env['SCCACHE_SERVER_UDS'] = '\\x00c20-' + os.path.basename(self.base)
        else:
            raise ValueError(kind)

    def client_env(self, i):
        e = dict(self.env)
        e['SCCACHE_ERROR_LOG'] = os.path.join(self.base, 'c%d' % i, 'server.log')
        return e

    def client_dir(self, i):
        d = os.path.join(self.base, 'c%d' % i)
        os.makedirs(d, exist_ok=True)
        return d

    def close(self):
        kill_servers(self.cache)
        shutil.rmtree(self.base, ignore_errors=True)


def write_source(d, i):
    open(os.path.join(d, 'x.c'), 'w').write('int f%d(void) { return %d; }\n' % (i, i))


def reference_object(d):
    rc = subprocess.run(['gcc', '-c', 'x.c', '-o', 'ref.o'], cwd=d, stdout=subprocess.PIPE, stderr=subprocess.STDOUT)
    return rc.returncode == 0


def make_slow_once_cc(base, delay):
    """A gcc wrapper whose FIRST compile (-c) sleeps: the server's run of it is slow, the client's local fall-back is not."""
    p = os.path.join(base, 'slowonce')
    mark = os.path.join(base, 'slowonce.mark')
    open(p, 'w').write('#!/bin/sh\n'
                       'for a in "$@"; do case "$a" in -c) if [ -n "$C20_SLOW" ] && [ ! -e "%s" ]; then : > "%s"; sleep %s; fi;; esac; done\n'
                       'exec gcc "$@"\n' % (mark, mark, delay))
    os.chmod(p, 0o755)
    return p


def make_slow_cc(base):
    """A wrapper around the real gcc that sleeps first when it is asked to compile (not when it is probed)."""
    p = os.path.join(base, 'slowcc')
    open(p, 'w').write('#!/bin/sh\n'
                       'for a in "$@"; do case "$a" in -c) [ -n "$C20_DELAY" ] && sleep "$C20_DELAY";; esac; done\n'
                       'exec gcc "$@"\n')
    os.chmod(p, 0o755)
    return p


def make_slow_detect_cc(base, delay):
    """A wrapper around gcc whose FIRST invocation (the server's compiler detection) sleeps: the request that brings a
    new compiler is answered (CompileStarted) only after `delay` seconds."""
    p = os.path.join(base, 'slowdetect')
    mark = os.path.join(base, 'slowdetect.mark')
    open(p, 'w').write('#!/bin/sh\n'
                       'if [ ! -e "%s" ]; then : > "%s"; sleep %s; fi\n'
                       'exec gcc "$@"\n' % (mark, mark, delay))
    os.chmod(p, 0o755)
    return p


# ------------------------------------------------------------------ the race

def run_race(binp, kind, k, stale=False, timeout=150, spelling=None, world=None):
    """k clients released together against a fresh address.  Returns the observation dict."""
    w = world or World(kind, spelling=spelling)
    obs = {'kind': kind, 'k': k, 'stale': stale, 'spelling': spelling, 'rel': w.rel}
    try:
        if stale and kind == 'uds':
            s = socket.socket(socket.AF_UNIX)
            s.bind(w.env['SCCACHE_SERVER_UDS'])
            s.close()   # the directory entry stays: a stale socket, connect is refused
        fifo = os.path.join(w.base, 'gate')
        os.mkfifo(fifo)
        procs = []
        for i in range(k):
            d = w.client_dir(i)
            write_source(d, i)
            reference_object(d)
            errf = open(os.path.join(d, 'client.log'), 'wb')
            p = subprocess.Popen(['sh', '-c', ': < "$0"; exec "$@"', fifo, binp, 'gcc', '-c', 'x.c', '-o', 'x.o'],
                                 cwd=d, env=w.client_env(i), stdin=subprocess.DEVNULL, stdout=subprocess.PIPE, stderr=errf)
            errf.close()
            procs.append(p)
        time.sleep(0.4)                         # everybody is blocked opening the gate for reading
        gate = os.open(fifo, os.O_WRONLY)       # ... and all are released by one open()
        t0 = time.time()
        clients = []
        for i, p in enumerate(procs):
            try:
                out, _ = p.communicate(timeout=max(1, timeout - (time.time() - t0)))
                rc = p.returncode
            except subprocess.TimeoutExpired:
                p.kill()
                out, _ = p.communicate()
                rc = 'hung'
            d = w.client_dir(i)
            obj_ok = False
            try:
                obj_ok = open(os.path.join(d, 'x.o'), 'rb').read() == open(os.path.join(d, 'ref.o'), 'rb').read()
            except OSError:
                pass
            clients.append({'rc': rc, 'stdout': out.decode('utf-8', 'replace')[:500], 'obj_ok': obj_ok,
                            'log': open(os.path.join(d, 'client.log'), errors='replace').read()})
        os.close(gate)
        obs['wall_s'] = round(time.time() - t0, 2)
        # losers exit right after their notification; give them a moment, then look at the process table
        t1 = time.time()
        while True:
            live = live_servers(w.cache)
            logs = {}
            for i in range(k):
                try:
                    logs[i] = open(os.path.join(w.client_dir(i), 'server.log'), errors='replace').read()
                except OSError:
                    logs[i] = ''
            started = [i for i in range(k) if 'server started, listening on' in logs[i]]
            if (len(live) <= len(started) and len(live) <= 1) or time.time() - t1 > 20.0:
                break
            time.sleep(0.1)
        by_idx = {}
        for pid, v in live.items():
            m = re.search(r'/c(\d+)/server\.log$', v['log'])
            by_idx[int(m.group(1)) if m else -pid] = pid
        obs['live_servers'] = sorted(by_idx)
        obs['clients'] = clients
        obs['server_logs'] = logs
        # ask the server the address resolves to how many compile requests it saw
        st = subprocess.run([binp, '--show-stats', '--stats-format', 'json'], env=dict(w.env, SCCACHE_LOG='off'),
                            stdout=subprocess.PIPE, stderr=subprocess.PIPE, timeout=60)
        try:
            obs['holder_compile_requests'] = json.loads(st.stdout.decode())['stats']['compile_requests']
        except Exception:
            obs['holder_compile_requests'] = None
            obs['stats_err'] = st.stderr.decode('utf-8', 'replace')[-300:]
        if kind == 'uds':
            obs['socket_exists'] = os.path.exists(w.env['SCCACHE_SERVER_UDS'])
            obs['sock_path'] = w.env['SCCACHE_SERVER_UDS']
            try:
                obs['sock_dir'] = sorted(os.listdir(os.path.dirname(w.env['SCCACHE_SERVER_UDS'])))
            except OSError:
                obs['sock_dir'] = []
    finally:
        if world is None:
            w.close()
    return obs


# ---- logs -> per-process label sequences (labels are those of Startup.ev_label)

def client_labels(log):
    ev = []
    lines = log.split('\n')
    phase = 'init'
    attempts_pending = 0
    for ln in lines:
        if 'sccache::client] connect_to_server(' in ln:
            attempts_pending += 1
            continue
        if 'sccache::commands] run_server_process' in ln and phase == 'init':
            ev += [2, 3]             # the first connect was refused; a server is spawned
            attempts_pending = 0
            phase = 'wait'
            continue
        if 'AddrInUse: possible parallel server bootstraps' in ln and phase == 'wait':
            ev.append(5)
            phase = 'got'
            continue
        if 'sccache::client] connect_with_retry(' in ln:
            if phase == 'wait':
                ev.append(4)         # no AddrInUse line and no bail: the notification was Ok
            phase = 'retry'
            attempts_pending = 0
            continue
        if 'sccache::commands] do_compile' in ln or 'ServerConnection::request' in ln:
            if phase == 'init' and attempts_pending:
                ev.append(1)
                phase = 'done'
            elif phase == 'retry':
                ev += [6] * max(0, attempts_pending - 1) + [1]
                phase = 'done'
            continue
        if 'Listening on address' in ln and 'instead of' in ln and phase == 'wait':
            ev.append(9)             # the spawned server reported another address than the one asked for: bail
            phase = 'failed'
            continue
        if 'Timed out waiting for server startup' in ln and phase == 'wait':
            ev.append(8)
            phase = 'failed'
            continue
        if 'Connection to server timed out' in ln and phase == 'retry':
            ev += [6] * max(0, attempts_pending - 1) + [7]
            phase = 'failed'
            continue
    return ev, phase


def server_labels(log, kind, client_timed_out=False):
    """None if no server was spawned (no log)."""
    if not log.strip():
        return None
    ev = []
    bound = 'server started, listening on' in log
    failed = 'failed to start server' in log
    locked_msg = 'is locked by another server' in log
    if kind in ('tcp', 'abstract'):
        if bound:
            ev.append(10)
        elif failed:
            ev.append(11)
    elif kind == 'uds':
        if bound:
            ev += [12, 14, 10]
        elif failed and locked_msg:
            ev.append(13)
        elif failed:
            ev += [12, 14, 11]
    elif kind == 'uds_nolock':
        if bound:
            ev += [14, 10]
        elif failed:
            ev += [14, 11]
    if 'notify_server_startup(' in log:
        # a failed notification (the client gave up waiting) makes start_server return the error: the process exits
        ev.append(16 if client_timed_out else 15)
    return ev


def merge(kind, k, cseq, sseq):
    """Search for ONE interleaving of the per-process sequences that the kernel assumptions allow: events whose
    guard can only become false later are taken first, events that raise a guard (lock taken, bound) last.
    Returns (trace, stuck) with trace = [(p, i, label)]."""
    pos_c = [0] * k
    pos_s = [0] * k
    spawned = [False] * k
    listening = set()
    name = 'free'            # free | stale | bound
    lock = None
    mbox = {}
    trace = []

    def c_enabled(i, l):
        if l == 1:
            return bool(listening) and name == 'bound'
        if l in (2, 6, 7):
            return not (listening and name == 'bound')
        if l == 4:
            return mbox.get(i) == 'ok'
        if l == 5:
            return mbox.get(i) == 'inuse'
        return True

    def s_enabled(i, l):
        if not spawned[i]:
            return False
        if l == 10:
            return (name == 'free') if kind.startswith('uds') else not listening
        if l == 11:
            return (name != 'free') if kind.startswith('uds') else bool(listening)
        if l == 12:
            return lock is None
        if l == 13:
            return lock is not None
        return True

    raising = (10, 12)
    total = sum(len(x) for x in cseq) + sum(len(x) for x in sseq if x)
    while len(trace) < total:
        cand = []
        for i in range(k):
            if pos_c[i] < len(cseq[i]) and c_enabled(i, cseq[i][pos_c[i]]):
                cand.append((0, 'c', i, cseq[i][pos_c[i]]))
            if sseq[i] and pos_s[i] < len(sseq[i]) and s_enabled(i, sseq[i][pos_s[i]]):
                l = sseq[i][pos_s[i]]
                cand.append((2 if (l == 14 and kind == 'uds_nolock') else 1 if l in raising else 0, 's', i, l))
        if not cand:
            return trace, True
        cand.sort()
        _, p, i, l = cand[0]
        trace.append((p, i, l))
        if p == 'c':
            pos_c[i] += 1
            if l == 3:
                spawned[i] = True
        else:
            pos_s[i] += 1
            if l == 10:
                listening.add(i)
                name = 'bound'
            if l == 12:
                lock = i
            if l == 14:
                name = 'free'
            if l == 15:
                idx = sseq[i].index(15)
                mbox[i] = 'ok' if 10 in sseq[i][:idx] else 'inuse'
            # a loser exits after notifying: lock / name released
            if l == 15 and 10 not in sseq[i]:
                if lock == i:
                    lock = None
    return trace, False


def race_case(obs, consts, model_kind=None):
    kind = model_kind or obs['kind']
    k = obs['k']
    cseq, cphase = [], []
    for c in obs['clients']:
        ev, ph = client_labels(c['log'])
        cseq.append(ev)
        cphase.append(ph)
    sseq = [server_labels(obs['server_logs'].get(i, ''), kind, 8 in cseq[i]) for i in range(k)]
    trace, stuck = merge(kind, k, cseq, sseq)
    case = [kind.encode(), consts['retries'], k, 1 if obs.get('stale') else 0,
            [[p.encode(), i, l] for p, i, l in trace]]
    return case, stuck, cseq, sseq, cphase


def observed_end(obs, cseq):
    """The end state in the model's output vocabulary, from the process table and the clients' exit codes."""
    k = obs['k']
    holder = obs['live_servers']
    finals = []
    for i, c in enumerate(obs['clients']):
        if c['rc'] == 0 and c['obj_ok']:
            finals.append('done')
        elif 8 in cseq[i]:
            finals.append('fail-timeout')
        elif 7 in cseq[i]:
            finals.append('fail-retry')
        elif 9 in cseq[i]:
            finals.append('fail-wrong-address')
        else:
            finals.append('bad')
    return holder, finals


def race_monitor(obs, finals):
    """The property itself, on what was observed of the real processes."""
    vs = []
    k = obs['k']
    live = obs['live_servers']
    if len(live) > 1:
        vs.append('%d live server processes remain for one address and one cache dir after %d simultaneous clients (servers of clients %s)'
                  % (len(live), k, live))
    if len(live) == 0:
        vs.append('no server is left serving the address after the cold start')
    for i, c in enumerate(obs['clients']):
        if c['rc'] != 0:
            vs.append('client %d exited with %r: %s' % (i, c['rc'], c['log'].strip().split('\n')[-1][:200]))
        elif not c['obj_ok']:
            vs.append('client %d exited 0 but its object file is missing or differs from the direct compile' % i)
    n_ok = sum(1 for f in finals if f == 'done')
    if len(live) == 1 and obs.get('holder_compile_requests') is not None and obs['holder_compile_requests'] != n_ok:
        vs.append('the server holding the address saw %s compile requests but %d clients completed: some client was served elsewhere'
                  % (obs['holder_compile_requests'], n_ok))
    return vs


def model_run(leg, cases):
    exe = os.path.join(pipeline.BUILD, 'modelrun-' + ID)
    return pipeline.run_sharded([exe, leg], [sx.dumps(c) for c in cases], shards=min(4, max(1, len(cases))))


def classify_race(obs, v):
    return None


def do_race(rep, known, binp, kind, k, stale=False, spelling=None, world=None, label=''):
    consts = rep.consts
    obs = run_race(binp, kind, k, stale, spelling=spelling, world=world)
    # the model variant is chosen from the SOURCE: without the lock call the faithful model is uds_nolock
    mkind = 'uds_nolock' if (kind == 'uds' and not consts.get('uds_locked', True)) else kind
    case, stuck, cseq, sseq, cphase = race_case(obs, consts, mkind)
    if spelling:
        case.append(spelling.encode())
    holder, finals = observed_end(obs, cseq)
    rep.evaluations += 1
    rep.count('race.kind=%s' % kind)
    rep.count('race.k=%d' % k)
    nspawn = sum(1 for s in sseq if s)
    rep.count('race.spawned_servers', nspawn)
    rep.count('race.losing_servers', sum(1 for s in sseq if s and 10 not in s))
    if nspawn > 1:
        rep.distinct.add('race:%s:%d:%s' % (kind, k, sx.dumps(case)))
    vs = race_monitor(obs, finals)
    if kind == 'uds' and obs.get('sock_path') and obs['live_servers']:
        # the lock file of this address is the one the model names: <path> with ".lock" appended
        want = bytes(pipeline.parse_out(model_run('lockname', [obs['sock_path'].encode()])[0]))
        rep.evaluations += 1
        if os.path.basename(want.decode('latin-1')) not in obs.get('sock_dir', []):
            vs.append('the server of %s holds no lock file named %s (directory: %s): addresses that differ only in what '
                      'follows the last "." would share a lock' % (os.path.basename(obs['sock_path']), os.path.basename(want.decode('latin-1')), obs.get('sock_dir')))
    if label:
        vs = ['[%s] %s' % (label, v) for v in vs]
    for v in vs[:3]:
        rep.violation('property', 'race', case, '%s%s, k=%d%s: %s' % (kind, ' spelled <dir>/%s' % obs['rel'] if spelling else '', k, ', stale socket' if stale else '', v))
    mout = pipeline.parse_out(model_run('race', [case])[0])
    ok = True
    detail = ''
    if stuck:
        ok = False
        detail = 'no interleaving of the logged per-process events is possible under the modelled kernel semantics (stuck after %d events); clients %s servers %s' % (len(case[4]), cseq, sseq)
    elif not mout or mout[0] != b'accepted':
        ok = False
        detail = 'model rejects the observed trace: %s' % sx.dumps(mout)[:400]
    else:
        m_listen, m_live, m_cl = mout[2], mout[3], mout[4]
        m_finals = []
        for c in m_cl:
            if c[0] == b'done':
                m_finals.append('done')
            elif c[0] == b'fail':
                m_finals.append('fail-' + c[1].decode())
            else:
                m_finals.append('pending')
        if sorted(m_live) != holder or sorted(m_listen) != holder:
            ok = False
            detail = 'model predicts live servers %s (listening %s), observed %s' % (m_live, m_listen, holder)
        elif m_finals != finals:
            ok = False
            detail = 'model predicts client outcomes %s, observed %s' % (m_finals, finals)
        else:
            done_to = set(c[1] for c in m_cl if c[0] == b'done')
            if holder and done_to - set(holder):
                ok = False
                detail = 'model: clients connected to %s, holder is %s' % (sorted(done_to), holder)
    if kind == 'uds' and obs.get('rel'):
        # leg "report": the model's verdict for the client whose server bound this spelling vs what that client did
        rcase = [b'path', obs['rel'].encode()]
        m_rep = model_run('report', [rcase])[0].strip()
        spawners = [i for i in range(k) if sseq[i] and 10 in sseq[i]]
        o_rep = 'bails' if any(9 in cseq[i] for i in spawners) else 'proceeds'
        rep.evaluations += 1
        rep.count('report.spelling=%s' % (spelling or 'plain'))
        if m_rep != o_rep and not vs:
            ok = False
            detail = 'spelling <dir>/%s: the model says the client that started the server %s, the real one %s' % (obs['rel'], m_rep, o_rep)
        if spelling:
            rep.distinct.add('report:%s:%d' % (spelling, k))
    if ok:
        rep.traces += 1
    elif not vs:
        rep.violation('correspondence', 'race', case, '%s, k=%d: %s' % (kind, k, detail))
    rep.legs.setdefault('race', {'runs': 0, 'accepted': 0, 'violations': 0, 'events': 0})
    L = rep.legs['race']
    L['runs'] += 1
    L['accepted'] += 1 if ok else 0
    L['violations'] += 1 if vs else 0
    L['events'] += len(case[4])
    if len(rep.samples) < 6 and nspawn > 1:
        rep.samples.append({'leg': 'race', 'case': sx.dumps(case)[:1500], 'observed': {'live_servers': holder, 'clients': finals, 'wall_s': obs.get('wall_s')}})
    pipeline.log('race %-8s k=%-2d%s: %d servers spawned, live %s, clients %s, trace %s (%d events), %.1fs'
                 % (kind, k, ' (%s)' % spelling if spelling else '', nspawn, holder, 'all ok' if all(f == 'done' for f in finals) else finals,
                    'accepted' if ok else 'NOT accepted', len(case[4]), obs.get('wall_s', 0)))
    return ok and not vs, obs, case


# ------------------------------------------------------------------ two addresses at once

def do_two_addresses(rep, known, binp, k, names=('b.debug', 'b.release')):
    """Two Unix-socket addresses in ONE directory whose names differ only after the last '.', used at the same time:
    a cold start for the first, then — its server alive — a cold start for the second, then the first again.
    One server per address, and they do not get in each other's way."""
    wa = World('uds', tag='m')
    d = os.path.join(wa.base, 'run', 'real')
    wa.env['SCCACHE_SERVER_UDS'] = os.path.join(d, names[0])
    wa.rel = None
    wb = World('uds', tag='n', sock_path=os.path.join(d, names[1]))
    try:
        ok1, oa, ca = do_race(rep, known, binp, 'uds', k, world=wa, label='address %s, nothing else running' % names[0])
        ok2, ob, cb = do_race(rep, known, binp, 'uds', k, world=wb, label='address %s while a server for %s is alive' % (names[1], names[0]))
        # both servers are alive now; each address still has exactly its own
        la, lb = live_servers(wa.cache), live_servers(wb.cache)
        rep.evaluations += 1
        rep.count('multi.two_addresses')
        rep.distinct.add('multi:%s:%s:%d' % (names[0], names[1], k))
        # the model, in the COMMON world: the two recorded traces one after the other
        evs = [[names[0].encode()] + e[:2] for e in ca[4]] + [[names[1].encode()] + e[:2] for e in cb[4]]
        mcase = [b'uds', rep.consts['retries'], k, [names[0].encode(), names[1].encode()], evs]
        mout = pipeline.parse_out(model_run('multi', [mcase])[0])
        m_live = [len(x[3]) for x in mout] if mout and all(isinstance(x, list) and len(x) > 4 for x in mout) else None
        o_live = [len(la), len(lb)]
        if ok1 and ok2 and o_live != [1, 1]:
            rep.violation('property', 'race', mcase, 'two addresses %s / %s in one directory: live servers per address %s (expected one each)' % (names[0], names[1], o_live))
        elif ok1 and ok2 and m_live != o_live:
            rep.violation('correspondence', 'race', mcase, 'two addresses: the model in the common world predicts %s live servers per address, observed %s' % (m_live, o_live))
        elif ok1 and ok2:
            rep.traces += 1
        return ok1 and ok2
    finally:
        wa.close()
        wb.close()


# ------------------------------------------------------------------ life cycle legs

def wait_gone(cache, timeout):
    t0 = time.time()
    while time.time() - t0 < timeout:
        if not live_servers(cache):
            return time.time()
        time.sleep(0.02)
    return None


def compile_once(binp, w, i, cc='gcc', extra_env=None, wait=True):
    d = w.client_dir(i)
    write_source(d, i)
    reference_object(d)
    env = w.client_env(i)
    env['SCCACHE_ERROR_LOG'] = os.path.join(w.base, 'server.log')
    if extra_env:
        env.update(extra_env)
    errf = open(os.path.join(d, 'client.log'), 'wb')
    p = subprocess.Popen([binp, cc, '-c', 'x.c', '-o', 'x.o'], cwd=d, env=env, stdin=subprocess.DEVNULL,
                         stdout=subprocess.PIPE, stderr=errf)
    errf.close()
    if wait:
        p.communicate(timeout=120)
    return p


def obj_ok(w, i):
    d = w.client_dir(i)
    try:
        return open(os.path.join(d, 'x.o'), 'rb').read() == open(os.path.join(d, 'ref.o'), 'rb').read()
    except OSError:
        return False


def ms(t):
    return int(round(t * 1000))


def life_check(rep, name, case, observed, vs, arrivals=None):
    """Feed the observed event times to Model/ServerLife.v; the model's verdict must be the observed one."""
    mout = pipeline.parse_out(model_run('life', [case])[0])
    rep.evaluations += 1
    rep.count('life.' + name)
    rep.distinct.add('life:' + name + ':' + sx.dumps(case))
    got = [mout[0].decode() if mout and isinstance(mout[0], bytes) else '?',
           mout[3].decode() if len(mout) > 3 and isinstance(mout[3], bytes) else '?',
           len(mout[5]) if len(mout) > 5 else -1]
    ok = got == observed
    if arrivals is not None and ok:
        m_arr = [[a[0], a[1]] for a in (mout[7] if len(mout) > 7 else [])]
        if m_arr != arrivals:
            ok = False
            got = got + ['arrivals %s' % m_arr]
            observed = observed + ['arrivals %s' % arrivals]
    for v in vs:
        rep.violation('property', 'life', case, name + ': ' + v)
    if not ok and not vs:
        rep.violation('correspondence', 'life', case, '%s: model predicts %s from the observed event times, observed %s (model output %s)'
                      % (name, got, observed, sx.dumps(mout)[:300]))
    if ok and not vs:
        rep.traces += 1
    rep.legs.setdefault('life', {'runs': 0, 'accepted': 0})
    rep.legs['life']['runs'] += 1
    rep.legs['life']['accepted'] += 1 if (ok and not vs) else 0
    if len(rep.samples) < 10:
        rep.samples.append({'leg': 'life', 'scenario': name, 'case': sx.dumps(case), 'observed': observed})
    pipeline.log('life %-22s: model %s observed %s%s' % (name, got, observed, '' if ok and not vs else '  <-- MISMATCH'))


def life_idle(rep, binp, kind, T):
    """Idle expiry: the server must not exit before last request + T (driver clock: BEFORE the send, AFTER the exit)."""
    w = World(kind, idle_s=T, tag='i')
    vs = []
    try:
        t0 = time.time()
        p1 = compile_once(binp, w, 0)
        time.sleep(min(1.0, T / 2.0))
        t_req2 = time.time()                    # before the second request is sent
        p2 = compile_once(binp, w, 1)
        t_done2 = time.time()
        if p1.returncode != 0 or p2.returncode != 0 or not obj_ok(w, 0) or not obj_ok(w, 1):
            vs.append('a compile failed (rc %s, %s)' % (p1.returncode, p2.returncode))
        alive_mid = bool(live_servers(w.cache))
        t_exit = wait_gone(w.cache, T + 60)
        slog = open(os.path.join(w.base, 'server.log'), errors='replace').read() if os.path.exists(os.path.join(w.base, 'server.log')) else ''
        if t_exit is None:
            vs.append('the idle server is still running %d s after its last request (idle timeout %d s)' % (T + 60, T))
            observed = ['serving', 'none', 0]
            t_exit = time.time()
        else:
            observed = ['terminated', 'idle', 0]
            if t_exit - t_req2 < T:
                vs.append('the server exited %.2f s after its last request was SENT, before the idle period of %d s' % (t_exit - t_req2, T))
            if 'handle_client: shutdown' in slog:
                vs.append('the server log shows a shutdown request nobody sent')
        # the model sees: start at 0, two requests, then polled at the observed exit time
        case = [T * 1000, rep.consts['cap_s'] * 1000,
                [[b'accept', 1], [b'request', 1], [b'poll'], [b'finish', 1], [b'close', 1],
                 [b'tick', ms(t_req2 - t0)], [b'accept', 2], [b'request', 2], [b'poll'],
                 [b'tick', ms(t_done2 - t_req2)], [b'finish', 2], [b'close', 2],
                 [b'tick', ms(t_exit - t_done2)], [b'poll'], [b'wake']]]
        life_check(rep, 'idle-%s-T%d' % (kind, T), case, observed, vs)
    finally:
        w.close()


def life_stop(rep, binp, kind, delay, cap_expected=False, late_client=False):
    """A stop request while a compile is in flight: the compile finishes (or, beyond the cap, its client falls back),
    the stop client gets its answer, and the server terminates."""
    w = World(kind, idle_s=0, tag='s')
    vs = []
    cap = rep.consts['cap_s']
    try:
        slow = make_slow_once_cc(w.base, delay) if cap_expected else make_slow_cc(w.base)
        t0 = time.time()
        p0 = compile_once(binp, w, 0)           # starts the server, warms the compiler detection for gcc
        pw = compile_once(binp, w, 3, cc=slow)  # ... and for the wrapper (no delay)
        t_req = time.time()
        p1 = compile_once(binp, w, 1, cc=slow, extra_env={'C20_DELAY': str(delay), 'C20_SLOW': '1'}, wait=False)
        time.sleep(1.0)
        t_stop = time.time()                    # before the stop request is sent
        env = dict(w.env, SCCACHE_LOG='off')
        st = subprocess.run([binp, '--stop-server'], env=env, stdout=subprocess.PIPE, stderr=subprocess.PIPE, timeout=60)
        t_stopped = time.time()
        old_pids = set(live_servers(w.cache))
        alive_after_stop = bool(old_pids)
        # a client that ARRIVES now, while the in-flight compile finishes: the stopped server no longer owns the address
        late = None
        if late_client:
            t_b = time.time()
            pb = compile_once(binp, w, 2)
            blog = open(os.path.join(w.client_dir(2), 'client.log'), errors='replace').read()
            late = {'rc': pb.returncode, 'obj': obj_ok(w, 2), 'cold_started': 'run_server_process' in blog,
                    'during_drain': bool(old_pids) and t_b < t_req + delay - 0.7,
                    'err': blog.strip().split('\n')[-1][:200]}
        out1, _ = p1.communicate(timeout=delay + 120)
        t_c1 = time.time()
        t_exit = None
        t_w = time.time()
        while time.time() - t_w < cap + 60:
            if not (old_pids & set(live_servers(w.cache))):
                t_exit = time.time()
                break
            time.sleep(0.02)
        slog = open(os.path.join(w.base, 'server.log'), errors='replace').read() if os.path.exists(os.path.join(w.base, 'server.log')) else ''
        if st.returncode != 0:
            vs.append('--stop-server failed: rc %d %s' % (st.returncode, st.stderr.decode('utf-8', 'replace')[-200:]))
        if p1.returncode != 0 or not obj_ok(w, 1):
            vs.append('the compile that was in flight when the stop request arrived did not complete correctly (rc %s, object %s)'
                      % (p1.returncode, 'ok' if obj_ok(w, 1) else 'missing/different'))
        clean = 'ok, fully shutting down now' in slog
        if t_exit is None:
            vs.append('the server is still running %d s after the stop request' % (cap + 60))
            observed = ['draining', 'stop', 1]
            t_exit = time.time()
        elif not cap_expected:
            observed = ['terminated', 'stop', 0]
            if not alive_after_stop and t_stopped < t_req + delay - 0.5:
                vs.append('the server was gone right after the stop request although a compile was in flight')
            if not clean:
                vs.append('the server did not finish its shutdown phase cleanly although the in-flight compile ended within the cap')
            if t_exit < t_req + delay:
                vs.append('the server exited %.2f s after the slow compile was sent, before it could have finished (%d s)' % (t_exit - t_req, delay))
        else:
            observed = ['terminated', 'stop', 1]
            if t_exit - t_stop < cap:
                vs.append('the server exited %.2f s after the stop request was SENT with a request in flight, before the %d s cap' % (t_exit - t_stop, cap))
            if clean:
                vs.append('the server claims a clean shutdown although a request was still in flight at the cap')
        arrivals = []
        if late and late['during_drain']:
            # the model: an arrival during the shutdown phase is refused, so the client cold-starts a fresh server
            arrivals = [[b'connect', 3]]
            rep.count('life.late_client.%s' % kind)
            if True:
                if late['rc'] != 0 or not late['obj']:
                    vs.append('a client that arrived %.1f s after the stop request was answered, while the in-flight compile was still '
                              'running, failed (rc %s, object %s): %s' % (t_b - t_stopped, late['rc'], 'ok' if late['obj'] else 'missing/different', late['err']))
                elif not late['cold_started']:
                    vs.append('a client that arrived during the shutdown phase was accepted by the stopped server instead of being refused')
                else:
                    fresh = set(live_servers(w.cache)) - old_pids
                    if len(fresh) != 1:
                        vs.append('%d fresh servers serve the address after the late client (expected exactly 1)' % len(fresh))
        if cap_expected:
            evs = [[b'accept', 1], [b'request', 1], [b'poll'], [b'tick', ms(t_stop - t_req)],
                   [b'accept', 2], [b'stop', 2], [b'poll'], [b'finish', 2], [b'close', 2], [b'wake'],
                   [b'tick', ms(t_exit - t_stop)], [b'wake']]
        else:
            evs = [[b'accept', 1], [b'request', 1], [b'poll'], [b'tick', ms(t_stop - t_req)],
                   [b'accept', 2], [b'stop', 2], [b'poll'], [b'finish', 2], [b'close', 2], [b'wake']] + arrivals + [
                   [b'tick', ms(max(0, t_c1 - t_stop))], [b'finish', 1], [b'close', 1], [b'wake']]
        case = [0, cap * 1000, evs]
        arr_obs = None
        if arrivals:
            arr_obs = [[3, 0 if late['cold_started'] else 1]]
        life_check(rep, 'stop-%s-inflight%ds%s' % (kind, delay, '-late-client' if arrivals else ''), case, observed, vs, arr_obs)
    finally:
        w.close()


def life_idle_inflight(rep, binp, kind, T, delay):
    """Idle period shorter than a compile in flight: the timer counts from RECEIPT, so the shutdown phase begins while
    the compile runs; the compile still completes and the server exits after it (thorough tier: timing upper bounds)."""
    w = World(kind, idle_s=T, tag='j')
    vs = []
    cap = rep.consts['cap_s']
    try:
        slow = make_slow_cc(w.base)
        t0 = time.time()
        compile_once(binp, w, 0)
        compile_once(binp, w, 3, cc=slow)
        t_req = time.time()
        p1 = compile_once(binp, w, 1, cc=slow, extra_env={'C20_DELAY': str(delay)}, wait=False)
        p1.communicate(timeout=delay + 120)
        t_c1 = time.time()
        t_exit = wait_gone(w.cache, T + cap + 60)
        slog = open(os.path.join(w.base, 'server.log'), errors='replace').read()
        if p1.returncode != 0 or not obj_ok(w, 1):
            vs.append('the long compile did not complete correctly (rc %s)' % p1.returncode)
        if t_exit is None:
            vs.append('server still running')
            t_exit = time.time()
            observed = ['serving', 'none', 0]
        else:
            observed = ['terminated', 'idle', 0]
            i_shut = slog.find('shutting down due to being idle or request')
            i_done = slog.rfind('CompileFinished retcode')
            if not (0 <= i_shut < i_done):
                vs.append('the shutdown phase did not begin while the long compile was in flight (timer reset on something other than receipt?)')
            if t_exit - t_req > delay + T - 0.5:
                vs.append('the server exited %.2f s after the request was sent: the idle period seems to count from completion (%d s) not receipt' % (t_exit - t_req, delay))
        case = [T * 1000, cap * 1000,
                [[b'tick', ms(t_req - t0)], [b'accept', 1], [b'request', 1], [b'poll'],
                 [b'tick', T * 1000], [b'poll'], [b'wake'],
                 [b'tick', ms(max(0, t_c1 - t_req - T))], [b'finish', 1], [b'close', 1], [b'wake']]]
        life_check(rep, 'idle-inflight-%s-T%d-D%d' % (kind, T, delay), case, observed, vs)
    finally:
        w.close()


def life_idle_late(binp, consts, kind, T, detect):
    """The failing timing of "idle period counted from the answer instead of from receipt": the last request arrives
    shortly before the running idle deadline and is answered only after it (slow compiler detection).  One-sided and
    load-tolerant: the server must not be gone before <send time> + T.  Returns the arguments of life_check."""
    w = World(kind, idle_s=T, tag='l')
    vs = []
    cap = consts['cap_s']
    try:
        slow = make_slow_detect_cc(w.base, detect)
        env = dict(w.env, SCCACHE_LOG='off', SCCACHE_ERROR_LOG=os.path.join(w.base, 'server.log'))
        t0 = time.time()                        # before the server exists: its first deadline is >= t0 + T
        st = subprocess.run([binp, '--start-server'], env=env, stdout=subprocess.PIPE, stderr=subprocess.PIPE, timeout=90)
        if st.returncode != 0:
            vs.append('--start-server failed: ' + st.stderr.decode('utf-8', 'replace')[-200:])
        time.sleep(max(0.0, t0 + T - 1.5 - time.time()))
        t_req = time.time()                     # before the request is sent
        p1 = compile_once(binp, w, 1, cc=slow)
        t_c1 = time.time()
        if p1.returncode != 0 or not obj_ok(w, 1):
            vs.append('the late request did not complete correctly (rc %s)' % p1.returncode)
        t_exit = wait_gone(w.cache, T + cap + 60)
        if t_exit is None:
            vs.append('the idle server is still running %d s after its last request' % (T + cap + 60))
            observed = ['serving', 'none', 0]
            t_exit = time.time()
        else:
            observed = ['terminated', 'idle', 0]
            if t_exit - t_req < T:
                vs.append('the server was gone %.2f s after its last request was SENT (that request arrived %.1f s before the '
                          'running idle deadline and took %.1f s to answer): before the idle period of %d s counted from receipt'
                          % (t_exit - t_req, max(0.0, t0 + T - t_req), t_c1 - t_req, T))
        case = [T * 1000, cap * 1000,
                [[b'tick', ms(t_req - t0)], [b'accept', 1], [b'request', 1], [b'poll'],
                 [b'tick', ms(t_c1 - t_req)], [b'poll'], [b'finish', 1], [b'close', 1],
                 [b'tick', ms(max(0, t_exit - t_c1))], [b'poll'], [b'wake']]]
        return ('idle-late-request-%s-T%d-D%d' % (kind, T, detect), case, observed, vs)
    finally:
        w.close()


def life_idle_silent(binp, consts, kind, T):
    """A client that CONNECTS and stays silent must not keep an idle server alive: no request is received, so the idle
    shutdown begins at T, and the open connection delays the exit by at most the cap.  One-sided, generous: the server
    must be gone by T + cap + 30 s (and not before T).  Returns the arguments of life_check."""
    w = World(kind, idle_s=T, tag='q')
    vs = []
    cap = consts['cap_s']
    conn = None
    try:
        env = dict(w.env, SCCACHE_LOG='off', SCCACHE_ERROR_LOG=os.path.join(w.base, 'server.log'))
        t0 = time.time()
        st = subprocess.run([binp, '--start-server'], env=env, stdout=subprocess.PIPE, stderr=subprocess.PIPE, timeout=90)
        t_up = time.time()
        if st.returncode != 0:
            vs.append('--start-server failed: ' + st.stderr.decode('utf-8', 'replace')[-200:])
        try:
            if kind == 'tcp':
                conn = socket.create_connection(('127.0.0.1', int(w.env['SCCACHE_SERVER_PORT'])), timeout=10)
            else:
                conn = socket.socket(socket.AF_UNIX)
                conn.connect(w.env['SCCACHE_SERVER_UDS'])
        except OSError as e:
            vs.append('could not open the silent connection: %r' % e)
        t_conn = time.time()
        limit = T + cap + 30
        t_exit = wait_gone(w.cache, max(1.0, t_up + limit - time.time()))
        if t_exit is None:
            vs.append('a server that received NO request is still running %.0f s after it came up (idle timeout %d s, shutdown cap %d s): '
                      'a connected but silent client keeps it alive' % (time.time() - t_up, T, cap))
            observed = ['serving', 'none', 0]
            t_exit = time.time()
        else:
            observed = ['terminated', 'idle', 1]
            if t_exit - t0 < T:
                vs.append('the server was gone %.2f s after it was started, before the idle period of %d s' % (t_exit - t0, T))
        case = [T * 1000, cap * 1000,
                [[b'tick', ms(t_conn - t0)], [b'accept', 1], [b'tick', max(0, T * 1000 - ms(t_conn - t0))], [b'poll'], [b'wake'],
                 [b'tick', max(0, ms(t_exit - t0) - max(T * 1000, ms(t_conn - t0)))], [b'wake']]]
        return ('idle-silent-connection-%s-T%d' % (kind, T), case, observed, vs)
    finally:
        if conn is not None:
            try:
                conn.close()
            except OSError:
                pass
        w.close()


# ------------------------------------------------------------------ connections cut INSIDE a frame (leg "cut")

def bincode_started():
    return struct.pack('<II', 0, 0)             # Response::Compile(CompileResponse::CompileStarted)


def bincode_finished(rc, nerr):
    return (struct.pack('<I', 5) + b'\x01' + struct.pack('<i', rc) + b'\x00' + struct.pack('<Q', 0)
            + struct.pack('<Q', nerr) + b'w' * nerr + struct.pack('<I', 2))


def wire_frame(payload):
    return struct.pack('>I', len(payload)) + payload


def cut_server(sock, cut, rc, nerr, reset=False):
    """Plays a server whose process ends while it writes the result: CompileStarted, then `cut` bytes of the
    CompileFinished frame, then the connection is closed."""
    def rd(c, n):
        b = b''
        while len(b) < n:
            x = c.recv(n - len(b))
            if not x:
                raise EOFError
            b += x
        return b
    try:
        c, _ = sock.accept()
        c.settimeout(30)
        (n,) = struct.unpack('>I', rd(c, 4))
        rd(c, n)
        c.sendall(wire_frame(bincode_started()))
        c.sendall(wire_frame(bincode_finished(rc, nerr))[:cut])
        if reset:
            # an ABORTING close: zero linger makes close() send RST instead of FIN (the client has had time to read
            # what was sent, so the reset is what its NEXT read meets)
            time.sleep(0.3)
            c.setsockopt(socket.SOL_SOCKET, socket.SO_LINGER, struct.pack('ii', 1, 0))
        else:
            try:
                c.shutdown(socket.SHUT_RDWR)
            except OSError:
                pass
        c.close()
    except Exception:
        pass
    finally:
        sock.close()


def do_cut(rep, binp, cut, rc=0, nerr=1216, reset=False):
    base = tempfile.mkdtemp(prefix='c20c-', dir=scratch_root())
    try:
        srv = socket.socket()
        srv.bind(('127.0.0.1', 0))
        srv.listen(1)
        srv.settimeout(30)
        port = srv.getsockname()[1]
        th = threading.Thread(target=cut_server, args=(srv, cut, rc, nerr, reset), daemon=True)
        th.start()
        d = os.path.join(base, 'c')
        os.makedirs(d)
        write_source(d, 7)
        reference_object(d)
        env = {'PATH': os.environ.get('PATH', '/usr/bin:/bin'), 'HOME': base, 'TMPDIR': base, 'LC_ALL': 'C',
               'SCCACHE_SERVER_PORT': str(port), 'SCCACHE_DIR': os.path.join(base, 'cache'), 'SCCACHE_LOG': 'off'}
        p = subprocess.run([binp, 'gcc', '-c', 'x.c', '-o', 'x.o'], cwd=d, env=env, stdin=subprocess.DEVNULL,
                           stdout=subprocess.PIPE, stderr=subprocess.PIPE, timeout=60)
        th.join(5)
        have_obj = os.path.exists(os.path.join(d, 'x.o'))
        same = have_obj and open(os.path.join(d, 'x.o'), 'rb').read() == open(os.path.join(d, 'ref.o'), 'rb').read()
        if p.returncode == 0 and same:
            o = ['local']
        elif not have_obj and b'w' * 64 in p.stderr and p.returncode == rc:
            o = ['finished', rc]
        else:
            o = ['error']
        flen = len(wire_frame(bincode_finished(rc, nerr)))
        case = [cut, rc, nerr] + ([b'reset'] if reset else [])
        mout = pipeline.parse_out(model_run('cut', [case])[0])
        m = [x.decode() if isinstance(x, bytes) else x for x in mout[0]] if mout and isinstance(mout[0], list) else ['?']
        rep.evaluations += 1
        where = 'boundary' if cut == 0 else 'in-header' if cut < 4 else 'after-header' if cut == 4 else 'whole' if cut >= flen else 'in-payload'
        rep.count('cut.' + where + ('.reset' if reset else ''))
        rep.distinct.add('cut:%d%s' % (cut, ':reset' if reset else ''))
        rep.legs.setdefault('cut', {'runs': 0, 'agree': 0})
        rep.legs['cut']['runs'] += 1
        if cut < flen and o != ['local'] and not reset:
            rep.violation('property', 'cut', case,
                          'the server went away after %d of %d bytes of the CompileFinished frame (%s): the client did not fall back to a '
                          'correct local compile (rc %d, object %s): %s'
                          % (cut, flen, where, p.returncode, 'identical' if same else 'missing/different',
                             p.stderr.decode('utf-8', 'replace').strip().replace('\n', ' | ')[-300:]))
        elif m != o or (len(mout) > 1 and mout[1] != flen):
            rep.violation('correspondence', 'cut', case, 'cut at %d%s: model %s (frame %s bytes), client %s (frame %d bytes)'
                          % (cut, ' ended by RST' if reset else '', m, mout[1] if len(mout) > 1 else '?', o, flen))
        else:
            rep.legs['cut']['agree'] += 1
            rep.traces += 1
        return m, o
    finally:
        shutil.rmtree(base, ignore_errors=True)


# ------------------------------------------------------------------ model-only witnesses (sched leg)

def sched_witnesses(rep):
    """The S11 schedule on the model without the lock (two servers), and the same schedule with the lock."""
    sch = [[b'c', 0], [b'c', 0], [b'c', 1], [b'c', 1], [b's', 0], [b's', 0], [b's', 0], [b's', 1], [b's', 1], [b's', 1],
           [b'c', 0], [b'c', 0], [b'c', 1], [b'c', 1]]
    cases = [[b'uds_nolock', 10, 2, 0, sch], [b'uds', 10, 2, 0, sch + [[b's', 0], [b'c', 1]]], [b'tcp', 10, 2, 0, sch]]
    cases += pipeline.corpus_cases(ID, 'sched')
    outs = [pipeline.parse_out(o) for o in model_run('sched', cases)]
    ok = len(outs[0][2]) == 2 and len(outs[1][2]) == 1 and len(outs[2][2]) == 1
    rep.oblige('model witness: without the lock two servers listen (S11), with the lock / on TCP one', ok,
               ' | '.join(sx.dumps(o)[:200] for o in outs[:3]))
    rep.evaluations += len(cases)


# ------------------------------------------------------------------ the legs

def extra(rep, known):
    if not getattr(rep, 'bin_ok', False):
        rep.notes.append('e2e legs not run: sccache binary did not build')
        return
    if not hasattr(rep, 'consts'):
        rep.consts = read_consts()
    binp = pipeline.repo_bin('sccache')
    sched_witnesses(rep)
    # recorded traces (corpus): the model must still accept what it accepted / reject the pre-fix multi-server trace
    corpus = pipeline.corpus_cases(ID, 'race')
    if corpus:
        outs = [pipeline.parse_out(o) for o in model_run('race', corpus)]
        bad = []
        for c, o in zip(corpus, outs):
            nolock = c[0] == b'uds_nolock'
            acc = bool(o) and o[0] == b'accepted'
            n_listen, n_live = (len(o[2]), len(o[3])) if acc else (-1, -1)
            if nolock:
                if not (acc and n_listen > 1):
                    bad.append('pre-fix trace no longer shows >1 server: ' + sx.dumps(o)[:200])
            elif not acc or n_listen > 1 or n_listen != n_live:
                bad.append('recorded trace: ' + sx.dumps(o)[:200])
        rep.oblige('corpus: recorded real traces (pre-fix S11 run under uds_nolock, post-fix runs)', not bad, '; '.join(bad) or '%d traces' % len(corpus))
        rep.evaluations += len(corpus)
    # witnesses of the seam behaviours (late request, arrival during shutdown, cut inside a frame, spellings):
    # ( case expected-model-output ) pairs
    bad = []
    npairs = 0
    for leg in ('life', 'cut', 'report', 'multi', 'lockname'):
        pairs = pipeline.corpus_cases(ID, leg)
        if not pairs:
            continue
        outs = model_run(leg, [pr[0] for pr in pairs])
        for pr, o in zip(pairs, outs):
            npairs += 1
            if o.strip() != sx.dumps(pr[1]):
                bad.append('%s %s: model now says %s' % (leg, sx.dumps(pr[0])[:120], o.strip()[:160]))
    rep.oblige('corpus: late request / arrival during shutdown / cut inside a frame / socket spellings (model answers pinned)',
               not bad, '; '.join(bad[:4]) or '%d witnesses' % npairs)
    rep.evaluations += npairs
    ks = [2, 4, 8, 16, 32]
    if rep.tier == 'thorough':
        plan = [(kind, k, False) for rnd in range(3) for kind in ('tcp', 'uds', 'abstract') for k in ks]
        plan += [('uds', k, True) for k in (2, 8, 32)]
    else:
        plan = [(kind, k, False) for rnd in range(2) for kind in ('uds', 'tcp', 'abstract') for k in ks]
        plan += [('uds', 8, True), ('uds', 32, True)]
    plan = [p + (None,) for p in plan]
    # the same socket under other spellings: one client (it is the one that starts the server), and races
    spell = [('uds', 1, False, 'symlink'), ('uds', 1, False, 'dotdot'), ('uds', 4, False, 'dotdot'), ('uds', 8, False, 'symlink'),
             ('uds', 2, False, 'dslash'), ('uds', 4, True, 'symlink')]
    if rep.tier == 'thorough':
        spell += [('uds', k, False, sp) for sp in ('symlink', 'dotdot', 'dslash') for k in (16, 32)]
    # the late-request idle leg takes T + (T - 1.5) seconds of waiting: run it beside the races
    late_box = {}

    def run_late():
        try:
            late_box['r'] = life_idle_late(binp, rep.consts, 'tcp', 6, 4)
        except Exception as e:      # reported below
            late_box['e'] = repr(e)
    late_thread = threading.Thread(target=run_late, daemon=True)
    late_thread.start()

    def run_uds_stop():
        try:
            life_stop(rep, binp, 'uds', 3, late_client=True)
            late_box['uds_stop'] = True
        except Exception as e:
            late_box['uds_stop_e'] = repr(e)
    uds_stop_thread = None
    if rep.tier != 'thorough':
        uds_stop_thread = threading.Thread(target=run_uds_stop, daemon=True)
        uds_stop_thread.start()

    # a compile that OUTLASTS the shutdown cap on a TCP address: the server exits with the request in flight, the
    # kernel ends the connection, the client must fall back (the slow run happens once: the fall-back is quick)
    def run_tcp_cap():
        try:
            life_stop(rep, binp, 'tcp', rep.consts['cap_s'] + 3, cap_expected=True)
            late_box['tcp_cap'] = True
        except Exception as e:
            late_box['tcp_cap_e'] = repr(e)
    tcp_cap_thread = threading.Thread(target=run_tcp_cap, daemon=True)
    tcp_cap_thread.start()

    # connected-but-silent clients (one TCP, one Unix path) against idle servers, beside everything else
    def run_silent(kind):
        try:
            late_box['silent_' + kind] = life_idle_silent(binp, rep.consts, kind, 2)
        except Exception as e:
            late_box['silent_' + kind + '_e'] = repr(e)
    silent_threads = [threading.Thread(target=run_silent, args=(kd,), daemon=True) for kd in ('tcp', 'uds')]
    for th in silent_threads:
        th.start()
    for kind, k, stale, sp in spell + plan:
        ok, obs, case = do_race(rep, known, binp, kind, k, stale, spelling=sp)
        if not ok and rep.tier == 'quick' and sum(1 for v in rep.violations) >= 3:
            break
    # two addresses in one directory that differ only after the last '.', in use at the same time
    do_two_addresses(rep, known, binp, 4)
    if rep.tier == 'thorough':
        do_two_addresses(rep, known, binp, 16, names=('srv.1', 'srv.2'))
        do_two_addresses(rep, known, binp, 2, names=('sccache.gcc', 'sccache.clang'))
    rep.rule.append('multi: two Unix-socket addresses in one directory (b.debug / b.release), cold start of the second while the '
                    'server of the first is alive; per address one server; the lock file is <path>.lock as the model names it')
    rep.rule.append('report: the same cold starts with the Unix socket spelled through a symlinked directory, with `..`, with `//` '
                    'and `.` (1 client = the one that starts the server, and races); the model says the spawner proceeds')
    # connections cut on a frame boundary, inside the length header, right after it, inside the payload
    flen = len(wire_frame(bincode_finished(0, 1216)))
    for cut in [0, 2, 4, 5, 30, flen - 1, flen] + ([1, 3, 17, 600, flen - 5] if rep.tier == 'thorough' else []):
        do_cut(rep, binp, cut)
    # the same cut points ended by an ABORTING close (RST): per the model the client then does NOT fall back (error,
    # unless SCCACHE_IGNORE_SERVER_IO_ERROR=1) — which is why the server must close orderly (C20_exit_ends_connections_orderly)
    for cut in [0, 2, 4, 30] + ([5, 600, flen - 1] if rep.tier == 'thorough' else []):
        do_cut(rep, binp, cut, reset=True)
    rep.rule.append('cut: a stand-in server answers CompileStarted and closes after k bytes of the CompileFinished frame, k on the '
                    'boundary / in the header / after the header / in the payload / whole frame; real client vs Model.Client.client')
    rep.rule.append('race: k in {2,4,8,16,32} real clients x {tcp, unix path, abstract} (+ stale socket file), released by one open() of a '
                    'FIFO; non-trivial = more than one server process was spawned; distinct by the full merged event trace')
    # life cycle
    life_idle(rep, binp, 'uds', 2)
    life_stop(rep, binp, 'tcp', 3, late_client=True)
    late_thread.join(120)
    for th, kd in zip(silent_threads, ('tcp', 'uds')):
        th.join(120)
        if ('silent_' + kd) in late_box:
            life_check(rep, *late_box['silent_' + kd])
        else:
            rep.oblige('life: silent-connection idle leg (%s) ran' % kd, False, late_box.get('silent_' + kd + '_e', 'did not finish within 120 s'))
    tcp_cap_thread.join(180)
    if not late_box.get('tcp_cap'):
        rep.oblige('life: compile outlasting the cap on a TCP address ran', False, late_box.get('tcp_cap_e', 'did not finish within 180 s'))
    if uds_stop_thread is not None:
        uds_stop_thread.join(120)
        if not late_box.get('uds_stop'):
            rep.oblige('life: unix-socket stop leg with a late client ran', False, late_box.get('uds_stop_e', 'did not finish within 120 s'))
    if 'r' in late_box:
        life_check(rep, *late_box['r'])
    else:
        rep.oblige('life: late-request idle leg ran', False, late_box.get('e', 'did not finish within 120 s'))
    if rep.tier == 'thorough':
        life_idle(rep, binp, 'tcp', 3)
        life_stop(rep, binp, 'uds', 4, late_client=True)
        life_stop(rep, binp, 'abstract', rep.consts['cap_s'] + 5, cap_expected=True)
        life_stop(rep, binp, 'uds', rep.consts['cap_s'] + 3, cap_expected=True)
        life_idle_inflight(rep, binp, 'tcp', 2, 6)
    rep.rule.append('life: idle expiry and stop-with-request-in-flight against the real server; the extracted ServerLife model must '
                    'predict the observed outcome from driver-side times (before send / after exit)')
    rep.oblige('trace-acceptance: every observed run is a behaviour of the model',
               not any(v['kind'] == 'correspondence' for v in rep.violations),
               '%d traces accepted' % rep.traces)


def check(tier, seed, replay=None):
    if not replay:
        return pipeline.standard_check(__import__('lib.props.c20', fromlist=['x']), tier, seed, None)
    # replay: re-run the recorded scenario on the real binary (a race cannot be forced, so up to 5 attempts), and show
    # the model's verdict on the recorded trace
    data = json.load(open(replay))
    case = sx.loads(data['case'])
    rep = pipeline.Report(ID, tier, seed)
    prebuild(rep)
    rep.consts = read_consts()
    ok, out = pipeline.coq_make(['theories/Run/C20.vo'])
    okm, _ = pipeline.build_modelrun(ID, RUN_MODULE)
    leg = data.get('leg', 'race')
    print('case:  ', data['case'][:2000])
    if okm:
        print('model: ', model_run(leg if leg in ('race', 'life', 'sched', 'cut', 'report') else 'race', [case])[0][:2000])
    bad = False
    if leg == 'race' and rep.bin_ok and ('[address ' in (data.get('what_fails') or '') or (case and isinstance(case[3], list))):
        okr = do_two_addresses(rep, [], pipeline.repo_bin('sccache'), case[2])
        bad = not okr or bool(rep.violations)
        print('impl:   two addresses: %s' % ([v['detail'] for v in rep.violations][:2] or 'no violation'))
    elif leg == 'race' and rep.bin_ok:
        kind = case[0].decode().replace('uds_nolock', 'uds')
        for attempt in range(5):
            okr, obs, c2 = do_race(rep, [], pipeline.repo_bin('sccache'), kind, case[2], bool(case[3]),
                                   spelling=case[5].decode() if len(case) > 5 else None)
            if not okr:
                bad = True
                print('impl:   attempt %d: live servers %s; %s' % (attempt + 1, obs['live_servers'], [v['detail'] for v in rep.violations][:3]))
                break
        if not bad:
            print('impl:   5 attempts, no violation')
    if leg == 'cut' and rep.bin_ok:
        m, o = do_cut(rep, pipeline.repo_bin('sccache'), case[0], case[1], case[2])
        print('impl:   cut at %d: model %s, real client %s' % (case[0], m, o))
        bad = bool(rep.violations)
    if leg == 'life' and rep.bin_ok:
        # the scenario is named in front of the recorded failure text: <scenario>: <what failed>
        name = (data.get('what_fails') or data.get('disagreements', [{}])[0].get('detail', '')).split(':')[0]
        binp = pipeline.repo_bin('sccache')
        m = re.match(r'(idle-late-request|idle-inflight|idle-silent-connection|idle|stop)-(tcp|uds|abstract)-?(.*)$', name)
        if m:
            what, kind, rest = m.groups()
            nums = [int(x) for x in re.findall(r'\d+', rest)]
            if what == 'idle-late-request':
                life_check(rep, *life_idle_late(binp, rep.consts, kind, nums[0], nums[1]))
            elif what == 'idle-silent-connection':
                life_check(rep, *life_idle_silent(binp, rep.consts, kind, nums[0]))
            elif what == 'idle-inflight':
                life_idle_inflight(rep, binp, kind, nums[0], nums[1])
            elif what == 'idle':
                life_idle(rep, binp, kind, nums[0])
            else:
                life_stop(rep, binp, kind, nums[0], cap_expected=nums[0] > rep.consts['cap_s'], late_client='late-client' in rest)
            bad = bool(rep.violations)
            print('impl:   %s: %s' % (name, [v['detail'] for v in rep.violations][:2] or 'no violation'))
    if bad:
        print('VIOLATION property=%s replay=%s' % (ID, replay))
        return 1
    return 0
