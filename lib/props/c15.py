"""C15 — read-only cache mode never adds, changes or removes entries."""
import itertools

from ..pipeline import Leg

ID = 'C15'
HARNESS_BIN = 'c15'
RUN_MODULE = 'Run.C15'
REPO_BINS = ['sccache']
THEOREMS = ['C15_frozen', 'C15_frozen_requests', 'C15_writes_refused', 'C15_hits_served', 'C15_hits_served_always', 'C15_concurrent_lookups_served', 'C15_lookups_never_deadlock', 'C15_miss_compiles',
            'C15_mtime_touched', 'C15_rw_open_evicts', 'C15_mode_effective', 'C15_env_overrides_own_key_only',
            'C15_configured_read_only_frozen']
ASSUMPTIONS = [
    'no other process modifies the cache directory during the history; I/O errors other than "file missing" are not modelled',
    'mtime/atime updates made by a lookup (set_file_times) are not content changes (C15_mtime_touched states that they do happen)',
    'C15_hits_served is under the guard "the files under the root fit the configured size": a read-only cache larger than '
    'SCCACHE_CACHE_SIZE serves only the most recently used entries that fit (the others are left on disk, not served)',
    'result keys have at least 2 and preprocessor keys at least 3 characters (hex digests); environment values are ASCII; '
    'SCCACHE_CACHE_SIZE * multiplier does not overflow u64',
    'request level: the order of storage calls of one request is modelled (do_req); that the outputs of hits and misses are '
    'correct is property C09 and is validated here only end-to-end',
]
TRUSTED = ['hooks: CacheWrite::verif_with_comment (entry of a chosen encoded size), DiskCache::verif_indexes (read-only view '
           'of what the two stores index)',
           'e2e leg: real sccache server + gcc, directory listings with sha256, /proc scan for server pids']

KEYS = [b'abcd', b'abce', b'cdef', b'ef01', b'0123']
TEMPS = [b'.sccachetmpOLD', b'a/b/.sccachetmpX', b'preprocessor/.sccachetmpP', b'preprocessor/a/b/c/.sccachetmpQ']
STRAYS = [b'stray', b'a/zz', b'preprocessor/note']
MAIN_SIZES = [22, 25, 30, 40, 60, 10]
PP_SIZES = [0, 5, 10, 17, 30, 50]
PPSZ = 17  # encoded size of PreprocessorCacheEntry::new(); the harness checks it


def main_path(k):
    return k[0:1] + b'/' + k[1:2] + b'/' + k


def pp_path(k):
    return b'preprocessor/' + k[0:1] + b'/' + k[1:2] + b'/' + k[2:3] + b'/' + k


def is_temp(p):
    return p.split(b'/')[-1].startswith(b'.sccachetmp')


def gen_dir(rng, nmax=7):
    cands = [(main_path(k), MAIN_SIZES) for k in KEYS] + [(pp_path(k), PP_SIZES) for k in KEYS] \
        + [(t, [0, 5, 40]) for t in TEMPS] + [(s, [3, 30]) for s in STRAYS]
    cands = rng.shuffle(cands)[:rng.range(0, nmax)]
    mts = rng.shuffle(list(range(1, len(cands) + 1)))
    return [[p, rng.choice(sz), mts[i], i + 1] for i, (p, sz) in enumerate(cands)]


def gen_item(rng, cap):
    kind = rng.weighted([('get', 8), ('put', 5), ('ppget', 5), ('ppput', 4), ('restart', 2), ('req', 8)])
    k = rng.choice(KEYS)
    if kind in ('get', 'ppget', 'ppput'):
        return [kind.encode(), k]
    if kind == 'put':
        return [b'put', k, rng.choice([22, 25, 30, 40, 60, 120]), 50 + rng.below(40)]
    if kind == 'restart':
        rw = 1 if rng.chance(1, 4) else 0
        wrap = (1 - rw) if rng.chance(5, 6) else rng.below(2)
        return [b'restart', rw, wrap, cap if rng.chance(1, 2) else rng.choice([0, 20, 50, 60, 100, 200, 10000])]
    return [b'req', k, rng.choice(KEYS), rng.choice([22, 30, 60]), 50 + rng.below(40),
            1 if rng.chance(3, 4) else 0, 1 if rng.chance(1, 6) else 0, 1 if rng.chance(2, 3) else 0,
            1 if rng.chance(1, 5) else 0, 1 if rng.chance(7, 8) else 0, 1 if rng.chance(5, 6) else 0]


def gen_random(rng, n, maxlen):
    out = []
    for _ in range(n):
        files = gen_dir(rng)
        total = sum(f[1] for f in files)
        cap = rng.weighted([(total + 100, 4), (total, 2), (max(total - 1, 0), 1), (total // 2, 3), (50, 2), (20, 1), (0, 1), (10000, 2)])
        rw = 1 if rng.chance(1, 4) else 0
        wrap = (1 - rw) if rng.chance(5, 6) else rng.below(2)
        items = [gen_item(rng, cap) for _ in range(rng.range(1, maxlen))]
        out.append([rw, wrap, cap, PPSZ, files, items])
    return out


def gen_exhaustive(depth):
    """every history over a small alphabet against one populated directory that does NOT fit the configured size"""
    files = [[main_path(b'abcd'), 30, 1, 1], [main_path(b'cdef'), 30, 2, 2], [main_path(b'ef01'), 30, 3, 3],
             [b'.sccachetmpOLD', 5, 4, 4], [pp_path(b'abcd'), 10, 5, 5], [pp_path(b'cdef'), 60, 6, 6]]
    alpha = [[b'get', b'abcd'], [b'get', b'ef01'], [b'ppget', b'abcd'], [b'put', b'0123', 30, 9], [b'ppput', b'abcd'],
             [b'restart', 0, 1, 200], [b'req', b'ef01', b'abcd', 30, 8, 1, 0, 1, 1, 1, 1], [b'req', b'0123', b'0123', 30, 7, 1, 1, 0, 0, 1, 1]]
    out = []
    for d in range(1, depth + 1):
        for seq in itertools.product(alpha, repeat=d):
            for wrap in (0, 1):
                out.append([0, wrap, 60, PPSZ, files, [list(o) for o in seq]])
    return out


def ro_monitor(case, out):
    """The property itself on the REAL DiskCache's observations: while the configuration is read-only the
    directory (raw BLAKE3 listing, and the decoded path/size/content listing and directory set) never
    changes, every write is refused, lookups of entries that are there are served when the directory fits
    the configured size, lookups of entries that are not there miss."""
    rw, wrap, cap, ppsz, files, items = case
    vs = []
    if not isinstance(out, list) or len(out) != len(items) + 1:
        return ['malformed implementation output']
    prev = None
    for i, obs in enumerate(out):
        if isinstance(obs, list) and obs and obs[0] == b'hung':
            vs.append('item %d %s (%s): hung: the storage call did not return within 5 s — the request would be neither '
                      'served nor compiled' % (i, items[i - 1] if i else None, 'READ_ONLY' if rw == 0 else 'READ_WRITE'))
            break
        if not isinstance(obs, list) or (obs and obs[0] == b'panic') or len(obs) != 7:
            vs.append('item %d: the cache panicked or printed nothing' % i)
            break
        res, touched, midx, pidx, listing, dirs, raw = obs
        if prev is not None:
            it = items[i - 1]
            t = it[0]
            if t == b'restart':
                rw, wrap, cap = it[1], it[2], it[3]
            elif rw == 0:
                plist = [(f[0], f[1], f[3]) for f in prev[4]]
                nlist = [(f[0], f[1], f[3]) for f in listing]
                if plist != nlist:
                    gone = [p for p in plist if p not in nlist]
                    new = [p for p in nlist if p not in plist]
                    vs.append('item %d %s in READ_ONLY mode changed the cache directory: removed/changed %s, added/changed %s'
                              % (i, it, gone[:4], new[:4]))
                elif dirs != prev[5]:
                    vs.append('item %d %s in READ_ONLY mode created or removed directories: %s -> %s' % (i, it, prev[5], dirs))
                elif raw != prev[6]:
                    vs.append('item %d %s in READ_ONLY mode changed file bytes (raw digest differs)' % (i, it))
                for r in res:
                    if r in (b'ok',):
                        vs.append('item %d %s: a write was accepted in READ_ONLY mode' % (i, it))
                present = {f[0]: f[1] for f in prev[4]}
                fits = sum(present.values()) <= cap
                if t == b'get':
                    p = main_path(it[1])
                    if p in present and present[p] >= 22 and fits and res != [b'hit']:
                        vs.append('item %d %s: entry %s is in the read-only cache (which fits its size) but was not served: %s' % (i, it, p, res))
                    if p not in present and res != [b'miss']:
                        vs.append('item %d %s: lookup of an absent entry gave %s' % (i, it, res))
                if t == b'ppget':
                    p = pp_path(it[1])
                    if p in present and fits and res != [b'found']:
                        vs.append('item %d %s: preprocessor entry %s is there but was not served: %s' % (i, it, p, res))
                    if p not in present and res != [b'none']:
                        vs.append('item %d %s: lookup of an absent preprocessor entry gave %s' % (i, it, res))
                if t in (b'put', b'ppput') and res not in ([b'refused_wrapper'], [b'refused_cache']):
                    vs.append('item %d %s: write not refused in READ_ONLY mode: %s' % (i, it, res))
                if t == b'req':
                    if b'hit' in res and res[-1] != b'hit':
                        vs.append('item %d %s: storage calls after a hit: %s' % (i, it, res))
                    if it[10] and it[9] and b'hit' not in res and res[-1] not in (b'refused_wrapper', b'refused_cache'):
                        vs.append('item %d %s: a compiled miss did not end in a refused store: %s' % (i, it, res))
        prev = obs
    return vs


def ro_compare(m, i):
    """the implementation prints one extra field per observation (the raw digest)"""
    from .. import sx
    try:
        mo = sx.loads(m)
        io = sx.loads(i)
        return mo == [o[:6] if isinstance(o, list) and len(o) == 7 else o for o in io]
    except Exception:
        return False


def ro_nontrivial(case, out):
    # non-trivial: the directory does not fit the configured size at some point of a read-only phase,
    # or a lookup was served, or a store was attempted
    try:
        for obs in out[1:]:
            if any(r in (b'hit', b'found', b'refused_wrapper', b'refused_cache', b'ok') for r in obs[0]):
                return True
    except Exception:
        return True
    return sum(f[1] for f in case[4]) > case[2]


def ro_stats(case, out):
    ks = ['mode=%s%s' % ('rw' if case[0] else 'ro', '+wrapper' if case[1] else ''),
          'fits=%d' % (1 if sum(f[1] for f in case[4]) <= case[2] else 0), 'files=%d' % len(case[4])]
    for it in case[5]:
        ks.append('item=' + it[0].decode())
    try:
        for obs in out[1:]:
            for r in obs[0]:
                ks.append('res=' + r.decode())
            if obs[1]:
                ks.append('mtime_touched')
    except Exception:
        pass
    return ks


def ro_shrink(case):
    rw, wrap, cap, ppsz, files, items = case
    for i in range(len(items)):
        yield [rw, wrap, cap, ppsz, files, items[:i] + items[i + 1:]]
    for i in range(len(files)):
        yield [rw, wrap, cap, ppsz, files[:i] + files[i + 1:], items]


def ro_neighbours(case):
    rw, wrap, cap, ppsz, files, items = case
    for c in (0, 20, 50, 60, 100, 10000):
        yield [0, wrap, c, ppsz, files, items]
        yield [0, 1 - wrap, c, ppsz, files, items]
    for k in KEYS:
        yield [0, wrap, cap, ppsz, files, [[b'get', k], [b'ppget', k]] + items]


# ---------------------------------------------------------------- configuration leg

ENV_DIR = [[], [b'/e/dir']]
ENV_SIZE = [[], [b'100'], [b'2K'], [b'bogus']]
ENV_DIRECT = [[], [b'true'], [b'OFF'], [b'0'], [b'maybe']]
ENV_MODE = [[], [b'READ_ONLY'], [b'READ_WRITE'], [b'read_only']]
FILE_PP = [[], [[[], [], [], [], [], []]], [[[1], [], [], [], [], []]], [[[0], [], [], [1], [], []]],
           [[[1], [1], [0], [1], [1], [0]]]]


def gen_config():
    files = [[b'nofile'], [b'nosection']]
    for d in ([], [b'/f/dir']):
        for s in ([], [555]):
            for m in ([], [b'ro'], [b'rw']):
                for p in FILE_PP:
                    files.append([b'disk', d, s, m, p])
    out = []
    for f in files:
        for e in itertools.product(ENV_DIR, ENV_SIZE, ENV_DIRECT, ENV_MODE):
            out.append([f, list(e)])
    return out


def parse_size(v):
    mult = {b'K': 1024, b'M': 1024 ** 2, b'G': 1024 ** 3, b'T': 1024 ** 4}.get(v[-1:], 1)
    body = v[:-1] if mult > 1 else v
    if body[:1] == b'+':
        body = body[1:]
    return int(body) * mult if body.isdigit() else None


def config_expect(case):
    """documented precedence, written down independently of the model: every variable overrules the
    file for ITS setting; the rest of [cache.disk] stays in effect; absent settings take their defaults"""
    f, (edir, esize, edirect, emode) = case
    dirv, size, mode = b'default', 10 * 1024 ** 3, b'rw'
    pp = [1, 0, 1, 0, 0, 1]
    if f[0] == b'disk':
        if f[1]:
            dirv = f[1][0]
        if f[2]:
            size = f[2][0]
        if f[3]:
            mode = f[3][0]
        if f[4]:
            pp = [0, 0, 1, 0, 0, 1]
            for i, o in enumerate(f[4][0]):
                if o:
                    pp[i] = o[0]
    if edirect:
        v = edirect[0].lower()
        if v in (b'true', b'on', b'1'):
            pp[0] = 1
        elif v in (b'false', b'off', b'0'):
            pp[0] = 0
        else:
            return None
    if edir:
        dirv = edir[0]
    if esize and parse_size(esize[0]) is not None:
        size = parse_size(esize[0])
    if emode and emode[0] in (b'READ_ONLY', b'READ_WRITE'):
        mode = b'ro' if emode[0] == b'READ_ONLY' else b'rw'
    return dirv, size, mode, pp


def config_monitor(case, out):
    vs = []
    exp = config_expect(case)
    if exp is None:
        return [] if out == [b'error'] else ['an invalid SCCACHE_DIRECT was accepted: %s' % out]
    if not isinstance(out, list) or len(out) != 7 or out[0] != b'ok':
        return ['configuration did not load: %s' % out]
    _, dirv, size, mode, pp, st_mode, st_pp = out
    f, (edir, esize, edirect, emode) = case
    says_ro = (f[0] == b'disk' and f[3] == [b'ro']) or emode == [b'READ_ONLY']
    if says_ro and emode != [b'READ_WRITE'] and (mode != b'ro' or st_mode != b'ro'):
        vs.append('READ_ONLY was configured (file %s, env %s) and not overruled by SCCACHE_LOCAL_RW_MODE=READ_WRITE, '
                  'but the effective mode is %s / storage %s: the read-only cache will be written to' % (f, emode, mode, st_mode))
    if (dirv, size, mode, pp) != exp:
        vs.append('effective disk-cache configuration %s differs from the documented precedence %s'
                  % ((dirv, size, mode, pp), exp))
    if st_mode != mode or st_pp != pp[0]:
        vs.append('storage_from_config did not pass the configuration on: mode %s/%s pp %s/%s' % (mode, st_mode, pp[0], st_pp))
    return vs


def config_stats(case, out):
    f, e = case
    return ['file=' + f[0].decode(), 'envvars=%d' % sum(1 for x in e if x),
            'result=' + (out[0].decode() if isinstance(out, list) and out and isinstance(out[0], bytes) else '?')]


# ---------------------------------------------------------------- concurrent lookups leg

BALLAST = 6000   # empty directories that make the real directory scan take tens of milliseconds


def gen_conc(rng, n):
    out = []
    for ci in range(n):
        keys = rng.shuffle(KEYS)
        present = keys[:rng.range(2, 4)]
        files = []
        mts = rng.shuffle(list(range(1, 2 * len(present) + 1)))
        for i, k in enumerate(present):
            files.append([main_path(k), rng.choice([22, 30, 60]), mts[2 * i], 2 * i + 1])
            if rng.chance(2, 3):
                files.append([pp_path(k), rng.choice(PP_SIZES), mts[2 * i + 1], 2 * i + 2])
        total = sum(f[1] for f in files)
        fits = not rng.chance(1, 5)
        cap = total + rng.choice([0, 1, 1000]) if fits else max(total // 2, 22)
        lookups = []
        for _ in range(rng.range(4, 8)):
            k = rng.choice(present) if rng.chance(4, 5) else rng.choice(keys)
            # when the directory does not fit, which entries are indexed depends on mtimes that lookups of the
            # OTHER store move: keep those cases to one store so that the answers do not depend on the schedule
            lookups.append([b'ppget' if fits and rng.chance(1, 4) else b'get', k])
        nthr = len(lookups)
        sched = [rng.below(nthr) for _ in range(rng.range(1, 30))]
        out.append([1 if rng.chance(3, 4) else 0, cap, files, lookups, sched, rng.below(7), BALLAST])
    return out


def conc_monitor(case, out):
    """The property on the real DiskCache: every simultaneous lookup of an entry that is in the read-only
    cache (which fits its size) is served, also the ones that arrive while the cache is still being opened;
    absent entries miss; the tree is unchanged."""
    wrap, cap, files, lookups, sched, scan, ballast = case
    if not isinstance(out, list) or len(out) != 3 or len(out[0]) != len(lookups) or len(out[1]) != len(lookups):
        return ['malformed implementation output: %s' % (out,)]
    burst, again, same = out
    vs = []
    for phase, answers in (('simultaneous', burst), ('repeated', again)):
        for i, a in enumerate(answers):
            if a in (b'hung', b'panic'):
                vs.append('%s lookup %d %s: %s: no answer within 5 s' % (phase, i, lookups[i], a.decode()))
    if vs:
        return vs
    present = {f[0]: f[1] for f in files}
    fits = sum(present.values()) <= cap
    for phase, answers in (('issued simultaneously right after the read-only cache was started', burst),
                           ('repeated afterwards', again)):
        for i, ((t, k), a) in enumerate(zip(lookups, answers)):
            p = main_path(k) if t == b'get' else pp_path(k)
            good, bad = (b'hit', b'miss') if t == b'get' else (b'found', b'none')
            if p in present and fits and (t != b'get' or present[p] >= 22) and a != good:
                vs.append('lookup %d (%s %s) %s: the entry is in the cache but the answer was %s'
                          % (i, t.decode(), k.decode(), phase, a.decode()))
            if p not in present and a != bad:
                vs.append('lookup %d (%s %s) %s: absent entry answered %s' % (i, t.decode(), k.decode(), phase, a.decode()))
    if same != 1:
        vs.append('the read-only cache directory changed during concurrent lookups')
    return vs


def conc_stats(case, out):
    ks = ['threads=%d' % len(case[3]), 'fits=%d' % (1 if sum(f[1] for f in case[2]) <= case[1] else 0), 'scan=%d' % case[5]]
    try:
        for a in out[0]:
            ks.append('burst=' + a.decode())
    except Exception:
        pass
    return ks


def conc_shrink(case):
    wrap, cap, files, lookups, sched, scan, ballast = case
    for i in range(len(lookups)):
        if len(lookups) > 2:
            yield [wrap, cap, files, lookups[:i] + lookups[i + 1:], [t for t in sched if t < len(lookups) - 1], scan, ballast]
    for i in range(len(files)):
        yield [wrap, cap, files[:i] + files[i + 1:], lookups, sched, scan, ballast]


def legs(tier):
    def gen_ro(rng, tier):
        if tier == 'thorough':
            return gen_exhaustive(4) + gen_random(rng, 30000, 25)
        return gen_exhaustive(3) + gen_random(rng, 2500, 20)

    return [
        Leg('ro', gen_ro, monitor=ro_monitor, nontrivial=ro_nontrivial, shrink=ro_shrink, neighbours=ro_neighbours,
            stats=ro_stats, compare=ro_compare,
            rule='every history of depth<=3 (thorough 4) over an 8-item alphabet x {DiskCache, ReadOnlyStorage(DiskCache)} against '
                 'a populated directory larger than the configured size, + PRNG histories (gets, puts, preprocessor gets/puts, '
                 'restarts with other mode/size, whole requests) over random populated directories (result entries, preprocessor '
                 'entries, stale temp files, stray files; sizes around the capacity); non-trivial = a lookup was served or a store '
                 'attempted or the directory does not fit the size'),
        Leg('conc', lambda rng, tier: gen_conc(rng, 48 if tier == 'thorough' else 12), monitor=conc_monitor,
            stats=conc_stats, shrink=conc_shrink, shards=4,
            rule='4-8 simultaneous lookups (result and preprocessor store, present and absent keys) right after a read-only '
                 'DiskCache / ReadOnlyStorage(DiskCache) was created over a populated directory with %d ballast directories '
                 '(scan takes tens of ms; the other lookups arrive 3 ms after the first), then the same lookups sequentially; '
                 'model run under a PRNG schedule + scan length, answers are schedule-independent' % BALLAST),
        # the same two legs with a logger installed at Trace in the harness process (VERIF_LOG=trace): the arguments
        # of every trace!()/debug!() on the storage paths are then evaluated.  Until the harness crate depends on `log`
        # (see the report / /tmp/strengthen/C15-harness-log.diff) the variable is ignored and these legs repeat ro/conc.
        Leg('ro_trace', lambda rng, tier: gen_exhaustive(2) + gen_random(rng, 600 if tier == 'thorough' else 150, 20),
            monitor=ro_monitor, nontrivial=ro_nontrivial, shrink=ro_shrink, stats=ro_stats, compare=ro_compare,
            model_leg='ro', impl_args=['ro'], impl_env={'VERIF_LOG': 'trace'},
            rule='leg ro (depth<=2 exhaustive + PRNG histories) with the log level of the configuration at trace; every storage '
                 'call under a 5 s no-answer timeout reported as `hung`'),
        Leg('conc_trace', lambda rng, tier: gen_conc(rng, 12 if tier == 'thorough' else 6), monitor=conc_monitor,
            stats=conc_stats, shrink=conc_shrink, shards=4, model_leg='conc', impl_args=['conc'],
            impl_env={'VERIF_LOG': 'trace'}, rule='leg conc with the log level at trace'),
        Leg('config', lambda rng, tier: gen_config(), monitor=config_monitor, stats=config_stats,
            rule='EXHAUSTIVE: 62 file settings (no file, no section, [cache.disk] with dir/size/rw_mode/preprocessor sub-table '
                 'variants) x 160 environments (each of the 4 variables unset / valid values / invalid value)'),
    ]


# ---------------------------------------------------------------- end-to-end leg (real server, real gcc)

def _listing(root):
    """(files {rel: (size, sha256)}, dirs [rel]) of a directory tree"""
    import hashlib
    import os
    files, dirs = {}, []
    for base, dn, fn in os.walk(root):
        for d in dn:
            dirs.append(os.path.relpath(os.path.join(base, d), root))
        for f in fn:
            p = os.path.join(base, f)
            try:
                data = open(p, 'rb').read()
            except OSError:
                data = b''
            files[os.path.relpath(p, root)] = (len(data), hashlib.sha256(data).hexdigest())
    return files, sorted(dirs)


def _server_pids(port):
    """live (non-zombie) sccache server processes of this leg: /proc scan for our port in the environment"""
    import os
    out = []
    needle = ('SCCACHE_SERVER_PORT=%d' % port).encode()
    for pid in os.listdir('/proc'):
        if not pid.isdigit():
            continue
        try:
            env = open('/proc/%s/environ' % pid, 'rb').read().split(b'\0')
            if needle not in env or b'SCCACHE_START_SERVER=1' not in env:
                continue
            st = open('/proc/%s/stat' % pid).read()
            if st[st.rindex(')') + 2] == 'Z':
                continue
            out.append(int(pid))
        except (OSError, ValueError):
            continue
    return out


def _free_port(start):
    import socket
    p = start
    while True:
        s = socket.socket()
        try:
            s.bind(('127.0.0.1', p))
            s.close()
            return p
        except OSError:
            p += 1
        finally:
            s.close()


class _E2E:
    def __init__(self, work, port, sccache):
        import os
        self.work, self.port, self.sccache = work, port, sccache
        self.src = os.path.join(work, 'src')
        self.cache = os.path.join(work, 'cache')
        os.makedirs(self.src)
        os.makedirs(self.cache)
        self.base_env = {k: v for k, v in os.environ.items() if not k.startswith('SCCACHE_')}
        self.base_env.update({'SCCACHE_SERVER_PORT': str(port), 'SCCACHE_IDLE_TIMEOUT': '0',
                              'SCCACHE_CONF': os.path.join(work, 'no-such-config'),
                              'SCCACHE_CACHED_CONF': os.path.join(work, 'cached-config'),
                              'HOME': work, 'XDG_CACHE_HOME': os.path.join(work, 'xdg')})

    def run(self, args, env=None, cwd=None, timeout=20):
        """rc is None when the command did not return within [timeout] seconds (it is killed)"""
        import subprocess
        e = dict(self.base_env)
        if env:
            e.update(env)
        try:
            p = subprocess.run(args, env=e, cwd=cwd or self.src, stdout=subprocess.PIPE, stderr=subprocess.PIPE, timeout=timeout)
        except subprocess.TimeoutExpired:
            return None, b'', b'no answer within %d s' % timeout
        return p.returncode, p.stdout, p.stderr

    def start(self, env):
        rc, so, se = self.run([self.sccache, '--start-server'], env)
        if rc != 0:
            raise RuntimeError('server did not start: %r %r' % (so, se))
        self.server_env = env

    def stop(self):
        import os
        import signal
        import time
        self.run([self.sccache, '--stop-server'], self.server_env, timeout=10)
        for _ in range(30):
            if not _server_pids(self.port):
                return
            time.sleep(0.1)
        for pid in _server_pids(self.port):
            try:
                os.kill(pid, signal.SIGKILL)
            except OSError:
                pass

    def stats(self):
        import json
        rc, so, se = self.run([self.sccache, '--show-stats', '--stats-format', 'json'], self.server_env, timeout=10)
        try:
            return json.loads(so.decode())['stats']
        except Exception:
            return {}

    def compile(self, name, out, extra_env=None, flags=()):
        return self.run([self.sccache, 'gcc'] + list(flags) + ['-c', name, '-o', out], extra_env)


def _count(stat):
    if isinstance(stat, dict):
        return sum(stat.get('counts', {}).values())
    return 0


def extra(rep, known):
    """real server in read-only mode (environment variable; config file; config file + SCCACHE_DIR) against a
    cache populated read-write: hits, misses, compile failures, SCCACHE_RECACHE, preprocessor mode on/off,
    changed header; recursive listing (size + sha256) before/after every request; outputs compared with gcc."""
    import os
    import shutil
    import time
    from .. import pipeline
    ok, out = pipeline.build_repo_bins(['sccache'])
    rep.oblige('build:sccache', ok, out[-2000:] if not ok else 'cargo build --offline --bin sccache (hooks on)')
    if not ok:
        return
    if not shutil.which('gcc'):
        rep.notes.append('e2e leg skipped: no gcc')
        return
    sccache = pipeline.repo_bin('sccache')
    work = '/dev/shm/c15-e2e-%d' % os.getpid()
    shutil.rmtree(work, ignore_errors=True)
    os.makedirs(work)
    port = _free_port(21000 + os.getpid() % 20000)
    e = _E2E(work, port, sccache)
    violations = []
    nreq = 0
    try:
        for n, body in (('a', 'int fa(int x) { return x + H; }\n'), ('b', 'int fb(int x) { return x * H; }\n'),
                        ('c', 'int fc(int x) { return x - H; }\n'), ('d', 'int fd(int x) { return x ^ H; }\n')):
            open(os.path.join(e.src, n + '.c'), 'w').write('#include "hdr.h"\n' + body)
        open(os.path.join(e.src, 'bad.c'), 'w').write('#include "hdr.h"\nint broken( { return H }\n')
        open(os.path.join(e.src, 'hdr.h'), 'w').write('#define H 11\n')
        old = time.time() - 10
        for f in os.listdir(e.src):
            os.utime(os.path.join(e.src, f), (old, old))
        outd = os.path.join(work, 'out')
        direct = os.path.join(work, 'direct')
        os.makedirs(outd)
        os.makedirs(direct)

        def gcc(name, flags=()):
            import subprocess
            o = os.path.join(direct, name + '.o')
            p = subprocess.run(['gcc'] + list(flags) + ['-c', name + '.c', '-o', o], cwd=e.src, stdout=subprocess.PIPE, stderr=subprocess.PIPE)
            return p.returncode, (open(o, 'rb').read() if p.returncode == 0 else None), p.stderr

        # ---- populate read-write, preprocessor mode on
        rw_env = {'SCCACHE_DIR': e.cache}
        e.start(rw_env)
        for n, cenv in (('a', {}), ('b', {}), ('b', {'SCCACHE_DIRECT': 'false'})):
            # (the result key differs between preprocessor-cache mode on and off: populate both for b.c)
            rc, so, se = e.compile(n + '.c', os.path.join(outd, n + '.o'), cenv)
            if rc != 0:
                raise RuntimeError('populate failed: %r' % se)
        st = e.stats()
        e.stop()
        open(os.path.join(e.cache, '.sccachetmpSTALE'), 'wb').write(b'x' * 100)
        os.makedirs(os.path.join(e.cache, 'preprocessor'), exist_ok=True)
        open(os.path.join(e.cache, 'preprocessor', '.sccachetmpSTALE2'), 'wb').write(b'y' * 10)
        files0, dirs0 = _listing(e.cache)
        total = sum(s for s, _ in files0.values())
        entries = [f for f in files0 if not f.startswith('preprocessor') and '.sccachetmp' not in f]
        ppentries = [f for f in files0 if f.startswith('preprocessor') and '.sccachetmp' not in f]
        rep.count('e2e.populated_entries', len(entries))
        rep.count('e2e.populated_pp_entries', len(ppentries))
        if len(entries) < 2 or not ppentries:
            raise RuntimeError('populating the cache read-write left %d entries, %d preprocessor entries' % (len(entries), len(ppentries)))

        conf = os.path.join(work, 'config')
        other = os.path.join(work, 'other-dir')

        def conf_text(d, size):
            return '[cache.disk]\ndir = "%s"\nsize = %d\nrw_mode = "READ_ONLY"\n' % (d, size)

        big, small = total + 10 ** 6, max(total // 3, 1)
        scenarios = [
            ('env READ_ONLY, size fits', {'SCCACHE_DIR': e.cache, 'SCCACHE_LOCAL_RW_MODE': 'READ_ONLY', 'SCCACHE_CACHE_SIZE': str(big)}, None, True),
            ('env READ_ONLY, size smaller than the cache (S12)', {'SCCACHE_DIR': e.cache, 'SCCACHE_LOCAL_RW_MODE': 'READ_ONLY', 'SCCACHE_CACHE_SIZE': str(small)}, None, False),
            ('config file rw_mode=READ_ONLY, no environment', {'SCCACHE_CONF': conf}, conf_text(e.cache, big), True),
            ('config file rw_mode=READ_ONLY, smaller size', {'SCCACHE_CONF': conf}, conf_text(e.cache, small), False),
            ('config file rw_mode=READ_ONLY + SCCACHE_DIR in the environment (S20)', {'SCCACHE_CONF': conf, 'SCCACHE_DIR': e.cache}, conf_text(other, big), True),
        ]
        # the log level is part of the configuration: any trace directive (for any module) raises the global
        # level, and then the arguments of every trace!() in the request path are evaluated
        ro_env = {'SCCACHE_DIR': e.cache, 'SCCACHE_LOCAL_RW_MODE': 'READ_ONLY'}
        slog = os.path.join(work, 'server.log')
        scenarios += [
            ('env READ_ONLY, size fits, SCCACHE_LOG=trace', dict(ro_env, SCCACHE_CACHE_SIZE=str(big), SCCACHE_LOG='trace', SCCACHE_ERROR_LOG=slog), None, True),
            ('config file rw_mode=READ_ONLY, SCCACHE_LOG=sccache::server=trace', {'SCCACHE_CONF': conf, 'SCCACHE_LOG': 'sccache::server=trace', 'SCCACHE_ERROR_LOG': slog}, conf_text(e.cache, big), True),
            ('env READ_ONLY, size smaller than the cache, SCCACHE_LOG=debug,sccache::cache=trace', dict(ro_env, SCCACHE_CACHE_SIZE=str(small), SCCACHE_LOG='debug,sccache::cache=trace', SCCACHE_ERROR_LOG=slog), None, False),
        ]
        for title, env, ctext, fits in scenarios:
            if ctext is not None:
                open(conf, 'w').write(ctext)
            e.start(env)
            hung = False
            before = e.stats()
            reqs = [
                ('hit a.c', 'a', {}, (), True),
                ('hit b.c, preprocessor mode off', 'b', {'SCCACHE_DIRECT': 'false'}, (), True),
                ('miss c.c', 'c', {}, (), False),
                ('miss d.c, preprocessor mode off', 'd', {'SCCACHE_DIRECT': 'false'}, (), False),
                ('compile failure bad.c', 'bad', {}, (), False),
                ('forced recache a.c', 'a', {'SCCACHE_RECACHE': '1'}, (), False),
                ('miss a.c with other flags', 'a', {}, ('-O2',), False),
            ]
            for what, n, cenv, flags, expect_hit in reqs:
                h0 = _count(e.stats().get('cache_hits'))
                o = os.path.join(outd, 'x.o')
                if os.path.exists(o):
                    os.remove(o)
                rc, so, se = e.compile(n + '.c', o, cenv, flags)
                nreq += 1
                rep.count('e2e.request=' + what.split(' ')[0])
                if rc is None:
                    violations.append('%s / %s: hung: the request got no answer within 20 s (neither served nor compiled); '
                                      'requests before it in this session: %s' % (title, what, [r[0] for r in reqs[:reqs.index((what, n, cenv, flags, expect_hit))]]))
                    hung = True
                    break
                grc, gobj, gse = gcc(n, flags)
                if (rc == 0) != (grc == 0):
                    violations.append('%s / %s: exit status %d, gcc alone %d (%r)' % (title, what, rc, grc, se[-300:]))
                elif rc == 0 and open(o, 'rb').read() != gobj:
                    violations.append('%s / %s: object differs from a direct gcc run' % (title, what))
                elif rc != 0 and se != gse:
                    violations.append('%s / %s: diagnostics differ from a direct gcc run' % (title, what))
                files1, dirs1 = _listing(e.cache)
                if files1 != files0 or dirs1 != dirs0:
                    gone = sorted(set(files0) - set(files1))
                    new = sorted(set(files1) - set(files0))
                    chg = sorted(f for f in files0 if f in files1 and files0[f] != files1[f])
                    violations.append('%s / %s: the read-only cache directory changed: removed %s added %s modified %s new dirs %s'
                                      % (title, what, gone[:5], new[:5], chg[:5], sorted(set(dirs1) - set(dirs0))[:5]))
                    files0, dirs0 = files1, dirs1  # report each change once
                h1 = _count(e.stats().get('cache_hits'))
                if expect_hit and fits and h1 != h0 + 1:
                    violations.append('%s / %s: an entry of the read-only cache was not served as a hit' % (title, what))
                if expect_hit and fits and h1 == h0 + 1:
                    rep.count('e2e.hits_served')
            if hung:
                e.stop()
                rep.traces += 1
                continue
            # header changed: manifest no longer matches -> preprocess, update attempt refused
            hp = os.path.join(e.src, 'hdr.h')
            open(hp, 'w').write('#define H 12\n')
            os.utime(hp, (old, old))
            rc, so, se = e.compile('a.c', os.path.join(outd, 'x.o'))
            nreq += 1
            grc, gobj, _ = gcc('a')
            if rc is None:
                violations.append('%s / changed header: hung: the request got no answer within 20 s' % title)
            elif rc != 0 or open(os.path.join(outd, 'x.o'), 'rb').read() != gobj:
                violations.append('%s / changed header: object differs from a direct gcc run' % title)
            open(hp, 'w').write('#define H 11\n')
            os.utime(hp, (old, old))
            e.stop()
            files1, dirs1 = _listing(e.cache)
            if files1 != files0 or dirs1 != dirs0:
                violations.append('%s: the read-only cache directory changed by the end of the session: removed %s added %s'
                                  % (title, sorted(set(files0) - set(files1))[:5], sorted(set(files1) - set(files0))[:5]))
                files0, dirs0 = files1, dirs1
            if os.path.exists(other) and os.listdir(other):
                violations.append('%s: entries were written to the directory named in the config file' % title)
            rep.traces += 1
    finally:
        try:
            e.stop()
        except Exception:
            pass
        shutil.rmtree(work, ignore_errors=True)
    rep.legs['e2e'] = dict(cases=nreq, violations=len(violations), scenarios=8)
    rep.evaluations += nreq
    rep.rule.append('e2e: 8 read-only configurations (env / file / file+SCCACHE_DIR; size fitting and smaller than the cache; SCCACHE_LOG unset, trace, '
                    'a trace directive for one module; every request under a 20 s no-answer timeout) x 8 '
                    'gcc requests (hit, hit with preprocessor mode off, miss, miss with preprocessor mode off, compile failure, '
                    'SCCACHE_RECACHE, other flags, changed header) against a cache populated read-write with stale temp files')
    for v in violations[:5]:
        rep.violation('property', 'e2e', 'e2e: ' + v.split(':')[0], v)
    rep.oblige('e2e:read-only-sessions', not violations, '%d requests, %d violations' % (nreq, len(violations)))
