"""C16 — compiler processes are bounded by the job-token pool and tokens never leak."""
import itertools
import os
import shutil
import signal
import socket
import subprocess
import time

from .. import pipeline, sx
from ..pipeline import Leg

ID = 'C16'
HARNESS_BIN = 'c16'
RUN_MODULE = 'Run.C16'
# the generated side conditions (Gen/C16Startup_ok.v, Gen/C16Acquire_ok.v) are compiled by translate() as obligations of
# their own, so that a broken one does not keep the model from being built and the legs from finding a failing input
SIDE_CONDITIONS = ['Gen.C16Startup_ok', 'Gen.C16Acquire_ok']
REPO_BINS = ['sccache']
THEOREMS = ['C16_conservation', 'C16_bound', 'C16_bound_live', 'C16_no_leak', 'C16_no_leak_cancelled_waiter',
            'C16_no_leak_quiescent', 'C16_release_at_process_exit', 'C16_eof_moves_no_token', 'C16_next_runs_without_eof',
            'C16_server_client_owns_its_pool', 'C16_every_acquired_holds_a_token', 'C16_pool_survives_startup',
            'C16_start_needs_token', 'C16_token_only_by_receive', 'C16_slot_only_by_hand_over',
            'C16_full_parallelism_restored', 'C16_fifo', 'C16_never_stuck', 'C16_progress']
ASSUMPTIONS = [
    'the token is released when the compiler PROCESS exits (Child::wait), not when its stdout/stderr reach EOF: a process it '
    'started may keep the pipes open; the request then stays open (model: draining) without a token',
    'Client::new() ignores the build jobserver named by MAKEFLAGS / CARGO_MAKEFLAGS / MFLAGS (fifo or fd pair): the server '
    'always owns a pool of num_cpus tokens; the env leg and the e2e run with a live fifo jobserver in the environment tie this',
    'PARTIAL: the `jobserver` crate\'s pipe is a counter of tokens (a read takes one, a write returns one); read errors on '
    'it are not modelled',
    'PARTIAL: tokens that compilers take for themselves from the inherited pipe (rustc codegen threads) are not modelled; '
    'a compiler killed while it holds such a token loses it (jobserver protocol, outside sccache)',
    'C16_progress: weak fairness of the helper thread (an enabled helper step is eventually taken) and "every token '
    'outside the pipe is eventually given back" (each running process eventually exits, each delivered token is eventually '
    'received or its request dropped)',
    'a `Child` dropped before `wait` completes releases its token but the process is NOT killed (tokio kill_on_drop is '
    'off): C16_bound_live counts such orphans separately; the server drops a `Child` early only on error paths '
    '(try_join failures) and at shutdown',
]
TRUSTED = [
    'hooks: Client::verif_unlimited (no helper thread / channel: acquire() hands out empty Acquireds), '
    'Acquired::verif_has_token; discard_inherited_jobserver is called by the env leg exactly as daemonize() does',
    'hook: jobserver::verif_trace (callback at request / helper_acquire / deliver / delivered / receive / cancel / release; '
    'under the cfg the [emit, request_token, send] step of acquire() is serialised by a mutex so that the emitted order of '
    'requests is the FIFO order), Client::verif_available (FIONREAD on the pipe), cfg-only `impl Drop for Acquired` that '
    'emits "release" before the token goes back',
    'trace acceptance: events are emitted BEFORE a token is written back and AFTER a token was read, so the recorded order '
    'is one the real pipe allows; the harness bookkeeping (phase table) is used only to wait for the helper to come to rest '
    'and to name a release (drop_held / spawn_fail / exit / drop_running)',
]

# ---------------------------------------------------------------- reading traces


def ev_tag(e):
    return e[0].decode() if isinstance(e, list) and e and isinstance(e[0], bytes) else '?'


class Book:
    """The property's predicates evaluated directly on a recorded event sequence of the REAL Client."""

    def __init__(self, k):
        self.k = k
        self.queue = []        # requested, not yet popped by the helper
        self.gone = set()
        self.slot = set()
        self.held = set()      # Acquired / Child alive
        self.running = set()
        self.draining = set()  # process ended, token back, pipes not at EOF yet
        self.hand = 0
        self.out = 0           # tokens taken from the pipe and not yet given back (by the events)
        self.max_held = 0
        self.max_running = 0
        self.contended = False
        self.vs = []
        self.ended = {}
        self.requested = []

    def feed(self, e, where=''):
        t = ev_tag(e)
        r = e[1] if len(e) > 1 else None
        if t == 'request':
            self.queue.append(r)
            self.requested.append(r)
            if self.out >= self.k:
                self.contended = True
        elif t == 'helper_acquire':
            self.hand += 1
            self.out += 1
        elif t == 'deliver':
            self.hand -= 1
            if not self.queue:
                self.vs.append('%s: token handed over with nobody queued' % where)
                return
            h = self.queue.pop(0)
            if h in self.gone:
                self.gone.discard(h)
                self.out -= 1
            else:
                self.slot.add(h)
        elif t == 'receive':
            if r not in self.slot:
                self.vs.append('%s: request %s was granted a token out of FIFO order (not the head of the queue)' % (where, r))
                if r in self.queue:
                    self.queue.remove(r)
            self.slot.discard(r)
            self.held.add(r)
        elif t == 'cancel':
            if r in self.slot:
                self.slot.discard(r)
                self.out -= 1
            else:
                self.gone.add(r)
            self.ended[r] = t
        elif t in ('drop_held', 'spawn_fail', 'exit', 'drop_running'):
            if r not in self.held:
                self.vs.append('%s: %s %s without a token' % (where, t, r))
            self.held.discard(r)
            self.running.discard(r)
            self.out -= 1
            self.ended[r] = t
            if t == 'exit':
                self.draining.add(r)
        elif t == 'done':
            if r not in self.draining:
                self.vs.append('%s: request %s ended before its process' % (where, r))
            self.draining.discard(r)
        elif t == 'start':
            if r not in self.held:
                self.vs.append('%s: process %s started without a token' % (where, r))
            self.running.add(r)
        else:
            what = {b'token_not_back_after_process_exit':
                    'the compiler process has exited but its job token did not come back within the bound '
                    '(something it started still holds its stdout/stderr; the token must not wait for that)',
                    b'token_held_without_process_or_spawn_error':
                    'a request holds a job token but neither started its compiler process nor reported the spawn failure '
                    'within the bound (the executable cannot be started: the token must go back at once)',
                    b'hung_process_never_exited_request_keeps_its_token':
                    'a compiler process that only sleeps a few ms and writes its output never exited within the bound (it is '
                    'blocked, e.g. writing to a pipe the server does not drain): the request never ends and keeps its job token',
                    b'token_released_while_process_runs': 'the job token was given back while the compiler process was still running',
                    }.get(e[1] if len(e) > 1 else b'', None)
            self.vs.append('%s: %s' % (where, what or ('unexpected event ' + sx.dumps(e))))
        self.max_held = max(self.max_held, len(self.held))
        self.max_running = max(self.max_running, len(self.running))
        if len(self.held) > self.k:
            self.vs.append('%s: %d tokens held at once with a pool of %d' % (where, len(self.held), self.k))
        if len(self.running) > self.k:
            self.vs.append('%s: %d compiler processes at once with %d tokens' % (where, len(self.running), self.k))
        if self.out > self.k or self.out < 0:
            self.vs.append('%s: %d tokens outside a pipe of %d' % (where, self.out, self.k))

    def in_flight(self):
        return self.hand + len(self.slot)


# ---------------------------------------------------------------- deterministic leg

def gen_det(rng, n, maxlen):
    out = []
    for _ in range(n):
        k = rng.weighted([(1, 4), (2, 4), (3, 2), (4, 1)])
        ops = []
        nxt = 1
        used = []
        for _ in range(rng.range(1, maxlen)):
            kind = rng.weighted([('req', 8), ('poll', 3), ('advance', 2), ('wait', 3), ('finish', 1), ('drop', 6)])
            if kind == 'req':
                if used and rng.chance(1, 8):
                    r = rng.choice(used)
                else:
                    r = nxt
                    nxt += 1
                    used.append(r)
                ops.append([b'req', r, rng.weighted([(0, 8), (1, 2), (2, 1), (3, 1), (4, 2), (5, 2), (6, 1), (7, 1), (8, 1), (9, 1), (10, 1), (11, 1), (12, 3), (13, 1)])])
            elif kind == 'poll':
                ops.append([b'poll'])
            elif kind == 'advance':
                ops.append([b'advance', rng.choice([1, 29, 31, 61, 600, 86400])])
            else:
                r = rng.choice(used) if used and not rng.chance(1, 12) else nxt + 3
                ops.append([kind.encode(), r])
        out.append([k, ops])
    return out


def gen_det_exhaustive(depth):
    alpha = [[b'req', 1, 0], [b'req', 2, 0], [b'req', 3, 3], [b'poll'], [b'drop', 1], [b'drop', 2]]
    out = []
    for d in range(1, depth + 1):
        for seq in itertools.product(alpha, repeat=d):
            out.append([1, [list(o) for o in seq]])
    # a process-flavoured alphabet at a smaller depth (each process costs ~15 ms)
    alpha2 = [[b'req', 1, 1], [b'req', 2, 2], [b'req', 3, 0], [b'poll'], [b'wait', 1], [b'drop', 2], [b'drop', 1]]
    for d in range(1, min(depth, 3) + 1):
        for seq in itertools.product(alpha2, repeat=d):
            out.append([1, [list(o) for o in seq]])
    # waiting time: the clock jumps ahead while requests queue behind running processes
    alpha5 = [[b'req', 1, 1], [b'req', 2, 1], [b'req', 3, 2], [b'req', 4, 0], [b'advance', 31], [b'advance', 3600], [b'wait', 1],
              [b'wait', 2], [b'drop', 4]]
    for d in range(1, min(depth, 3) + 1):
        for seq in itertools.product(alpha5, repeat=d):
            if any(o[0] == b'advance' for o in seq):
                out.append([1, [list(o) for o in seq]])
    # compilers that cannot be started: busy executable (ETXTBSY), not executable, a directory, bad interpreter
    alpha4 = [[b'req', 1, 12], [b'req', 2, 9], [b'req', 3, 10], [b'req', 4, 11], [b'req', 5, 1], [b'req', 6, 0], [b'poll'],
              [b'wait', 5], [b'drop', 6]]
    for d in range(1, min(depth, 3) + 1):
        for seq in itertools.product(alpha4, repeat=d):
            out.append([1, [list(o) for o in seq]])
    # compilers that exit (0 / 1) while something they started keeps their stdout+stderr
    alpha3 = [[b'req', 1, 4], [b'req', 2, 5], [b'req', 3, 0], [b'poll'], [b'wait', 1], [b'wait', 2], [b'finish', 1],
              [b'drop', 1], [b'drop', 3]]
    for d in range(1, min(depth, 3) + 1):
        for seq in itertools.product(alpha3, repeat=d):
            if any(o[0] == b'wait' for o in seq):
                out.append([1, [list(o) for o in seq]])
    return out


def monitor_det(case, out):
    k, ops = case
    if isinstance(out, list) and out and out[0] in (b'helper_died', b'panic'):
        if out[0] == b'helper_died':
            return ['the jobserver helper thread died (panicked) during this history: it is the only one that hands tokens to '
                    'waiting requests, so no request can obtain a token any more - the server cannot reach its parallelism again']
        return ['the code under test panicked: %s' % sx.dumps(out)[:300]]
    if not isinstance(out, list) or len(out) != len(ops):
        return ['malformed implementation output: %s' % sx.dumps(out)[:300]]
    b = Book(k)
    for i, step in enumerate(out):
        try:
            evs, (avail, nheld, nrun, npend, ndrain) = step
        except Exception:
            return ['malformed step %d' % i]
        for e in evs:
            b.feed(e, 'op %d %s' % (i, sx.dumps(ops[i])))
        # conservation against the REAL pipe (FIONREAD) and the objects the driver really holds
        if avail + b.in_flight() + nheld + nrun != k:
            b.vs.append('op %d %s: %d tokens in the pipe + %d in hand-off + %d held + %d in children != %d (token %s)'
                        % (i, sx.dumps(ops[i]), avail, b.in_flight(), nheld, nrun, k,
                           'leaked' if avail + b.in_flight() + nheld + nrun < k else 'duplicated'))
        if nheld + nrun > k:
            b.vs.append('op %d: %d tokens held with a pool of %d' % (i, nheld + nrun, k))
        if nheld + nrun != len(b.held):
            b.vs.append('op %d: driver holds %d tokens, events say %d' % (i, nheld + nrun, len(b.held)))
        # the helper is at rest here: a waiting request with a free token is a stuck request
        waiting = [r for r in b.queue if r not in b.gone]
        if waiting and avail > 0:
            b.vs.append('op %d: request %s waits although %d tokens are free' % (i, waiting[0], avail))
        if ndrain != len(b.draining):
            b.vs.append('op %d: %d requests wait for EOF, events say %d' % (i, ndrain, len(b.draining)))
        if nheld + nrun == 0 and npend == 0 and not b.queue and avail != k:
            b.vs.append('op %d: quiescent but only %d of %d tokens are back' % (i, avail, k))
    return b.vs


def stats_det(case, out):
    ks = ['k=%d' % case[0], 'len=%d' % min(len(case[1]), 30)]
    for op in case[1]:
        ks.append('op=' + op[0].decode() + (str(op[2]) if op[0] == b'req' else ''))
    try:
        for step in out:
            for e in step[0]:
                ks.append('ev=' + ev_tag(e))
    except Exception:
        pass
    return ks


def nontrivial_det(case, out):
    try:
        b = Book(case[0])
        for step in out:
            for e in step[0]:
                b.feed(e)
        return b.contended
    except Exception:
        return True


def shrink_ops(case):
    k, ops = case
    for i in range(len(ops)):
        yield [k, ops[:i] + ops[i + 1:]]


def neighbours_det(case):
    k, ops = case
    for i in range(1, len(ops)):
        yield [k, ops[i:] + ops[:i]]
    for kk in (1, 2, 3):
        if kk != k:
            yield [kk, ops]
    for i, op in enumerate(ops):
        if op[0] == b'req':
            for kind in (0, 1, 2, 3, 4, 5, 12):
                if kind != op[2]:
                    yield [k, ops[:i] + [[b'req', op[1], kind]] + ops[i + 1:]]


# ---------------------------------------------------------------- threaded leg (trace acceptance)

_accept_cache = {}


def model_accepts(k, evs):
    """Feed the OBSERVED trace to the extracted model's `accept`."""
    line = sx.dumps([k, evs])
    if line in _accept_cache:
        return _accept_cache[line]
    exe = os.path.join(pipeline.BUILD, 'modelrun-' + ID)
    p = subprocess.run([exe, 'accept'], input=(line + '\n').encode(), stdout=subprocess.PIPE, timeout=120)
    res = p.stdout.decode().strip()
    _accept_cache[line] = res
    return res


def compare_mt(m, i):
    if m.strip() != '(accepts)':
        return False
    try:
        o = sx.loads(i)
        k, evs = o[0], o[1]
        res = sx.loads(model_accepts(k, evs))
    except Exception:
        return False
    if res[0] != b'ok':
        return False
    # final model state: everything back in the pipe, nothing queued or held
    pool, reqs, hand, nq, ngone, nslots, nheld, nrun, _norph, ndrain = res[1]
    return pool == k and reqs == 0 and hand == 0 and nq == 0 and nslots == 0 and nheld == 0 and nrun == 0 and ndrain == 0


def gen_mt(rng, n, maxreq):
    out = []
    for _ in range(n):
        k = rng.weighted([(1, 3), (2, 4), (3, 3), (4, 1)])
        workers = rng.choice([1, 2, 4])
        reqs = []
        for i in range(rng.range(k + 1, maxreq)):
            kind = rng.weighted([(0, 6), (1, 3), (2, 2), (3, 1), (4, 2), (5, 2), (6, 1), (7, 1), (8, 1), (9, 1), (10, 1), (11, 1), (12, 3), (13, 1)])
            delay = rng.choice([0, 0, rng.below(3000), rng.below(12000)])
            dur = rng.range(1, 12)
            cancel = 0
            if rng.chance(2, 5):
                cancel = rng.choice([1, rng.range(50, 2000), rng.range(2000, 20000)])
            reqs.append([i + 1, delay, kind, dur, cancel])
        out.append([k, workers, reqs])
    return out


def monitor_mt(case, out):
    k, workers, reqs = case
    if isinstance(out, list) and out and out[0] in (b'helper_died', b'panic'):
        if out[0] == b'helper_died':
            return ['the jobserver helper thread died (panicked) during this history: it is the only one that hands tokens to '
                    'waiting requests, so no request can obtain a token any more - the server cannot reach its parallelism again']
        return ['the code under test panicked: %s' % sx.dumps(out)[:300]]
    try:
        ok, evs, avail, granted, early, late, avail_end, maxc, stuck, orphaned = out
    except Exception:
        return ['malformed implementation output: %s' % sx.dumps(out)[:300]]
    b = Book(k)
    for n, e in enumerate(evs):
        b.feed(e, 'event %d' % n)
    vs = list(b.vs)
    if stuck:
        vs.append('a request that was never cancelled did not obtain a token within the deadline (token leaked or hand-off stuck)')
    ids = [r[0] for r in reqs]
    plan = {r[0]: r for r in reqs}
    for r in ids:
        if r not in b.requested:
            if plan[r][4] == 0:
                vs.append('request %d never reached the jobserver' % r)
        elif r not in b.ended:
            vs.append('request %d neither finished nor was cancelled' % r)
    for r, how in b.ended.items():
        if r in plan and plan[r][4] == 0:
            want = {0: 'drop_held', 3: 'spawn_fail', 9: 'spawn_fail', 10: 'spawn_fail', 11: 'spawn_fail', 12: 'spawn_fail'}.get(plan[r][2], 'exit')
            if how != want:
                vs.append('request %d (never cancelled) ended by %s instead of %s' % (r, how, want))
    if b.draining and not stuck:
        vs.append('request(s) %s: the process has exited but the request never completed' % sorted(b.draining))
    if avail != k:
        vs.append('after all requests ended only %d of %d tokens are back in the pipe (leak)' % (avail, k))
    if granted != k:
        vs.append('saturating burst: only %d of %d acquisitions were granted (parallelism not restored)' % (granted, k))
    if early:
        vs.append('saturating burst: a %d-th acquisition was granted while %d tokens were held' % (k + 1, k))
    if not late:
        vs.append('saturating burst: the waiting acquisition was not granted after a release')
    if avail_end != k:
        vs.append('after the burst only %d of %d tokens are back' % (avail_end, k))
    if maxc > k:
        vs.append('%d children held tokens at once with a pool of %d' % (maxc, k))
    return vs


def stats_mt(case, out):
    ks = ['k=%d' % case[0], 'workers=%d' % case[1], 'n=%d' % len(case[2])]
    for r in case[2]:
        ks.append('kind=%d%s' % (r[2], '+cancel' if r[4] else ''))
    try:
        for e in out[1]:
            ks.append('ev=' + ev_tag(e))
        ks += ['child_dropped_while_process_still_running(orphan_without_token)'] * out[9]
    except Exception:
        pass
    return ks


def nontrivial_mt(case, out):
    try:
        b = Book(case[0])
        for e in out[1]:
            b.feed(e)
        return b.contended
    except Exception:
        return True


def shrink_mt(case):
    k, w, reqs = case
    n = len(reqs)
    if n > 3:
        yield [k, w, reqs[n // 2:]]
        yield [k, w, reqs[:n // 2]]
    for i in range(min(n, 14)):
        yield [k, w, reqs[:i] + reqs[i + 1:]]


def neighbours_mt(case):
    k, w, reqs = case
    for ww in (1, 2, 4):
        if ww != w:
            yield [k, ww, reqs]
    for i, r in enumerate(reqs[:12]):
        for c in (0, 500):
            if c != r[4]:
                yield [k, w, reqs[:i] + [r[:4] + [c]] + reqs[i + 1:]]


# ---------------------------------------------------------------- how the server builds its client (Client::new)

def gen_env(rng, n):
    ncpu = max(1, min(3, len(os.sched_getaffinity(0))))
    out = []
    # every shape at least once per CPU count, then random
    for c in range(1, ncpu + 1):
        for shape in ([b'none', 0], [b'fifo', 7], [b'fifo', 1], [b'fifo', 30], [b'fds', 1], [b'fds', 0], [b'garbage', 0],
                      [b'garbage', 1], [b'garbage', 2], [b'garbage', 3]):
            for discard in (0, 1):
                out.append([c, shape, c + 3, discard])
    for _ in range(n):
        c = rng.range(1, ncpu)
        kind = rng.weighted([(b'none', 1), (b'fifo', 4), (b'fds', 3), (b'garbage', 2)])
        arg = {b'none': 0, b'fifo': rng.range(0, 40), b'fds': rng.below(2), b'garbage': rng.below(8)}[kind]
        out.append([c, [kind, arg], rng.range(1, c + 5), rng.below(2)])
    return out


def monitor_env(case, out):
    ncpus, shape, burst, discard = case
    if isinstance(out, list) and out and out[0] in (b'helper_died', b'panic'):
        if out[0] == b'helper_died':
            return ['the jobserver helper thread died (panicked) during this history: it is the only one that hands tokens to '
                    'waiting requests, so no request can obtain a token any more - the server cannot reach its parallelism again']
        return ['the code under test panicked: %s' % sx.dumps(out)[:300]]
    if not isinstance(out, list) or len(out) != 4 or out[0] == b'panic':
        return ['Client::new() failed / malformed output: %s' % sx.dumps(out)[:300]]
    limited, pool, granted, empty = out
    where = 'server seeing %d CPUs, jobserver in the environment: %s%s' % (ncpus, sx.dumps(shape), ' (after discard_inherited_jobserver)' if discard else '')
    vs = []
    if not limited:
        vs.append('%s: Client::new() built an UNLIMITED client (no pool of its own: acquire() never waits)' % where)
    if empty:
        vs.append('%s: %d of %d simultaneous acquisitions were handed an empty Acquired (no token behind it)' % (where, empty, burst))
    if granted > ncpus:
        vs.append('%s: %d of %d simultaneous acquisitions were granted at once, the server sees %d CPUs' % (where, granted, burst, ncpus))
    if limited and pool != ncpus:
        vs.append('%s: the pool holds %d tokens, the server sees %d CPUs' % (where, pool, ncpus))
    if granted < min(burst, ncpus):
        vs.append('%s: only %d of %d acquisitions were granted although %d tokens exist' % (where, granted, burst, ncpus))
    return vs


def stats_env(case, out):
    return ['ncpus=%d' % case[0], 'shape=%s' % case[1][0].decode(), 'discard=%d' % case[3]]


def neighbours_env(case):
    c, shape, burst, discard = case
    yield [c, shape, burst, 1 - discard]
    for sh in ([b'fifo', 7], [b'fds', 1], [b'none', 0]):
        yield [c, sh, burst, discard]


def translate(rep):
    from translator import c16_startup
    info = c16_startup.run(pipeline.REPO, pipeline.COQ)
    rep.oblige('translate:server_startup', True, repr(info))
    from translator import c16_acquire
    info = c16_acquire.run(pipeline.REPO, pipeline.COQ)
    rep.oblige('translate:acquire_sites', True, repr(info))
    for m in SIDE_CONDITIONS:
        ok, out = pipeline.coq_make(['theories/%s.vo' % m.replace('.', '/')])
        rep.oblige('side-condition:' + m, ok, out[-1500:] if not ok else 'vm_compute; reflexivity')
    hits = pipeline.forbidden_words(pipeline.coq_closure(['theories/%s.v' % m.replace('.', '/') for m in SIDE_CONDITIONS]))
    rep.oblige('side-conditions:no-Admitted/Axiom', not hits, '; '.join(hits[:5]))


def legs(tier):
    def gdet(rng, tier):
        if tier == 'thorough':
            return gen_det_exhaustive(5) + gen_det(rng, 40000, 40)
        return gen_det_exhaustive(4) + gen_det(rng, 2500, 30)

    def gmt(rng, tier):
        if tier == 'thorough':
            return gen_mt(rng, 9000, 16) + gen_mt(rng, 1500, 40)
        return gen_mt(rng, 600, 12) + gen_mt(rng, 60, 40)

    def genv(rng, tier):
        return gen_env(rng, 400 if tier == 'thorough' else 60)

    return [
        Leg('env', genv, monitor=monitor_env, stats=stats_env, neighbours=neighbours_env, shards=8,
            rule='the real Client::new() (what server::start_server calls) in a harness process pinned to 1..3 CPUs whose '
                 'environment carries NO make flags / a live named-fifo jobserver with 0..40 tokens / an fd-pair jobserver with '
                 'open or closed descriptors / four kinds of garbage, in MAKEFLAGS, CARGO_MAKEFLAGS or MFLAGS, with and without '
                 'the discard_inherited_jobserver() call daemonize() makes first; a burst of up to ncpus+4 simultaneous acquire()s: '
                 'limited client, pool == CPUs seen, at most that many granted at once, no empty Acquired; compared with the model'),
        Leg('det', gdet, monitor=monitor_det, nontrivial=nontrivial_det, shrink=shrink_ops, neighbours=neighbours_det,
            stats=stats_det,
            rule='real Client::new_num(k) + AsyncCommand/Child driven by ONE thread that polls every future itself and waits '
                 'for the helper thread to come to rest after each step: event sequence and (FIONREAD pool, held, children, '
                 'pending) compared EXACTLY with the model; exhaustive op sequences over two 6-7 op alphabets (depth 4/3 '
                 'quick, 5/3 thorough) + PRNG scripts (k in 1..4, <=30 ops, bare acquires, processes exiting 0 / non-zero, '
                 'spawn failures, drops at every phase); non-trivial = some request arrived while all tokens were out'),
        Leg('mt', gmt, monitor=monitor_mt, nontrivial=nontrivial_mt, shrink=shrink_mt, neighbours=neighbours_mt,
            stats=stats_mt, compare=compare_mt,
            rule='TRACE ACCEPTANCE: real Client on a multi-threaded tokio runtime (1/2/4 workers), one task per request '
                 '(bare hold, process ok / failing / unspawnable), scripted cancellation after 1 us..20 ms whatever the phase; '
                 'the recorded event sequence must be ACCEPTED by the extracted model (`accept`, ending with every token back); '
                 'monitors on the real run: held <= k at every event, FIFO grants, FIONREAD == k at quiescence, a burst of k '
                 'acquisitions is granted and the k+1-th waits until a release'),
    ]


# ---------------------------------------------------------------- e2e: real server, wrapper compiler, ledger

WRAPPER = r"""#!/bin/sh
# C16 wrapper "compiler": records enter/leave of every compiler / preprocessor process the server runs.
# C16_SHAPE (from the client's environment): big = 300 kB of diagnostics; kill = dies of SIGKILL; gc = the compile run
# leaves a background process behind that keeps its stdout and stderr for 45 s.
L="%(ledger)s"
K=C
for a in "$@"; do [ "$a" = "-E" ] && K=E; done
flock "$L.lock" sh -c "echo E $$ $K >> $L"
sleep "${C16_SLEEP:-0.05}"
/usr/bin/gcc "$@"
rc=$?
if [ "$K" = C ]; then
  case "${C16_SHAPE:-}" in
    big) head -c 300000 /dev/zero | tr '\0' w >&2 ;;
    gc) sleep 45 & echo $! >> "$L.gcpids" ;;
  esac
fi
flock "$L.lock" sh -c "echo L $$ $K >> $L"
if [ "$K" = C ] && [ "${C16_SHAPE:-}" = kill ]; then kill -9 $$; fi
exit $rc
"""


# a compiler whose FIRST preprocessor run (the server's "what kind of compiler is this" probe) takes 12 s
SLOW_WRAPPER = WRAPPER.replace('sleep "${C16_SLEEP:-0.05}"',
                               'if [ "$K" = E ] && [ ! -e "$0.probed" ]; then : > "$0.probed"; sleep 12; else sleep "${C16_SLEEP:-0.05}"; fi')


def free_port():
    s = socket.socket()
    s.bind(('127.0.0.1', 0))
    p = s.getsockname()[1]
    s.close()
    return p


def server_pids(cache_dir):
    want = ('SCCACHE_DIR=' + cache_dir).encode()
    out = []
    for d in os.listdir('/proc'):
        if not d.isdigit():
            continue
        try:
            env = open('/proc/%s/environ' % d, 'rb').read().split(b'\0')
            if want not in env or b'SCCACHE_START_SERVER=1' not in env:
                continue
            st = open('/proc/%s/stat' % d).read()
            if st[st.rindex(')') + 2] == 'Z':
                continue
            out.append(int(d))
        except (OSError, ValueError):
            continue
    return out


def read_ledger(path):
    """-> (max concurrency, entered, left, kinds alive at the maximum)"""
    cur = 0
    mx = 0
    ent = lef = 0
    live = {}
    kinds_at_max = ''
    try:
        lines = open(path).read().split('\n')
    except OSError:
        lines = []
    for l in lines:
        f = l.split()
        if len(f) != 3:
            continue
        if f[0] == 'E':
            cur += 1
            ent += 1
            live[f[1]] = f[2]
            if cur > mx:
                mx = cur
                kinds_at_max = ''.join(sorted(live.values()))
        elif f[0] == 'L':
            cur -= 1
            lef += 1
            live.pop(f[1], None)
    return mx, ent, lef, kinds_at_max


def e2e_run(rep, binp, rng, tier, idx, makeflags='none', nbursts=2, gc_phase=True, slow_phase=False):
    """One real server under `taskset -c 0-2`.  makeflags: what the server's (and the clients') environment says about a
    jobserver of the surrounding build: none | fifo (live named fifo with 31 tokens) | fds (inherited pipe pair) |
    fdsclosed (--jobserver-auth=3,4 announced, descriptors 3 and 4 closed)."""
    root = '/dev/shm/c16e2e-%d-%d' % (os.getpid(), idx)
    shutil.rmtree(root, ignore_errors=True)
    os.makedirs(root)
    ledger = os.path.join(root, 'ledger')
    open(ledger, 'w').close()
    cc = os.path.join(root, 'c16cc')
    open(cc, 'w').write(WRAPPER % {'ledger': ledger})
    os.chmod(cc, 0o755)
    cache = os.path.join(root, 'cache')
    src = os.path.join(root, 'src')
    os.makedirs(src)
    env = {'PATH': '/usr/bin:/bin', 'HOME': root, 'SCCACHE_DIR': cache, 'SCCACHE_IDLE_TIMEOUT': '300',
           'TMPDIR': root, 'SCCACHE_SERVER_PORT': '0'}
    problems = []
    info = {'makeflags': makeflags}
    nsrc = [0]
    keep_fds = []
    pass_fds = ()
    if makeflags == 'fifo':
        fifo = os.path.join(root, 'make-jobserver.fifo')
        os.mkfifo(fifo, 0o600)
        fd = os.open(fifo, os.O_RDWR | os.O_NONBLOCK)
        os.write(fd, b'+' * 31)
        keep_fds.append(fd)
        env['MAKEFLAGS'] = ' -j32 --jobserver-auth=fifo:' + fifo
    elif makeflags == 'fdsclosed':
        # an ordinary recipe of GNU make <= 4.3: the pipe is announced, its descriptors are NOT passed on
        env['MAKEFLAGS'] = ' -j4 --jobserver-auth=3,4'
    elif makeflags == 'fds':
        r, w = os.pipe()
        os.set_inheritable(r, True)
        os.set_inheritable(w, True)
        os.write(w, b'+' * 31)
        keep_fds += [r, w]
        pass_fds = (r, w)
        env['MAKEFLAGS'] = ' -j32 --jobserver-auth=%d,%d' % (r, w)

    def new_source(kind):
        nsrc[0] += 1
        p = os.path.join(src, 's%d.c' % nsrc[0])
        body = 'int f%d(void){return %d;}\n' % (nsrc[0], nsrc[0])
        if kind == 'ppfail':
            body += '#error C16 preprocessor failure\n'
        elif kind == 'ccfail':
            body += 'int g%d(void){return undeclared_%d;}\n' % (nsrc[0], nsrc[0])
        open(p, 'w').write(body)
        return p

    def client(path, sleep, shape='', cc=cc):
        e = dict(env)
        e['C16_SLEEP'] = sleep
        if shape:
            e['C16_SHAPE'] = shape
        return subprocess.Popen([binp, cc, '-c', path, '-o', path[:-2] + '.o'], env=e, cwd=src,
                                stdout=subprocess.DEVNULL, stderr=subprocess.DEVNULL, pass_fds=pass_fds)

    def wait_idle(secs):
        """the ledger is balanced and has not changed for 0.5 s"""
        t0 = time.time()
        last = None
        since = time.time()
        while time.time() - t0 < secs:
            mx, ent, lef, _ = read_ledger(ledger)
            cur = (ent, lef)
            if cur != last:
                last = cur
                since = time.time()
            elif ent == lef and time.time() - since > 0.5:
                return True
            time.sleep(0.05)
        return False

    def finish_all(procs, secs):
        hung = 0
        for p in procs:
            try:
                p.wait(timeout=secs if not hung else 1)
            except subprocess.TimeoutExpired:
                p.kill()
                hung += 1
        return hung

    def kill_grandchildren():
        try:
            for l in open(ledger + '.gcpids').read().split():
                try:
                    os.kill(int(l), 9)
                except (OSError, ValueError):
                    pass
        except OSError:
            pass

    try:
        # token count the server will use in a 3-CPU set: the same function, in the same CPU set
        rc, out, _ = pipeline.sh(['taskset', '-c', '0-2', pipeline.harness_bin(HARNESS_BIN), 'ncpus'], input=b'()\n', timeout=60)
        try:
            tokens = sx.loads(out.strip().split('\n')[-1])[1]
        except Exception:
            return ['could not determine the token count: ' + out[-200:]], info
        info['tokens'] = tokens
        for attempt in range(5):
            env['SCCACHE_SERVER_PORT'] = str(free_port())
            r = subprocess.run(['taskset', '-c', '0-2', binp, '--start-server'], env=env, cwd=src,
                               stdout=subprocess.PIPE, stderr=subprocess.PIPE, timeout=120, pass_fds=pass_fds)
            if r.returncode == 0:
                break
        else:
            return ['server did not start: ' + r.stderr.decode()[-300:]], info
        pids = server_pids(cache)
        if pids:
            try:
                info['server_cpus'] = len(os.sched_getaffinity(pids[0]))
            except OSError:
                pass

        total = killed = failing = 0
        ok_paths = []
        for b in range(nbursts):
            n = rng.range(12, 40) if tier != 'quick' else (16 if b == 0 else rng.range(24, 40))
            procs = []
            must_succeed = []
            for i in range(n):
                kind = rng.weighted([('ok', 6), ('ppfail', 1), ('ccfail', 2), ('dup', 1), ('big', 1), ('kill', 1)])
                shape = kind if kind in ('big', 'kill') else ''
                if kind == 'dup' and ok_paths:
                    path = rng.choice(ok_paths)
                else:
                    if kind == 'dup':
                        kind = 'ok'
                    path = new_source(kind)
                    if kind in ('ok', 'big'):
                        ok_paths.append(path)
                if kind in ('ppfail', 'ccfail', 'kill'):
                    failing += 1
                p = client(path, '0.05', shape)
                kill_at = time.time() + rng.range(20, 250) / 1000.0 if rng.chance(1, 4) else None
                procs.append((p, kill_at))
                if kill_at is None and kind in ('ok', 'dup', 'big'):
                    must_succeed.append(p)
                total += 1
            # clients killed mid-request
            pending = [x for x in procs if x[1]]
            while pending:
                now = time.time()
                for x in list(pending):
                    if now >= x[1]:
                        try:
                            x[0].send_signal(signal.SIGKILL)
                            killed += 1
                        except OSError:
                            pass
                        pending.remove(x)
                time.sleep(0.005)
            hung = finish_all([p for p, _ in procs], 45)
            if hung:
                problems.append('burst %d: %d client(s) did not finish within 45 s (their requests never obtained a token or never ended)' % (b, hung))
                return problems, info
            bad = [p for p in must_succeed if p.returncode != 0]
            if bad:
                problems.append('burst %d (server environment: %s jobserver flags): %d of %d well-formed requests were not served '
                                '(client exit codes %s): they never obtained a job token / never ran'
                                % (b, makeflags, len(bad), len(must_succeed), sorted(set(p.returncode for p in bad))[:4]))
            if not wait_idle(60):
                problems.append('compiler processes still running / ledger unbalanced 60 s after burst %d' % b)
            mx, ent, lef, kam = read_ledger(ledger)
            if mx > tokens:
                problems.append('burst %d (server environment: %s jobserver flags): %d compiler/preprocessor processes ran at once '
                                'with %d job tokens (kinds %s)' % (b, makeflags, mx, tokens, kam))
        info.update(clients=total, killed=killed, failing=failing)
        mx, ent, lef, _ = read_ledger(ledger)
        info.update(max_concurrency=mx, processes=ent)

        if gc_phase and not problems:
            # compilers that exit while something they started keeps their stdout/stderr: once the compiler PROCESS has
            # left (ledger), its token must be back - the next requests run without waiting for that something
            first = [client(new_source('ok'), '0.05', 'gc') for _ in range(tokens)]
            t0 = time.time()
            while time.time() - t0 < 60:
                try:
                    ngc = len(open(ledger + '.gcpids').read().split())
                except OSError:
                    ngc = 0
                mxg, entg, lefg, _ = read_ledger(ledger)
                if ngc >= tokens and entg == lefg:
                    break
                time.sleep(0.05)
            else:
                problems.append('gc phase: the %d compilers did not all run within 60 s' % tokens)
            time.sleep(0.3)
            nxt = [client(new_source('ok'), '0.05') for _ in range(2 * tokens)]
            hung = finish_all(nxt, 40)
            info['after_exit_with_pipes_held'] = '%d/%d ran' % (len(nxt) - hung, len(nxt))
            if hung:
                problems.append('%d compiler processes have exited (each left a background process holding its stdout/stderr) but '
                                'their job tokens did not come back: %d of %d later requests could not run within 40 s'
                                % (tokens, hung, len(nxt)))
            kill_grandchildren()
            if finish_all(first, 30):
                problems.append('gc phase: a request did not end after the process holding its pipes was killed')
            wait_idle(30)
            mxg, _, _, kam = read_ledger(ledger)
            if mxg > tokens:
                problems.append('gc phase: %d processes at once with %d tokens' % (mxg, tokens))

        if slow_phase and not problems:
            # compilers that answer the server's detection probe only after 12 s, one per token, with ordinary requests
            # queued behind them: whatever the server does about slow probes (time-outs ...), a probe process that is
            # still running counts - never more processes than tokens
            open(ledger, 'w').close()
            slow = []
            for i in range(tokens):
                scc = os.path.join(root, 'slowcc%d' % i)
                open(scc, 'w').write(SLOW_WRAPPER % {'ledger': ledger})
                os.chmod(scc, 0o755)
                slow.append(client(new_source('ok'), '0.05', cc=scc))
            time.sleep(1.0)
            rest = [client(new_source('ok'), '0.05') for _ in range(2 * tokens)]
            hung = finish_all(slow + rest, 120)
            if hung:
                problems.append('slow-probe phase: %d client(s) did not finish within 120 s' % hung)
            wait_idle(60)
            mxs, _, _, kam = read_ledger(ledger)
            info['slow_probe_max_concurrency'] = mxs
            if mxs > tokens:
                problems.append('slow compiler-detection probes: %d compiler/preprocessor processes ran at once with %d job tokens '
                                '(kinds %s): a probe process kept running after its token had been given to another request'
                                % (mxs, tokens, kam))

        # saturating burst: full parallelism must be reachable again (no token lost to the history above)
        reached = 0
        for sleep in ('0.4', '1.5'):
            if problems:
                break
            open(ledger, 'w').close()
            procs = [client(new_source('ok'), sleep) for _ in range(3 * tokens)]
            hung = finish_all(procs, 120)
            if hung:
                problems.append('saturating burst: %d client(s) did not finish within 120 s (all tokens lost?)' % hung)
                break
            wait_idle(60)
            mx2, ent2, lef2, _ = read_ledger(ledger)
            reached = max(reached, mx2)
            if mx2 > tokens:
                problems.append('saturating burst: %d processes at once with %d tokens' % (mx2, tokens))
            if mx2 >= tokens:
                break
        info['saturating_reached'] = reached
        if reached < tokens and not problems:
            problems.append('after the bursts only %d of %d processes can run at once: %d token(s) leaked'
                            % (reached, tokens, tokens - reached))
    finally:
        kill_grandchildren()
        try:
            subprocess.run([binp, '--stop-server'], env=env, cwd=src, stdout=subprocess.DEVNULL, stderr=subprocess.DEVNULL, timeout=30)
        except Exception:
            pass
        for pid in server_pids(cache):
            try:
                os.kill(pid, 9)
            except OSError:
                pass
        for fd in keep_fds:
            try:
                os.close(fd)
            except OSError:
                pass
        shutil.rmtree(root, ignore_errors=True)
    return problems, info


def extra(rep, known):
    ok, out = pipeline.build_repo_bins(REPO_BINS)
    rep.oblige('build:sccache', ok, out[-2000:] if not ok else 'cargo build --offline --bin sccache, --cfg sccache_verif')
    if not ok:
        return
    binp = pipeline.repo_bin('sccache')
    rng = pipeline.Rng(rep.seed).fork('C16:e2e')
    if rep.tier == 'quick':
        plan = [dict(makeflags='none', nbursts=2, gc_phase=True, slow_phase=True), dict(makeflags='fifo', nbursts=1, gc_phase=False),
                dict(makeflags='fdsclosed', nbursts=1, gc_phase=False)]
    else:
        plan = [dict(makeflags='none', nbursts=6, gc_phase=True, slow_phase=True), dict(makeflags='fifo', nbursts=3, gc_phase=True),
                dict(makeflags='fds', nbursts=2, gc_phase=False), dict(makeflags='fdsclosed', nbursts=2, gc_phase=True), dict(makeflags='none', nbursts=6, gc_phase=True)]
    t0 = time.time()
    allp = []
    for i, kw in enumerate(plan):
        problems, info = e2e_run(rep, binp, rng, rep.tier, i, **kw)
        rep.traces += 1
        rep.evaluations += info.get('clients', 0)
        for k, v in info.items():
            rep.count('e2e.%s=%s' % (k, v))
        rep.notes.append('e2e run %d: %s' % (i, info))
        for p in problems:
            rep.violation('property', 'e2e', 'e2e run %d seed %d: %s' % (i, rep.seed, info), p)
        allp += problems
        if problems:
            break  # one failing server run is enough; the remaining environments would only repeat the waits
    rep.traces += rep.legs.get('mt', {}).get('cases', 0)  # every mt case is one recorded trace put to the model's `accept`
    rep.legs['e2e'] = dict(runs=len(plan), problems=len(allp), wall_s=round(time.time() - t0, 1))
    rep.oblige('e2e:ledger-bound-and-no-leak', not allp, '; '.join(allp[:5]) if allp else 'max concurrency <= tokens in every burst; saturating burst reached the token count')
    rep.rule.append('e2e: real sccache servers under `taskset -c 0-2` (token count = util::num_cpus() evaluated by the harness in the '
                    'same CPU set), one with no make flags and one started with MAKEFLAGS naming a LIVE fifo jobserver of 31 tokens '
                    'and one started, as from an ordinary recipe of GNU make <= 4.3, with MAKEFLAGS announcing --jobserver-auth=3,4 while descriptors 3 and 4 are closed (thorough: also an inherited fd pair); every well-formed request of a client that is not killed must be served (exit 0); bursts of 12-40 clients through a wrapper compiler that records enter/leave '
                    'of the preprocessor run (-E) and the compile run in a flock-ed ledger and sleeps 50 ms; failing sources (#error / '
                    'undeclared identifier), compilers that print 300 kB of diagnostics or die of SIGKILL, ~25% clients SIGKILLed '
                    '20-250 ms into the request; monitor: concurrency in the ledger <= tokens at every line; then `tokens` compilers '
                    'that exit leaving a background process on their stdout/stderr: 2*tokens later requests must run within 40 s '
                    'while those pipes are still held; then one compiler per token whose detection probe takes 12 s with 2*tokens ordinary requests queued behind (ledger bound); finally a saturating burst of 3*tokens clients must reach exactly the token '
                    'count (retried once with longer sleeps before it is reported)')
