"""C02 — the C/C++ cache key covers every result-affecting component, without aliasing.

Ties: T  translator/c02_hashspec.py regenerates Gen/C02HashSpec.v (+ side conditions in Gen/C02HashSpec_ok.v)
      D  groups (request + its mutants) through the extracted model (prints the PRE-IMAGE, component by component)
         and through the real hash_key / preprocessor_cache_entry_hash_key (print the key); the model's pre-image is
         turned into a key by the harness leg `hashpre` (real BLAKE3 + util::hex) and compared with the real key.
Monitor = the property itself on the real keys: within a group, two requests have equal keys iff they agree on all
hashed components (computed here, independently of the model).
"""
import atexit
import glob
import json
import os
import shutil
import subprocess
import sys
import time

from .. import pipeline
from .. import sx
from ..pipeline import Leg

sys.path.insert(0, os.path.join(pipeline.VERIF, 'translator'))
import c02_hashspec  # noqa: E402

ID = 'C02'
HARNESS_BIN = 'c02'
RUN_MODULE = 'Run.C02'
COQ_EXTRA = ['Gen.C02HashSpec_ok']
THEOREMS = [
    'C02_encode_injective', 'C02_encode_injective_gen', 'C02_lang_injective', 'C02_single_change',
    'C02_boundary_shift', 'C02_split_merge', 'C02_name_value_shift', 'C02_list_move',
    'C02_driver_mode_table', 'C02_driver_mode_separates', 'C02_env_reaches_keys', 'C02_arch_list_covered', 'C02_pp_arch_list_covered', 'C02_extra_files_ordered', 'C02_pp_input_path_as_given', 'C02_reader_digest_pieces', 'C02_key_iff',
    'C02_pp_encode_injective', 'C02_pp_encode_injective_canon', 'C02_pp_time_salt_injective', 'C02_pp_single_change', 'C02_pp_boundary_shift', 'C02_pp_name_value_shift',
    'C02_pp_list_move', 'C02_pp_key_iff', 'C02_pp_env_covers_main', 'C02_required_vars_hashed',
    'C02_lang_pp_boundary_refuted', 'C02_extra_pp_boundary_refuted', 'C02_pp_lang_path_boundary_refuted',
    'C02_pp_path_tail_refuted',
    'C02_old_tags_refuted', 'C02_old_env_cover_refuted',
]
ASSUMPTIONS = [
    'BLAKE3 rendered by util::hex is a Section variable H; C02_key_iff / C02_pp_key_iff assume H-injectivity on the two encodings compared (collision-freeness is not proved); the pp-level theorems assume H returns 64 hex characters',
    'well-formedness of requests (boolean predicates wf_c / wf_p): compiler digest and extra hashes are 64 characters of [0-9a-f]; no NUL byte in hashed arguments, allow-listed variable values, preprocessor output and input path (C strings); every length < 2^56; the language is a variant of the as_str table',
    'pp_ok / path_ok: the preprocessor output (resp. the absolute input path) does not begin with text that extends this language\'s tag into another language\'s tag (e.g. language c with output starting "++"): without it the statement is refuted (C02_lang_pp_boundary_refuted, C02_pp_lang_path_boundary_refuted; findings C02-S10b, C02-S10d)',
    'extra hashes vs. preprocessor output: unless both requests carry the same number of extra hashes or neither output begins with 64 hex characters the boundary is ambiguous (C02_extra_pp_boundary_refuted; finding C02-S10c)',
    'Language::Cuda and Language::CudaFE share the tag "cuda" on purpose (driver_bound_aliases in Model/KeyEnc.v): CudaFE is produced only by cudafe.rs for the cudafe++ executable; language equality is claimed up to that pair',
    'the pp-level key is modelled for input files read in one chunk (< 128 KiB): "time macro found" = the file contains __TIME__ / __DATE__ / __TIMESTAMP__ (chunked search is C04\'s subject); the input file\'s mtime is available and not before 1970',
    'path_tail_ok: the input path does not end in 64 hex digits followed by "-" (the path is followed undelimited by  digest  or  digest "-" digest ); without it: C02_pp_path_tail_refuted',
    'date, SOURCE_DATE_EPOCH and mtime are request components of the model; the key sees them only when the file mentions __DATE__ / __TIMESTAMP__ and time macros are not ignored (salt_view); an unset and an empty SOURCE_DATE_EPOCH are not told apart; the differential leg controls mtime and SOURCE_DATE_EPOCH and runs on the current local date only',
]
TRUSTED = [
    'translator/c02_hashspec.py transcribes CACHE_VERSION, FORMAT_VERSION, both CACHED_ENV_VARS, Language::as_str and the statement order of hash_key / preprocessor_cache_entry_hash_key (every item is also exercised by the differential legs; unknown syntax raises)',
    'harness leg hashpre (blake3 crate through sccache::util::Digest + util::hex) applied to the model\'s pre-image',
]

GEN_DIR = os.path.join(pipeline.COQ, 'theories', 'Gen')
SPEC_JSON = os.path.join(GEN_DIR, 'C02HashSpec.json')
SPEC = None
HARNESS_LANGS = ['C', 'Cxx', 'GenericHeader', 'CHeader', 'CxxHeader', 'ObjectiveC', 'ObjectiveCxx', 'ObjectiveCxxHeader',
                 'Cuda', 'CudaFE', 'Ptx', 'Cubin', 'Rust', 'Hip']
ALIASES = [frozenset((b'Cuda', b'CudaFE'))]
# mirror of required_main / required_pp in Model/KeyEnc.v: the variables the property counts as result-affecting
REQUIRED_MAIN = [b'SCCACHE_C_CUSTOM_CACHE_BUSTER', b'MACOSX_DEPLOYMENT_TARGET', b'IPHONEOS_DEPLOYMENT_TARGET',
                 b'TVOS_DEPLOYMENT_TARGET', b'WATCHOS_DEPLOYMENT_TARGET', b'SDKROOT', b'CCC_OVERRIDE_OPTIONS']
REQUIRED_PP = REQUIRED_MAIN + [b'CPATH', b'C_INCLUDE_PATH', b'CPLUS_INCLUDE_PATH', b'OBJC_INCLUDE_PATH', b'OBJCPLUS_INCLUDE_PATH']
ROOT = '/dev/shm/vh-c02-%d' % os.getpid()
CORPUS_ROOT = '/dev/shm/vh-c02-corpus'
HEX = b'0123456789abcdef'


def cleanup():
    for d in [ROOT, CORPUS_ROOT] + glob.glob('/dev/shm/vh-c02-root-*') + glob.glob('/dev/shm/vh-c02-drv-*'):
        pid = d.rsplit('-', 1)[-1]
        if d.startswith('/dev/shm/vh-c02-root-') and pid.isdigit() and os.path.exists('/proc/' + pid):
            continue        # a harness process of a concurrent run still lives in it
        shutil.rmtree(d, ignore_errors=True)


atexit.register(cleanup)


# ------------------------------------------------------------------ translator

def spec_to_json(s):
    def enc(x):
        if isinstance(x, bytes):
            return {'b': x.hex()}
        if isinstance(x, (list, tuple)):
            return [enc(y) for y in x]
        return x
    return {k: enc(v) for k, v in s.items()}


def spec_from_json(j):
    def dec(x):
        if isinstance(x, dict):
            return bytes.fromhex(x['b'])
        if isinstance(x, list):
            return [dec(y) for y in x]
        return x
    return {k: dec(v) for k, v in j.items()}


def load_spec():
    global SPEC
    if SPEC is None:
        if os.path.exists(SPEC_JSON):
            SPEC = spec_from_json(json.load(open(SPEC_JSON)))
        else:
            SPEC = spec_from_json(spec_to_json(c02_hashspec.read_spec(pipeline.REPO)[0]))
    return SPEC


def is_hex64(h):
    return len(h) == 64 and all(c in HEX for c in h)


def ext_ok(s):
    return (not s) or (0 not in s and s[0] not in HEX and s[0] >= 8)


def side_conditions(s):
    """Python mirror of the decidable side conditions of Gen/C02HashSpec_ok.v, only to NAME what broke."""
    res = []
    exp_env = [['EName', 'LP'], ['ELit', b'='], ['EVal', 'LP']]
    exp_c = [['CDigest'], ['CPlusplus'], ['CVersion'], ['CLang'], ['CArgs', 'LP'], ['CExtra'], ['CEnv', exp_env], ['CPP']]
    exp_p = [['CDigest'], ['CPlusplus'], ['CFmtVersion'], ['CLang'], ['CArgs', 'LP'], ['CExtra'], ['CEnv', exp_env], ['CPath'], ['CInputDigestT']]
    norm = lambda x: json.loads(json.dumps(spec_to_json({'x': x})['x']))
    res.append(('side-condition:shape_c = expected_shape_c (components of hash_key: order, delimiting)',
                norm(s['shape_c']) == norm(exp_c), repr(s['shape_c'])))
    res.append(('side-condition:shape_p = expected_shape_p (components of preprocessor_cache_entry_hash_key)',
                norm(s['shape_p']) == norm(exp_p), repr(s['shape_p'])))
    bad = []
    for n1, t1 in s['tags']:
        for n2, t2 in s['tags']:
            if t1 == t2 and n1 != n2 and frozenset((n1.encode(), n2.encode())) not in ALIASES:
                bad.append('%s and %s share the tag %r' % (n1, n2, t1))
            if t1.startswith(t2) and not ext_ok(t1[len(t2):]):
                bad.append('tag %r extends %r ambiguously' % (t1, t2))
    res.append(('side-condition:tags_ok (no two languages share or ambiguously extend a tag)', not bad, '; '.join(bad[:4])))
    names = s['allow_main'] + s['allow_pp']
    res.append(('side-condition:allow_ok (allow-listed names NUL-free)', all(0 not in n for n in names), ''))
    gone = [n.decode() for n in REQUIRED_MAIN if n not in s['allow_main']] + [n.decode() for n in REQUIRED_PP if n not in s['allow_pp']]
    res.append(('side-condition:required_ok (no result-affecting variable dropped from an allow-list)', not gone,
                'no longer allow-listed: %s' % gone if gone else ''))
    miss = [n.decode('latin-1') for n in s['allow_main'] if n not in s['allow_pp']]
    res.append(('side-condition:env_main subset of env_pp (S16)', not miss,
                'in hash_key\'s CACHED_ENV_VARS but not in the preprocessor-level key\'s: %s' % miss if miss else ''))
    res.append(('side-condition:time_gate', bool(s['time_gate']), ''))
    res.append(('side-condition:flow_c / flow_p (generate_hash_key hashes plain concatenations of the parsed argument lists, -arch order and multiplicity kept)',
                s.get('flow_c') == ['SCommon', 'SArch', 'SProfile'] and s.get('flow_p') == ['SPre', 'SArch', 'SCommon', 'SProfile', 'SCwd'],
                'hash_key <- %s; preprocessor_cache_entry_hash_key <- %s' % (s.get('flow_c'), s.get('flow_p'))))
    res.append(('side-condition:the_extra_order = InOrder (util::hash_all returns the digest of the i-th file at position i)',
                s.get('extra_order') == 'InOrder', str(s.get('extra_order'))))
    res.append(('side-condition:the_input_path_mode = AsGiven (the preprocessor-level key gets cwd.join(input), not a resolved path)',
                s.get('input_path_mode') == 'AsGiven', str(s.get('input_path_mode'))))
    res.append(('side-condition:the_reader_loop = StopAtEof (Digest::reader_sync feeds every piece a reader delivers, until a read of 0 bytes)',
                s.get('reader_loop') == 'StopAtEof', str(s.get('reader_loop'))))
    pf = s.get('env_prefilter')
    lost = [] if pf is None else [n.decode('latin-1') for n in s['allow_main'] + s['allow_pp'] if n not in pf]
    res.append(('side-condition:prefilter_ok (generate_hash_key passes every allow-listed variable on to the key functions)', not lost,
                'filtered out before the key functions see them: %s' % sorted(set(lost)) if lost else ''))
    bad = ['%s (%s) gets plusplus()=%s' % (k, n, pp) for k, n, pp, _ in s.get('drivers', []) if bool(pp) != k.endswith('++')]
    handled = [d[0] for d in s.get('drivers', [])]
    bad += ['the detection script prints %s but no match arm handles it' % i for i in s.get('script_ids', [])
            if i.endswith('++') and i not in handled]
    res.append(('side-condition:drivers_ok (detect_c_compiler: a compiler_id yields plusplus() iff it ends in "++")', not bad, '; '.join(bad)))
    return res


EXTRA_PROPERTY_FILES = ['theories/Properties/Composition.v']
EXTRA_THEOREMS = {'theories/Properties/Composition.v': ['Compose_C04_translations_agree', 'Compose_C04_lookup_sound_on', 'Compose_C04_manifest_key_is_C02_pp_key', 'Compose_C04_hreq_view_faithful', 'Compose_C04_pp_key_injective_at', 'Compose_C04_mode_equivalence_closed', 'Compose_C09_consistent_from_C02', 'Compose_C09_faults_transparent_closed', 'Compose_C09_internal_fault_reported_closed', 'Compose_C09_history_transparent_closed', 'Compose_C09_repopulates_closed', 'Compose_C03_allowlist_is_C02', 'Compose_C03_key_of_is_C02_key', 'Compose_C03_hit_after_store_C02_key', 'Compose_store_invariants', 'Compose_C20_late_client_gets_result', 'Compose_C20_not_serving_client_gets_result', 'Compose_C09_put_fault_classes', 'Compose_C09_repopulates_after_any_store_history', 'Compose_C09_store_fault_transparent_and_recovers', 'Compose_C10_hit_installs_compiled_bytes', 'Compose_C01_hit_end_to_end', 'Compose_C15_ro_open_serves_rw_history', 'Compose_C15_ro_open_serves_concurrent_store_partial']}


def translate(rep):
    global SPEC
    SPEC = None
    # Composition.v also depends on C04's generated constants: regenerate them from the same tree
    try:
        from translator import c04_consts
        c04_consts.generate(pipeline.REPO, os.path.join(pipeline.COQ, 'theories/Gen/C04Consts.v'))
    except Exception as e:
        rep.notes.append('C04 constants translator (needed by Composition.v) raised: %r' % (e,))
    last = spec_from_json(json.load(open(SPEC_JSON))) if os.path.exists(SPEC_JSON) else None
    if last:
        last['tags'] = [tuple(t) if not isinstance(t[0], bytes) else (t[0].decode(), t[1]) for t in last['tags']]
    spec, errors = c02_hashspec.main(pipeline.REPO, GEN_DIR, last)
    SPEC = spec_from_json(spec_to_json(spec))
    for name, ok, detail in side_conditions(SPEC):
        rep.oblige(name, ok, detail)
    extra_langs = [n for n, _ in spec['tags'] if n not in HARNESS_LANGS]
    if extra_langs:
        rep.notes.append('languages not yet nameable by harness/src/bin/c02.rs (covered by T only): %s' % extra_langs)
    if errors:
        # unknown syntax is a broken obligation, never a pass; the unrecognised items were replaced by what the model
        # is proved for, so the differential legs below compare the real code with the expected behaviour
        raise c02_hashspec.Unrecognised('; '.join(errors))
    json.dump(spec_to_json(spec), open(SPEC_JSON, 'w'))
    rep.oblige('translate', True, 'Gen/C02HashSpec.v from %s: CACHE_VERSION=%r FORMAT_VERSION=%r, %d+%d allow-listed variables, %d languages'
               % (pipeline.REPO, spec['version'], spec['fmt_version'], len(spec['allow_main']), len(spec['allow_pp']), len(spec['tags'])))


# ------------------------------------------------------------------ requests (python values)
# main-key request: [digest, plusplus, lang, [args], [extras], [[k, v]..], pp]
# pp-level request: [digest, plusplus, lang, [args], [extras], [[k, v]..], path, input, ignore_time,
#                    mtime_secs, mtime_nanos, sde, [year, month, day]]      sde = [] (unset) | [value]

def lang_names():
    s = load_spec()
    return [n.encode() for n, _ in s['tags'] if n in HARNESS_LANGS]


def lang_class(l):
    for a in ALIASES:
        if l in a:
            return tuple(sorted(a))
    return (l,)


def tag_of(l):
    for n, t in load_spec()['tags']:
        if n.encode() == l:
            return t
    return None


def allow_list(which):
    """what the property counts as hashed: the translated allow-list plus the variables required at the pinned commit"""
    al = list(load_spec()[which])
    return al + [k for k in (REQUIRED_MAIN if which == 'allow_main' else REQUIRED_PP) if k not in al]


def fenv(r, which):
    al = allow_list(which)
    return tuple((bytes(k), bytes(v)) for k, v in r[5] if k in al)


def canon_c(r):
    return (r[0], 1 if r[1] else 0, lang_class(r[2]), tuple(r[3]), tuple(r[4]), fenv(r, 'allow_main'), r[6])


def salt_view(r):
    """what the pp-level key sees of date / SOURCE_DATE_EPOCH / mtime (mirror of KeyEnc.salt_view)"""
    inp = r[7]
    hd, hs = b'__DATE__' in inp, b'__TIMESTAMP__' in inp
    if r[8] or not (hd or hs):
        return None
    return ((tuple(r[12]), r[11][0] if r[11] else b'') if hd else None, (r[9], r[10]) if hs else None)


def canon_p(r):
    return (r[0], 1 if r[1] else 0, lang_class(r[2]), tuple(r[3]), tuple(r[4]), fenv(r, 'allow_pp'), r[6], r[7],
            salt_view(r))


def tag_ext_prefix(l, text):
    """text starts with a suffix that turns l's tag into another tag"""
    t = tag_of(l) or b''
    for _, t2 in load_spec()['tags']:
        if t2.startswith(t) and len(t2) > len(t) and text.startswith(t2[len(t):]):
            return True
    return False


def str_ok(s):
    return 0 not in s


def common_ok(r):
    return (is_hex64(r[0]) and tag_of(r[2]) is not None and all(str_ok(a) for a in r[3])
            and all(is_hex64(h) for h in r[4]))


def basic_ok_c(r):
    return common_ok(r) and all(str_ok(v) for _, v in fenv(r, 'allow_main')) and str_ok(r[6])


def path_tail_ok(p):
    return not (len(p) >= 65 and p[-1:] == b'-' and is_hex64(p[-65:-1]))


def basic_ok_p(r):
    return (common_ok(r) and all(str_ok(v) for _, v in fenv(r, 'allow_pp')) and str_ok(r[6]) and r[6][:1] == b'/'
            and path_tail_ok(r[6]))


# ------------------------------------------------------------------ generators

FLAGS = [b'-O2', b'-g', b'-Wall', b'-DFOO=1', b'-DFOO', b'-I/usr/include', b'-I', b'/usr/include', b'-std=c11',
         b'-fPIC', b'-m64', b'-arch', b'x86_64', b'-include', b'h.h', b'-D', b'A=B', b'', b'-', b'--', b'-O', b'2',
         b'-march=native', b'-isystem', b'-fno-exceptions', b'-Xclang', b'-W', b'all']
OTHER_VARS = [b'PATH', b'HOME', b'LANG', b'CPATH2', b'XCPATH', b'SDKROOT_', b'cpath', b'SCCACHE_C_CUSTOM_CACHE_BUSTE',
              b'CC', b'LD_LIBRARY_PATH', b'', b'SDKROOT=', b'CPATH=']
CODE = [b'int', b'x', b'=', b'1', b';', b'\n', b' ', b'return', b'(', b')', b'{', b'}', b'char', b'*', b's', b'"str"',
        b'# 1 "x.c"\n', b'# 1 "<built-in>"\n', b'# 1 "/usr/include/stdio.h" 1 3 4\n', b'typedef', b'unsigned', b'long',
        b'f', b',', b'0x2a', b'/* c */', b'#pragma once\n', b'\t', b'\r\n', b'\xc3\xa9', b'__DATE__', b'a' * 70]


def gen_hex64(rng):
    return bytes(rng.choice(HEX) for _ in range(64))


def gen_bytes(rng, maxlen, wild):
    n = rng.weighted([(0, 1), (1, 3), (rng.range(2, 8), 6), (rng.range(9, maxlen), 2)])
    if wild:
        return bytes(rng.weighted([(rng.below(256), 6), (0, 1), (0xff, 1), (0x3d, 1), (rng.range(0x20, 0x7e), 8)]) for _ in range(n))
    return bytes(rng.range(0x21, 0x7e) for _ in range(n))


def gen_arg(rng):
    k = rng.weighted([('flag', 10), ('ascii', 5), ('wild', 2), ('hex', 1), ('long', 1)])
    if k == 'flag':
        return rng.choice(FLAGS)
    if k == 'ascii':
        return gen_bytes(rng, 20, False)
    if k == 'wild':
        return gen_bytes(rng, 20, True)
    if k == 'hex':
        return gen_hex64(rng)
    return bytes(rng.range(0x21, 0x7e) for _ in range(rng.choice([61, 255, 256, 257, 300, 1000])))


def gen_text(rng, maxtok):
    n = rng.weighted([(0, 1), (rng.range(1, 6), 3), (rng.range(7, maxtok), 6)])
    return b''.join(rng.choice(CODE) for _ in range(n))


def gen_env(rng):
    s = load_spec()
    allow = allow_list('allow_main') + allow_list('allow_pp')
    out = []
    for _ in range(rng.weighted([(0, 3), (1, 3), (2, 3), (rng.range(3, 7), 2)])):
        k = rng.choice(allow) if rng.chance(3, 5) else rng.choice(OTHER_VARS)
        v = rng.weighted([(b'', 1), (b'1', 2), (b'/opt/include:/usr/include', 2), (b'+-O3', 1), (b'10.13', 1),
                          (gen_bytes(rng, 16, False), 4), (gen_bytes(rng, 16, True), 1), (b'a=b', 1)])
        out.append([k, v])
    return out


def gen_common(rng):
    digest = gen_hex64(rng) if rng.chance(19, 20) else rng.choice([b'abcd', b'', gen_hex64(rng)[:63], gen_hex64(rng).upper()])
    nargs = rng.weighted([(0, 2), (rng.range(1, 4), 6), (rng.range(5, 12), 4), (rng.range(13, 40), 2)])
    return [digest, rng.below(2), rng.choice(lang_names()), [gen_arg(rng) for _ in range(nargs)],
            [gen_hex64(rng) for _ in range(rng.weighted([(0, 5), (1, 3), (2, 1), (3, 1)]))], gen_env(rng)]


def gen_req_c(rng):
    return gen_common(rng) + [gen_text(rng, 60)]


NAMES = [b'x.c', b'main.cpp', b'a b.c', b'h.h', b'\xc3\xa9.cc', b'\xff\xfe.c', b'=.c', b'x', b'c++', b'Header.h', b'0f.c']


def today():
    t = time.localtime()
    return [t.tm_year, t.tm_mon, t.tm_mday]


def gen_req_p(rng, root):
    comps = [rng.choice([b'src', b'a', b'c++', b'd e', b'\xfe', b'++', b'0123456789abcdef' * 4]) for _ in range(rng.below(3))]
    path = b'/'.join([root] + comps + [rng.choice(NAMES)])
    text = gen_text(rng, 60).replace(b'__DATE__', b'__DATE_')
    k = rng.weighted([('plain', 10), ('time', 2), ('date', 3), ('stamp', 3), ('both', 2), ('near', 2)])
    if k == 'time':
        text += rng.choice([b'__TIME__', b'x__TIME__y', b'__TIME__ __DATE__'])
    elif k == 'date':
        text = rng.choice([b'', text[:len(text) // 2]]) + b'const char *d = __DATE__;' + text[len(text) // 2:]
    elif k == 'stamp':
        text += b'const char *s = __TIMESTAMP__;\n'
    elif k == 'both':
        text = b'__TIMESTAMP__' + text + b'__DATE__'
    elif k == 'near':
        text += rng.choice([b'__TIME_', b'_TIME__', b'__DATE_', b'_DATE__', b'__TIMESTAMP_', b'__TIME__STAMP__'[:8] + b'x', b'__date__'])
    secs = rng.weighted([(0, 1), (1, 1), (rng.below(1 << 31), 6), ((1 << 32) + rng.below(1 << 20), 1), (255, 1), (256, 1)])
    nanos = rng.weighted([(0, 3), (rng.below(1000000000), 5), (999999999, 1)])
    sde = rng.weighted([([], 5), ([b'0'], 1), ([b'1700000000'], 2), ([b''], 1), ([gen_bytes(rng, 12, False)], 1)])
    return gen_common(rng) + [path, text, rng.weighted([(0, 4), (1, 1)]), secs, nanos, sde, today()]


def flip(b, i):
    return b[:i] + bytes([b[i] ^ 1]) + b[i + 1:]


def mutants(r, level, adversarial=False):
    """Deterministic pair family around r: [(label, request)].  level 'c' (main key) or 'p' (pp-level key)."""
    s = load_spec()
    out = []

    def put(label, idx, val):
        r2 = list(r)
        r2[idx] = val
        out.append((label, r2))

    d, pl, lang, args, extra, env = r[:6]
    # --- single-component changes
    if d:
        put('digest', 0, flip(d, len(d) // 2))
    put('plusplus', 1, 1 - (1 if pl else 0))
    names = lang_names()
    li = names.index(lang) if lang in names else 0
    put('lang', 2, names[(li + 1) % len(names)])
    put('lang', 2, names[(li + 5) % len(names)])
    for a, b in (tuple(x) for x in ALIASES):
        if lang in (a, b):
            put('lang-alias', 2, b if lang == a else a)
    if args:
        i = len(args) // 2
        if args[i]:
            put('arg-byte', 3, args[:i] + [flip(args[i], 0)] + args[i + 1:])
        put('arg-del', 3, args[:i] + args[i + 1:])
        put('arg-dup', 3, args[:i + 1] + args[i:])
        put('arg-empty', 3, args[:i] + [b''] + args[i:])
    else:
        put('arg-empty', 3, [b''])
    if len(args) >= 2:
        i = len(args) // 2 - 1 if len(args) > 2 else 0
        a, b = args[i], args[i + 1]
        if a != b:
            put('arg-swap', 3, args[:i] + [b, a] + args[i + 2:])
        # --- boundary shifts, split / merge
        if b:
            put('arg-shift', 3, args[:i] + [a + b[:1], b[1:]] + args[i + 2:])
        if a:
            put('arg-shift', 3, args[:i] + [a[:-1], a[-1:] + b] + args[i + 2:])
        put('arg-merge', 3, args[:i] + [a + b] + args[i + 2:])
    if args and len(args[0]) >= 2:
        put('arg-split', 3, [args[0][:1], args[0][1:]] + args[1:])
    if extra:
        put('extra-byte', 4, [flip(extra[0], 5)] + extra[1:])
        put('extra-del', 4, extra[1:])
        if len(extra) >= 2 and extra[0] != extra[1]:
            put('extra-swap', 4, [extra[1], extra[0]] + extra[2:])
    put('extra-add', 4, extra + [b'0123456789abcdef' * 4])
    # --- environment
    al = allow_list('allow_main' if level == 'c' else 'allow_pp')
    other = allow_list('allow_pp' if level == 'c' else 'allow_main')
    put('env-add-allowed', 5, env + [[al[-1], b'v']])
    put('env-add-allowed', 5, env + [[al[sum(d) % len(al)], b'w']])
    put('env-add-allowed-empty', 5, env + [[al[0], b'']])
    put('env-add-other', 5, env + [[b'HOME', b'/root']])
    for k in other:
        if k not in al:
            put('env-add-otherlist', 5, env + [[k, b'+-O3']])
            break
    for i, (k, v) in enumerate(env):
        if k in al:
            put('env-val', 5, env[:i] + [[k, v + b'x']] + env[i + 1:])
            put('env-del', 5, env[:i] + env[i + 1:])
            put('env-rename', 5, env[:i] + [[al[(al.index(k) + 1) % len(al)], v]] + env[i + 1:])
            # name/value shifts
            if v:
                put('env-shift', 5, env[:i] + [[k + v[:1], v[1:]]] + env[i + 1:])
            put('env-shift', 5, env[:i] + [[k[:-1], k[-1:] + v]] + env[i + 1:])
            put('env-shift-eq', 5, env[:i] + [[k + b'=' + v, b'']] + env[i + 1:])
            if i + 1 < len(env) and env[i + 1] != env[i]:
                put('env-swap', 5, env[:i] + [env[i + 1], env[i]] + env[i + 2:])
            break
    for i, (k, v) in enumerate(env):
        if k not in al:
            put('env-other-val', 5, env[:i] + [[k, v + b'x']] + env[i + 1:])
            put('env-other-del', 5, env[:i] + env[i + 1:])
            break
    # --- moves between lists
    def move(label, **kw):
        r2 = list(r)
        for k, v in kw.items():
            r2[int(k[1:])] = v
        out.append((label, r2))
    if args and is_hex64(args[-1]):
        move('move-arg-extra', _3=args[:-1], _4=[args[-1]] + extra)
    if extra:
        move('move-extra-arg', _3=args + [extra[0]], _4=extra[1:])
    for i, (k, v) in enumerate(env):
        if k in al:
            move('move-env-arg', _3=args + [k + b'=' + v], _5=env[:i] + env[i + 1:])
            break
    if args:
        move('move-arg-env', _3=args[:-1], _5=[[args[-1], b'']] + env)
    if level == 'c':
        pp = r[6]
        put('pp-byte', 6, flip(pp, len(pp) // 2) if pp else b'x')
        put('pp-append', 6, pp + b'\n')
        if len(pp) > 1:
            put('pp-trunc', 6, pp[:-1])
        # line ends are bytes of the translation unit like any other (they are kept inside raw string literals)
        if b'\r\n' in pp:
            put('pp-crlf-to-lf', 6, pp.replace(b'\r\n', b'\n', 1))
        elif b'\n' in pp:
            put('pp-lf-to-crlf', 6, pp.replace(b'\n', b'\r\n', 1))
        else:
            put('pp-lf-vs-crlf', 6, pp + b'\r\n')
            move('pp-lf-vs-crlf', _6=pp + b'\n')
        if args and (adversarial or not is_hex64((args[-1] + pp)[:64])):
            # (a 64-hex argument moved in front of the text is the recorded extra/pp ambiguity, finding C02-S10c)
            move('move-arg-pp', _3=args[:-1], _6=args[-1] + pp)
        if extra and adversarial:
            move('move-extra-pp', _4=extra[:-1], _6=extra[-1] + pp)
    else:
        path, inp, ig = r[6], r[7], r[8]
        put('path-byte', 6, flip(path, len(path) - 1))
        put('path-append', 6, path + b'x')
        # two names that differ only inside bytes that are not valid UTF-8 (legacy Latin-1 names)
        cut = path.rindex(b'/')
        put('path-nonutf8', 6, path[:cut] + b'/caf\xe9' + path[cut:])
        put('path-nonutf8', 6, path[:cut] + b'/caf\xe8' + path[cut:])
        hi = [i for i, c in enumerate(path) if c >= 0x80]
        if hi:
            put('path-nonutf8-byte', 6, path[:hi[-1]] + bytes([path[hi[-1]] ^ 1]) + path[hi[-1] + 1:])
        put('path-dir', 6, path[:path.rindex(b'/')] + b'/sub' + path[path.rindex(b'/'):])
        put('input-byte', 7, flip(inp, len(inp) // 2) if inp else b'x')
        put('input-append', 7, inp + b'\n')
        put('input-time', 7, inp + b'__TIME__')
        put('input-date', 7, inp + b' __DATE__')
        put('input-stamp', 7, b'__TIMESTAMP__' + inp)
        put('ignore-time', 8, 1 - (1 if ig else 0))
        put('mtime-secs', 9, r[9] + 1)
        put('mtime-secs', 9, r[9] + 256)
        put('mtime-nanos', 10, (r[10] + 1) % 1000000000)
        put('sde', 11, [b'1'] if r[11] != [b'1'] else [b'2'])
        put('sde-unset-vs-empty', 11, [] if r[11] else [b''])
        if r[11] and r[11][0]:
            put('sde-trunc', 11, [r[11][0][:-1]])

        if inp and inp[:1] not in (b'/', b'\0'):
            move('move-path-input', _6=path + inp[:1], _7=inp[1:])
    return out


def adversarial_c(rng):
    """The recorded boundary ambiguities (findings C02-S10b / C02-S10c): crafted preprocessor output."""
    r = gen_req_c(rng)
    r[0] = gen_hex64(rng)
    out = []
    tags = load_spec()['tags']
    pairs = [(n1, n2, t2[len(t1):]) for n1, t1 in tags for n2, t2 in tags
             if t2.startswith(t1) and len(t2) > len(t1) and n1 in HARNESS_LANGS and n2 in HARNESS_LANGS]
    if pairs:
        n1, n2, s = rng.choice(pairs)
        a = list(r); a[2] = n1.encode(); a[3] = []; a[4] = []; a[5] = []; a[6] = s + r[6].replace(b'\0', b'')
        b = list(a); b[2] = n2.encode(); b[6] = a[6][len(s):]
        out.append([[b'base', b'adv-lang-pp'], [a, b]])
    h = gen_hex64(rng)
    a = list(r); a[5] = []; a[6] = r[6].replace(b'\0', b''); a[4] = r[4] + [h]
    b = list(a); b[4] = r[4]; b[6] = h + a[6]
    out.append([[b'base', b'adv-extra-pp'], [a, b]])
    return out


def group(rng, r, level, maxmut):
    ms = mutants(r, level, {'C02-S10b', 'C02-S10c'} <= known_ids())
    if len(ms) > maxmut:
        ms = rng.shuffle(ms)[:maxmut]
    return [[b'base'] + [l.encode() for l, _ in ms], [r] + [m for _, m in ms]]


KNOWN_IDS = None


def known_ids():
    """open findings of this property, read once per process (at the moment the pipeline reads them, see legs())"""
    global KNOWN_IDS
    if KNOWN_IDS is None:
        KNOWN_IDS = set(k['id'] for k in pipeline.load_known(ID))
    return KNOWN_IDS


def gen_key(rng, tier):
    n = 3000 if tier == 'quick' else 40000
    out = [group(rng, gen_req_c(rng), 'c', 26) for _ in range(n)]
    if {'C02-S10b', 'C02-S10c'} <= known_ids():
        for _ in range(20 if tier == 'quick' else 200):
            out += adversarial_c(rng)
    return out


def gen_ppkey(rng, tier):
    n = 1000 if tier == 'quick' else 10000
    out = []
    for i in range(n):
        root = ('%s/%d' % (ROOT, i)).encode()
        out.append(group(rng, gen_req_p(rng, root), 'p', 20))
    return out


def s10d_pairs():
    """language l + path (s ++ p)  vs  the language whose tag is tag(l) ++ s + path p, for every tag extension s that
    starts with '/' (finding C02-S10d); only meaningful under the private root of leg ppkey-root"""
    tags = load_spec()['tags']
    out = []
    for n1, t1 in tags:
        for n2, t2 in tags:
            if t2.startswith(t1) and len(t2) > len(t1) and t2[len(t1):].startswith(b'/') and n1 in HARNESS_LANGS and n2 in HARNESS_LANGS:
                out.append((n1.encode(), n2.encode(), t2[len(t1):]))
    return out


def gen_ppkey_root(rng, tier):
    out = []
    for i in range(40 if tier == 'quick' else 400):
        out.append(group(rng, gen_req_p(rng, b'/r%d' % i), 'p', 8))
    if 'C02-S10d' in known_ids():
        for i, (l1, l2, s) in enumerate(s10d_pairs() * 5):
            r = gen_req_p(rng, b'/x')
            a = list(r); a[0] = gen_hex64(rng); a[2] = l1; a[3] = []; a[4] = []; a[5] = []; a[6] = s + b'/d%d/x.h' % i
            b = list(a); b[2] = l2; b[6] = a[6][len(s):]
            out.append([[b'base', b'adv-lang-path'], [a, b]])
    return out


VERSIONS = [None, b'"13.2.0"', b'"Ubuntu Clang 16.0.6 (23ubuntu4)"', b'"Apple LLVM 15.0.0 (clang-1500.3.9.4)"', b'4.2.1', b'']
# arms of detect_c_compiler that need further probes (or another front end) before a key exists: not driven here
INDIRECT = ('Msvc', 'Nvcc')


def gen_driver(rng, tier):
    s = load_spec()
    kinds = [d[0] for d in s.get('drivers', []) if d[1] not in INDIRECT]
    indirect = [d[0] for d in s.get('drivers', []) if d[1] in INDIRECT]
    versioned = set(d[0] for d in s.get('drivers', []) if d[3])
    kinds += [i for i in s.get('script_ids', []) if i not in kinds and i not in indirect]      # e.g. "unknown"
    out = []
    for _ in range(60 if tier == 'quick' else 600):
        ks = rng.shuffle(kinds)
        ds = []
        for k in ks:
            exe = rng.choice([b'c++', b'g++', b'clang++', b'nvc++'] if k.endswith('++') else [b'cc', b'gcc', b'clang', b'nvc'])
            ds.append([exe, k.encode(), []])
        v = rng.choice(VERSIONS)
        for d in ds:
            # a compiler struct without a `version` field (TaskingVX) ignores what the probe reports
            d[2] = [] if v is None or d[1].decode() not in versioned else [v]
        exe_bytes = rng.choice([b'', b'\x7fELF', gen_bytes(rng, 30, True)])
        out.append([[k.encode() for k in ks], ds, gen_text(rng, 30), exe_bytes])
    return out


def monitor_driver(case, out):
    labels, ds, ppt, exe = case
    vs = []
    if not isinstance(out, list) or len(out) != len(ds):
        return ['malformed implementation output %r' % (out,)]
    ids = load_spec().get('script_ids', [])
    for d, k in zip(ds, out):
        kind = d[1].decode('latin-1')
        if k in (b'panic', b'err', b'cannot_cache') or (k == b'undetected' and kind.endswith('++') and kind in ids):
            vs.append('compiler_id=%s (which the detection script can print): no key (%s)' % (kind, k.decode()))
    for i in range(len(ds)):
        for j in range(i + 1, len(ds)):
            ki, kj = out[i], out[j]
            if not isinstance(ki, bytes) or not isinstance(kj, bytes) or len(ki) != 64 or len(kj) != 64:
                continue
            a, b = ds[i][1].decode('latin-1'), ds[j][1].decode('latin-1')
            if a.endswith('++') != b.endswith('++') and ki == kj:
                vs.append('driver mode lost: the same binary (same digest, same version %r) detected as %s and as %s gets ONE key %s '
                          'for `-c foo.c -o foo.o` with the same preprocessor output: a C object would be served for the C++ driver'
                          % (ds[i][2], a, b, ki.decode()))
    return vs[:4]


def stats_driver(case, out):
    return ['kind=%s:%s' % (d[1].decode('latin-1'), 'key' if isinstance(k, bytes) and len(k) == 64 else k.decode() if isinstance(k, bytes) else '?')
            for d, k in zip(case[1], out if isinstance(out, list) else [])]


def shrink_driver(case):
    labels, ds, ppt, exe = case
    if len(ds) > 2:
        def family(k):
            k = k.decode('latin-1')
            return {'g++': 'gcc'}.get(k, k[:-2] if k.endswith('++') else k)
        pairs = [(i, j) for i in range(len(ds)) for j in range(i + 1, len(ds))]
        pairs.sort(key=lambda ij: family(ds[ij[0]][1]) != family(ds[ij[1]][1]))      # siblings of one family first
        for i, j in pairs:
            yield [[labels[i], labels[j]], [ds[i], ds[j]], ppt, exe]
    if ppt:
        yield [labels, ds, b'', exe]


# ------------------------------------------------------------------ leg flow: what REACHES the key functions
# steps = [exe, kind, version, env, extra files, ppmode]; all steps of a case run in one process and one directory.
FULL_VERSIONS = [
    [b'"Ubuntu Clang 16.0.6 (23ubuntu4)"', b'"Debian Clang 16.0.6 (1)"', b'"Clang 16.0.6 (https://github.com/llvm/llvm-project 7cbf1a25)"',
     b'"16.0.6"', b'16.0.6', b'"Clang 16.0.6 (https://github.com/llvm/llvm-project 0b2e3d1f)"'],
    [b'"13.2.1 20230801 (Red Hat 13.2.1-1)"', b'"13.2.1 20230801"', b'"13.2.1 20231205 (Red Hat 13.2.1-6)"', b'"13.2.1"'],
    [b'"4.2.1 Compatible Apple LLVM 15.0.0 (clang-1500.3.9.4)"', b'"4.2.1 Compatible Apple LLVM 15.0.0 (clang-1500.1.0.2.5)"'],
]


def gen_flow(rng, tier):
    out = []
    both = allow_list('allow_pp') + [k for k in allow_list('allow_main') if k not in allow_list('allow_pp')]
    noise = [[b'HOME', b'/root'], [b'PATH', b'/usr/bin']]
    reps = 1 if tier == 'quick' else 6
    for rep_i in range(reps):
        # (A) every variable on either allow-list: unset / empty / two values, with and without preprocessor-cache mode
        for K in both:
            kind = rng.choice([b'clang', b'clang++', b'gcc', b'g++'])
            v = [rng.choice(rng.choice(FULL_VERSIONS))]
            steps, labels = [], []
            for pm in (0, 1):
                for lab, env in ((b'unset', noise), (b'empty', noise + [[K, b'']]), (b'value', [[K, b'/opt/a']] + noise),
                                 (b'value2', noise + [[K, b'/opt/b']]), (b'noise', [[b'HOME', b'/home/u']] + noise[1:]),
                                 (b'reordered', list(reversed(noise)) + [[K, b'/opt/a']])):
                    steps.append([kind, kind, v, env, [], pm])
                    labels.append(lab + (b'-pp' if pm else b''))
            out.append([labels, steps])
        # (B) one binary, versions that differ only around the first dotted number
        for fam in FULL_VERSIONS:
            kind = rng.choice([b'clang', b'clang++', b'gcc', b'g++', b'apple-clang'])
            steps, labels = [], []
            for pm in (0, 1):
                for ver in fam:
                    steps.append([kind, kind, [ver], noise, [], pm])
                    labels.append(b'version' + (b'-pp' if pm else b''))
            out.append([labels, steps])
        # (C) extra hashed files rewritten between requests of one process: same size + same (old) mtime, same size +
        #     new mtime, other size, and back
        for nfiles in (1, 2):
            t = 1600000000 + rng.below(1000)
            a, b, c = b'fun:alpha\n', b'fun:gamma\n', b'fun:alphabet\n'
            seq = [(b'first', a, t), (b'same-size-same-mtime', b, t), (b'same-size-new-mtime', a, t + 7),
                   (b'other-size', c, t + 7), (b'back', a, t), (b'again', a, t)]
            for pm in (0, 1):
                steps, labels = [], []
                for lab, content, mt in seq:
                    files = [[b'e0.txt', content, mt]]
                    if nfiles == 2:
                        files.append([b'e1.txt', b'src:*\n', t])
                    steps.append([b'clang', b'clang', [b'"16.0.6"'], noise, files, pm])
                    labels.append(lab)
                out.append([labels, steps])
        # (D) the ORDERED list of hashed arguments: -arch pairs in both orders, repeated, single; other options around
        archs = [[b'x86_64', b'arm64'], [b'arm64', b'x86_64'], [b'arm64', b'x86_64', b'arm64'], [b'x86_64', b'arm64', b'arm64'],
                 [b'arm64'], [b'arm64', b'arm64'], [b'x86_64'], []]
        for kind in (b'clang', rng.choice([b'gcc', b'clang++', b'g++', b'apple-clang'])):
            for pm in (0, 1):
                steps, labels = [], []
                other = rng.choice([[], [b'-O2'], [b'-fPIC', b'-O2']])
                for al in archs:
                    extra = list(other[:1]) + sum(([b'-arch', a] for a in al), []) + list(other[1:])
                    steps.append([kind, kind, [b'"16.0.6"'], noise, [], pm, extra])
                    labels.append(b'arch-' + b'-'.join(al) if al else b'arch-none')
                out.append([labels, steps])
        # (E) more extra hashed files than any batch size a hashing helper is likely to use, the FIRST one large: the
        #     digests must stay in file order however the hashing tasks finish.  Same set of contents, rotated.
        for nf in (18, 33):
            small = [b'fun:f%d\n' % i for i in range(nf - 1)]
            big = [b'src:big/*\n', 1 << 20]                      # 10 bytes x 2^20
            t = 1600000000

            def files(contents):
                return [[b'e%d.txt' % i, c[0], t, c[1]] if isinstance(c, list) else [b'e%d.txt' % i, c, t] for i, c in enumerate(contents)]
            orders = [(b'big-first', [big] + small), (b'big-last', small + [big]), (b'big-first-again', [big] + small),
                      (b'big-second', small[:1] + [big] + small[1:])]
            for pm in (0, 1):
                out.append([[l for l, _ in orders],
                            [[b'clang', b'clang', [b'"16.0.6"'], noise, files(c), pm] for _, c in orders]])
        # (F) the input path as given: a symbolic link, its target, a copy, and spellings of one path
        for pm in (1, 0):
            inputs = [b'b/x.c', b'a/x.c', b'c/x.c', b'./b/x.c', b'b/../b/x.c', b'b/x.c']
            out.append([[b'input-' + i for i in inputs],
                        [[b'clang', b'clang', [b'"16.0.6"'], noise, [], pm, [], i] for i in inputs]])
    return out


def flow_views(st):
    exe, kind, ver, env, files, pm = st[:6]
    extra_args = tuple(st[6]) if len(st) > 6 else ()
    am, ap = allow_list('allow_main'), allow_list('allow_pp')
    inp = st[7] if len(st) > 7 else b'foo.c'
    base = (kind.endswith(b'++'), tuple(ver), tuple((f[1], f[3] if len(f) > 3 else 1) for f in files), tuple(f[0] for f in files))
    # the result key sees the input only through the (mocked, constant) preprocessor output; the manifest key hashes
    # cwd.join(input) as given
    return (base + (tuple(sorted((k, v) for k, v in env if k in am)), extra_args),
            base + (tuple(sorted((k, v) for k, v in env if k in ap)), extra_args, inp))


def monitor_flow(case, out):
    labels, steps = case
    vs = []
    if not isinstance(out, list) or len(out) != len(steps):
        return ['malformed implementation output %r' % (out,)]
    for i, o in enumerate(out):
        if not (isinstance(o, list) and len(o) == 2):
            vs.append('step %d (%s): no key (%r)' % (i, labels[i].decode(), o))
    views = [flow_views(st) for st in steps]
    names = ('C++ driver', 'reported version', 'contents of the extra hashed files', 'extra file names', 'allow-listed environment',
             'ordered list of hashed arguments', 'input path as given')
    for i in range(len(steps)):
        for j in range(i + 1, len(steps)):
            if not (isinstance(out[i], list) and isinstance(out[j], list) and len(out[i]) == 2 and len(out[j]) == 2):
                continue
            for which, what in ((0, 'result key'), (1, 'preprocessor-cache key')):
                ki, kj = out[i][which], out[j][which]
                if ki == b'none' or kj == b'none':
                    if which == 1 and i + 1 == j and (ki == b'none') != (not steps[i][5]):
                        vs.append('step %d: preprocessor-cache mode %d but manifest key %r' % (i, steps[i][5], ki))
                    continue
                a, b = views[i][which], views[j][which]
                if a != b and ki == kj:
                    diff = ', '.join(n for n, x, y in zip(names, a, b) if x != y)
                    vs.append('generate_hash_key: steps %d (%s) and %d (%s) of one server process differ in [%s] (%s vs %s) but the %s '
                              'that reaches the storage is the same: %s'
                              % (i, labels[i].decode(), j, labels[j].decode(), diff,
                                 repr([x for x, y in zip(a, b) if x != y])[:300], repr([y for x, y in zip(a, b) if x != y])[:300], what, ki.decode('latin-1')))
                if a == b and ki != kj:
                    vs.append('generate_hash_key: steps %d (%s) and %d (%s) agree on every hashed component but get different %ss'
                              % (i, labels[i].decode(), j, labels[j].decode(), what))
    return vs[:4]


def shrink_flow(case):
    labels, steps = case
    if len(steps) > 2:
        # keep the order (the steps share one process): every pair, earlier step first
        for i in range(len(steps)):
            for j in range(i + 1, len(steps)):
                yield [[labels[i], labels[j]], [steps[i], steps[j]]]


def stats_flow(case, out):
    return ['step=' + l.decode() for l in case[0]]


# ------------------------------------------------------------------ leg reader: file-content digests, piece by piece
def cut(data, sizes):
    out, i = [], 0
    for n in sizes:
        if i >= len(data):
            break
        out.append(data[i:i + n])
        i += n
    if i < len(data):
        out.append(data[i:])
    return [p for p in out if p]


def gen_reader(rng, tier):
    out = []
    sizes = [0, 1, 7, 300, 4096, 5000, 70000, 131072, 131073, 200000] if tier == 'quick' else \
            [0, 1, 7, 300, 4096, 5000, 65536, 70000, 131071, 131072, 131073, 200000, 300000, 400000]
    for n in sizes:
        data = bytes((i * 131 + (i >> 8) * 7 + n) & 0xff for i in range(n))
        members, labels = [], []

        def add(label, mode, pieces):
            labels.append(label)
            members.append([mode, pieces])
        add(b'whole', b'pieces', [data] if data else [])
        add(b'file', b'file', [data] if data else [])
        if n <= 5000:
            add(b'bytewise', b'pieces', [data[i:i + 1] for i in range(n)])
        add(b'4k', b'pieces', cut(data, [4096] * (n // 4096 + 1)))
        add(b'64k-then-rest', b'pieces', cut(data, [65536]))
        add(b'one-then-rest', b'macros', cut(data, [1]))
        add(b'random', b'pieces', cut(data, [rng.range(1, 9000) for _ in range(60)]))
        add(b'random-macros', b'macros', cut(data, [rng.range(1, 70000) for _ in range(12)]))
        if 1 < n <= 70000:
            add(b'fifo-two-chunks', b'fifo', cut(data, [n // 3]))
        if n > 1:
            # a file that differs only AFTER the first piece
            other = data[:n // 3] + bytes([data[n // 3] ^ 1]) + data[n // 3 + 1:]
            add(b'changed-later', b'pieces', cut(other, [n // 3]))
            if n <= 70000:
                add(b'changed-later-fifo', b'fifo', cut(other, [n // 3]))
        out.append([labels, members])
    return out


def monitor_reader(case, out):
    labels, members = case
    vs = []
    if not isinstance(out, list) or len(out) != len(members):
        return ['malformed implementation output %r' % (out,)]
    datas = [b''.join(m[1]) for m in members]
    for i, o in enumerate(out):
        if not (isinstance(o, bytes) and len(o) == 64):
            vs.append('member %d (%s): no digest (%r)' % (i, labels[i].decode(), o))
    for i in range(len(members)):
        for j in range(i + 1, len(members)):
            a, b = out[i], out[j]
            if not (isinstance(a, bytes) and isinstance(b, bytes) and len(a) == 64 and len(b) == 64):
                continue
            if datas[i] == datas[j] and a != b:
                vs.append('Digest of the same %d bytes depends on how the reader delivers them: %s (%s, %d pieces) -> %s, %s (%s, %d pieces) -> %s'
                          % (len(datas[i]), labels[i].decode(), members[i][0].decode(), len(members[i][1]), a.decode(),
                             labels[j].decode(), members[j][0].decode(), len(members[j][1]), b.decode()))
            if datas[i] != datas[j] and a == b:
                vs.append('two different contents (%d bytes, first difference at byte %d) get ONE digest %s: %s (%s, pieces %s) and %s (%s, pieces %s)'
                          % (len(datas[i]), next(k for k in range(min(len(datas[i]), len(datas[j]))) if datas[i][k] != datas[j][k]),
                             a.decode(), labels[i].decode(), members[i][0].decode(), [len(p) for p in members[i][1]][:6],
                             labels[j].decode(), members[j][0].decode(), [len(p) for p in members[j][1]][:6]))
    return vs[:4]


def shrink_reader(case):
    labels, members = case
    if len(members) > 2:
        for i in range(len(members)):
            for j in range(i + 1, len(members)):
                yield [[labels[i], labels[j]], [members[i], members[j]]]


def gen_lp(rng, tier):
    out = [b'', b'a', b'\0', bytes(range(256)), b'=' * 61, b'x' * 255, b'x' * 256, b'x' * 257, b'y' * 65536, b'z' * 65537]
    for _ in range(3000 if tier == 'quick' else 30000):
        out.append(gen_bytes(rng, 40, True))
    return out


# ------------------------------------------------------------------ monitors (the property on the REAL keys)

def excuse_c(a, b):
    """Why a pair with different components may share a key without contradicting the claimed theorem:
    None = no excuse (a genuine violation); 'skip' = outside the well-formedness the claim is made under;
    otherwise the id of the recorded finding."""
    if not (basic_ok_c(a) and basic_ok_c(b)):
        return 'skip'
    if tag_ext_prefix(a[2], a[6]) or tag_ext_prefix(b[2], b[6]):
        return 'C02-S10b'
    if len(a[4]) != len(b[4]) and (is_hex64(a[6][:64]) or is_hex64(b[6][:64])):
        return 'C02-S10c'
    return None


def excuse_p(a, b):
    if not (basic_ok_p(a) and basic_ok_p(b)):
        return 'skip'
    if tag_ext_prefix(a[2], a[6]) or tag_ext_prefix(b[2], b[6]):
        return 'C02-S10d'
    return None


def describe_diff(ca, cb, names):
    return ', '.join(n for n, x, y in zip(names, ca, cb) if x != y)


def make_monitor(level):
    canon = canon_c if level == 'c' else canon_p
    excuse = excuse_c if level == 'c' else excuse_p
    names = (['compiler digest', 'plusplus', 'language', 'arguments', 'extra hashes', 'allow-listed environment', 'preprocessor output']
             if level == 'c' else
             ['compiler digest', 'plusplus', 'language', 'arguments', 'extra hashes', 'allow-listed environment', 'input path', 'input file',
              'date / SOURCE_DATE_EPOCH / mtime as far as the file mentions __DATE__ / __TIMESTAMP__'])
    fn = 'hash_key' if level == 'c' else 'preprocessor_cache_entry_hash_key'

    def monitor(case, out):
        labels, reqs = case
        vs = []
        if not isinstance(out, list) or len(out) != len(reqs):
            return ['malformed implementation output %r' % (out,)]
        cs = [canon(r) for r in reqs]
        for i, (r, k) in enumerate(zip(reqs, out)):
            if level == 'p':
                want_none = (not r[8]) and (b'__TIME__' in r[7])
                if want_none != (k == b'none'):
                    vs.append('request %d: time-macro gate: key is %r but the input %s __TIME__ (ignore_time_macros=%d)'
                              % (i, k, 'mentions' if b'__TIME__' in r[7] else 'does not mention', r[8]))
            if k == b'date_changed':
                continue
            if k in (b'err', b'unknown_lang') or not isinstance(k, bytes):
                vs.append('request %d: no key computed (%r)' % (i, k))
        # main-key variables must also be part of the pp-level key (S16): checked on the real pp-level keys
        for i in range(len(reqs)):
            for j in range(i + 1, len(reqs)):
                ki, kj = out[i], out[j]
                if ki == b'none' or kj == b'none' or not isinstance(ki, bytes) or not isinstance(kj, bytes):
                    continue
                if b'date_changed' in (ki, kj):
                    continue
                same = cs[i] == cs[j]
                if same and level == 'p' and fenv(reqs[i], 'allow_main') != fenv(reqs[j], 'allow_main'):
                    if ki == kj:
                        vs.append('S16: requests %d (%s) and %d (%s) differ in a variable of hash_key\'s allow-list %r vs %r but get the '
                                  'same preprocessor-level key: a direct-mode hit returns the result of the other environment'
                                  % (i, labels[i].decode(), j, labels[j].decode(), fenv(reqs[i], 'allow_main'), fenv(reqs[j], 'allow_main')))
                    continue
                if same and ki != kj:
                    vs.append('%s: requests %d (%s) and %d (%s) agree on every hashed component but get different keys'
                              % (fn, i, labels[i].decode(), j, labels[j].decode()))
                if not same and ki == kj:
                    ex = excuse(reqs[i], reqs[j])
                    if ex == 'skip':
                        continue
                    vs.append('%s%s: requests %d (%s) and %d (%s) differ in [%s] but get the same key %s'
                              % ('[%s] ' % ex if ex else '', fn, i, labels[i].decode(), j, labels[j].decode(),
                                 describe_diff(cs[i], cs[j], names), ki.decode('latin-1')))
        return vs[:6]
    return monitor


def classify(case, out, v):
    for fid in ('C02-S10b', 'C02-S10c', 'C02-S10d'):
        if v.startswith('[%s] ' % fid):
            return fid
    return None


def stats(case, out):
    labels, reqs = case
    r = reqs[0]
    ks = ['nargs=%s' % bucket(len(r[3])), 'nextra=%d' % len(r[4]), 'nenv=%d' % min(len(r[5]), 7),
          'lang=%s' % r[2].decode('latin-1'), 'group=%s' % bucket(len(reqs)),
          'text=%s' % bucket(len(r[6] if len(r) == 7 else r[7]))]
    if len(r) > 7:
        v = salt_view(r)
        ks.append('salt=' + ('gated' if (not r[8] and b'__TIME__' in r[7]) else 'none' if v is None else
                             '+'.join(n for n, x in zip(('date', 'mtime'), v) if x is not None)))
    ks += ['mut=' + l.decode() for l in labels[1:]]
    for x in (out if isinstance(out, list) else []):
        if x == b'none':
            ks.append('key=none')
    return ks


def bucket(n):
    for b in (0, 1, 2, 4, 8, 16, 32, 64, 128, 256, 1024):
        if n <= b:
            return '<=%d' % b
    return '>1024'


def shrink(case):
    labels, reqs = case
    if len(reqs) > 2:
        for j in range(1, len(reqs)):
            yield [[labels[0], labels[j]], [reqs[0], reqs[j]]]
        for j in range(len(reqs)):
            yield [[labels[j]], [reqs[j]]]
        return
    if len(reqs) == 2:
        for j in range(2):
            yield [[labels[j]], [reqs[j]]]
    for idx in (3, 4, 5):
        n = max(len(r[idx]) for r in reqs)
        for i in range(n):
            yield [labels, [r[:idx] + [r[idx][:i] + r[idx][i + 1:]] + r[idx + 1:] for r in reqs]]
    for idx in ((6,) if len(reqs[0]) == 7 else (7,)):
        for r0 in reqs:
            if len(r0[idx]) > 1:
                yield [labels, [r[:idx] + [r[idx][:len(r[idx]) // 2]] + r[idx + 1:] for r in reqs]]
                yield [labels, [r[:idx] + [r[idx][len(r[idx]) // 2:]] + r[idx + 1:] for r in reqs]]
                break


def make_neighbours(level):
    def neighbours(case):
        labels, reqs = case
        for r in reqs[:4]:
            ms = mutants(r, level, True)
            yield [[b'base'] + [l.encode() for l, _ in ms], [r] + [m for _, m in ms]]
    return neighbours


# ------------------------------------------------------------------ chaining model pre-image -> key

class Chain:
    """compare(model_line, impl_line): the model line is a list of pre-images; one persistent `c02 hashpre` process
    turns it into the list of keys (real BLAKE3 + util::hex), which must equal the implementation's line."""

    def __init__(self):
        self.p = None

    def start(self):
        self.p = subprocess.Popen([pipeline.harness_bin(HARNESS_BIN), 'hashpre'], stdin=subprocess.PIPE,
                                  stdout=subprocess.PIPE)
        atexit.register(self.close)

    def close(self):
        if self.p is not None:
            try:
                self.p.stdin.close()
                self.p.wait(timeout=5)
            except Exception:
                self.p.kill()
            self.p = None

    def hashed(self, m):
        if not m.startswith('('):
            return m
        if self.p is None or self.p.poll() is not None:
            self.start()
        self.p.stdin.write(m.encode() + b'\n')
        self.p.stdin.flush()
        return self.p.stdout.readline().decode().rstrip('\n')

    def __call__(self, m, i):
        h = self.hashed(m)
        if h == i:
            return True
        if 'date_changed' in i:
            # the local date moved on between generation and execution: those members are not comparable
            try:
                a, b = sx.loads(h), sx.loads(i)
                return len(a) == len(b) and all(y == b'date_changed' or x == y for x, y in zip(a, b))
            except Exception:
                return False
        return False


CHAIN = Chain()


def legs(tier):
    known_ids()
    return [
        Leg('lp', gen_lp, rule='what OsString::hash feeds through HashToDigest (8-byte LE length + bytes, no terminator) '
                               'on random byte strings incl. empty, NUL, non-UTF-8, lengths around 255/256/65536'),
        Leg('key', gen_key, monitor=make_monitor('c'), classify=classify, stats=stats, shrink=shrink,
            neighbours=make_neighbours('c'), compare=CHAIN,
            rule='groups = one structured request (0..40 args incl. empty/non-UTF-8/NUL, 0..3 extra hashes, environment with '
                 'allow-listed, look-alike and other variables, preprocessor-like text) + up to 26 of its mutants '
                 '(single-component changes, arg split/merge/boundary shifts, name/value shifts, moves between lists, '
                 'language pairs); BLAKE3(model pre-image) must equal the real key for every member and the real keys '
                 'must be equal exactly for members agreeing on all hashed components; distinct by case text'),
        Leg('ppkey', gen_ppkey, monitor=make_monitor('p'), classify=classify, stats=stats, shrink=shrink,
            neighbours=make_neighbours('p'), compare=CHAIN,
            rule='same for preprocessor_cache_entry_hash_key with a real input file per request (paths with spaces, '
                 'non-UTF-8 bytes, tag-like components), time-macro gate, both allow-lists; files with __DATE__ / '
                 '__TIMESTAMP__ get the mtime and SOURCE_DATE_EPOCH of the case (the date is the day of the run)'),
        Leg('driver', gen_driver, monitor=monitor_driver, stats=stats_driver, shrink=shrink_driver, compare=CHAIN,
            rule='every compiler_id the translator finds in detect_c_compiler (arms that build a compiler directly, plus '
                 'unhandled ids), all for ONE executable (same bytes, same version): real get_compiler_info through a '
                 'mock process creator, real parse_arguments + generate_hash_key; the model takes plusplus from the '
                 'translated table; a C and a C++ driver kind must never share the key'),
        Leg('flow', gen_flow, monitor=monitor_flow, stats=stats_flow, shrink=shrink_flow, compare=lambda m, i: True,
            rule='monitor-only leg (no model output): sequences of requests through the real get_compiler_info / '
                 'parse_arguments / generate_hash_key in ONE process on a storage that records the manifest key: every '
                 'variable of either allow-list unset/empty/two values/reordered with preprocessor-cache mode off and on; '
                 'one binary with full version strings that share the first dotted number; extra hashed files rewritten '
                 'between requests (same size + same old mtime, same size + new mtime, other size, back); keys must '
                 'differ exactly when a hashed component differs'),
        Leg('reader', gen_reader, monitor=monitor_reader, shrink=shrink_reader, compare=CHAIN,
            stats=lambda case, out: ['mode=%s' % m[0].decode() for m in case[1]],
            rule='file-content digests: the real Digest::reader_sync / reader_sync_time_macros on a Read that delivers one '
                 'piece per call (1 byte, 4 KiB, 64 KiB then rest, random), Digest::reader_sync on a real FIFO written in '
                 'two chunks, Digest::file on a regular file, sizes around the 128 KiB buffer; against BLAKE3 of all bytes '
                 '(model: loop_fed) and against each other; a change after the first piece must change the digest'),
        Leg('ppkey-root', gen_ppkey_root, monitor=make_monitor('p'), classify=classify, stats=stats, shrink=shrink,
            compare=CHAIN,
            rule='the same leg inside a private root directory (chroot under /dev/shm), so that absolute paths which '
                 'begin with a tag extension (/c++/...) can exist: replays finding C02-S10d'),
    ]


# ------------------------------------------------------------------ search guided by the OBSERVED length prefix
# The injectivity proof leans on the shape of what `OsString::hash` feeds before the bytes (8 bytes, the last one NUL).
# The search below does not assume it: it reads the real prefix p(n) off the `lp` harness leg and builds the requests
# that would collide if p(n) could continue / be continued by a neighbouring, undelimited component (language tag,
# 64-hex extra hashes, "=" of a variable, preprocessor text, input path).  With the real 8-byte prefix it finds no
# candidate at all; with any other encoding the candidates are evaluated on the REAL key functions.

def learn_prefix(nmax=420):
    """n -> the bytes that reach the Digest before an n-byte string hashed through HashToDigest (harness leg lpx:
    the real digest is matched against candidate announcements); None if there is a suffix / no match"""
    table = {}
    for f in (b'x', b'Q'):
        lines = [sx.dumps(f * n) for n in range(nmax)]
        outs = pipeline.run_sharded([pipeline.harness_bin(HARNESS_BIN), 'lpx'], lines)
        for n, o in enumerate(outs):
            v = pipeline.parse_out(o)
            if not (isinstance(v, list) and len(v) == 2 and isinstance(v[0], bytes) and v[1] == b''):
                continue                # unknown announcement (or a terminator) for this length: not used
            if table.setdefault(n, v[0]) != v[0]:
                return None             # depends on the contents: not a length announcement
    return table or None


def printable_fill(n, start=b''):
    body = start + b'-DADVERSARIAL_MACRO_NAME=' * (n // 20 + 1)
    return body[:n]


def solve_len(p, z):
    """n and a with  p(n) ++ a == z  and  len(a) == n"""
    for n in range(max(0, len(z) - 12), len(z) + 1):
        if n in p and len(p[n]) + n == len(z) and z.startswith(p[n]):
            return z[len(p[n]):]
    return None


def adversarial_groups(p, rng):
    """-> {'key': [group..], 'ppkey': [group..]} built from the observed prefix table p"""
    spec = load_spec()
    tags = [(n.encode(), t) for n, t in spec['tags'] if n in HARNESS_LANGS]
    out = {'key': [], 'ppkey': []}
    d = gen_hex64(rng)
    text = b'# 1 "x.c"\nint x;\n'
    base_c = [d, 0, b'C', [], [], [], text]
    base_p = lambda i: [d, 0, b'C', [], [], [], ('%s/adv/%d/x.c' % (ROOT, i)).encode(), b'int x;\n', 0, 1700000000, 0, [], today()]
    serial = [0]

    def both(label, fa, fb):
        a, b = list(base_c), list(base_c)
        fa(a); fb(b)
        out['key'].append([[b'base', label], [a, b]])
        serial[0] += 1
        a, b = base_p(serial[0]), base_p(serial[0])
        fa(a); fb(b)
        out['ppkey'].append([[b'base', label], [a, b]])

    # (a) language tag <-> first argument:  (l1, [a..]) vs (l2, [b..]) with tag(l2) = tag(l1) ++ s and p(|a|) a = s p(|b|) b
    for l1, t1 in tags:
        for l2, t2 in tags:
            if not (t2.startswith(t1) and len(t2) > len(t1)):
                continue
            sfx = t2[len(t1):]
            found = 0
            for m in range(0, 400):
                if m not in p:
                    continue
                b_arg = printable_fill(m)
                a_arg = solve_len(p, sfx + p[m] + b_arg)
                if a_arg is None or 0 in a_arg:
                    continue
                for rest in ([], [b'-O2']):
                    both(b'adv-tag-arg',
                         lambda r, a_arg=a_arg, rest=rest, l1=l1: (r.__setitem__(2, l1), r.__setitem__(3, [a_arg] + rest)),
                         lambda r, b_arg=b_arg, rest=rest, l2=l2: (r.__setitem__(2, l2), r.__setitem__(3, [b_arg] + rest)))
                found += 1
                if found >= 3:
                    break
    # (b) arguments <-> extra hashes: all-hex arguments whose announced lengths are hex digits too, re-cut into 64s
    hexlens = [n for n in sorted(p) if 1 <= n <= 200 and p[n] and all(c in HEX for c in p[n])]
    combos = []
    for a1 in hexlens:
        for a2 in hexlens:
            if (len(p[a1]) + a1 + len(p[a2]) + a2) % 64 == 0:
                combos.append((a1, a2))
            for a3 in hexlens[:40]:
                if (len(p[a1]) + a1 + len(p[a2]) + a2 + len(p[a3]) + a3) % 64 == 0:
                    combos.append((a1, a2, a3))
            if len(combos) > 6:
                break
        if len(combos) > 6:
            break
    for lens in combos[:6]:
        args = [bytes(HEX[(i + j) % 16] for j in range(n)) for i, n in enumerate(lens)]
        flat = b''.join(p[len(a)] + a for a in args)
        chunks = [flat[i:i + 64] for i in range(0, len(flat), 64)]
        both(b'adv-args-extras',
             lambda r, args=args: r.__setitem__(3, args),
             lambda r, chunks=chunks: r.__setitem__(4, chunks))
    # (c) last argument <-> preprocessor text (result key only: nothing may stand between them)
    cands = [n for n in sorted(p) if 1 <= n <= 300 and p[n] and 0 not in p[n]]
    cands.sort(key=lambda n: (p[n][:1] != b'#', n))
    for n in cands[:8]:
        a_arg = printable_fill(n, b' 1 "some/file.c"\n' if p[n] == b'#' else b'')
        a, b = list(base_c), list(base_c)
        a[3] = [b'-O2', a_arg]
        b[3] = [b'-O2']
        b[6] = p[n] + a_arg + text
        out['key'].append([[b'base', b'adv-arg-text'], [a, b]])
    # (d) "=" of a variable <-> an argument:  args [K, a2] vs env [(K, v)]  with  p(|a2|) a2 = "=" p(|v|) v
    K = allow_list('allow_main')[0]
    found = 0
    for m in range(0, 300):
        if m not in p:
            continue
        v = printable_fill(m)
        a2 = solve_len(p, b'=' + p[m] + v)
        if a2 is None or 0 in a2:
            continue
        both(b'adv-env-arg',
             lambda r, a2=a2: r.__setitem__(3, [K, a2]),
             lambda r, v=v: r.__setitem__(5, [[K, v]]))
        found += 1
        if found >= 3:
            break
    # (e) last argument <-> input path (preprocessor-level key): p(n) must be "/" so that the path stays absolute
    root = ROOT.encode()
    for n in sorted(p):
        if p[n] == b'/' and n > len(root) + 2:
            serial[0] += 1
            a, b = base_p(serial[0]), base_p(serial[0])
            a_arg = root[1:] + b'/' + b'a' * (n - len(root) - 1) + b'/'
            a[3] = [b'-O2', a_arg]
            b[3] = [b'-O2']
            b[6] = b'/' + a_arg + a[6]
            out['ppkey'].append([[b'base', b'adv-arg-path'], [a, b]])
            break
    return out


def le64(n):
    return n.to_bytes(8, 'little')


def prefix_search(rep, known):
    from ..prng import Rng
    p = learn_prefix()
    if p is None:
        rep.notes.append('prefix search: what reaches the Digest through HashToDigest is not <announcement of the length> ++ <bytes> for any announcement tried')
        return
    deviates = [n for n in sorted(p) if p[n] != le64(n)] + [n for n in range(420) if n not in p]
    groups = adversarial_groups(p, Rng(rep.seed).fork(ID + ':prefix-search'))
    info = dict(observed_prefix='8-byte little-endian length' if not deviates else
                'differs from the 8-byte little-endian length, e.g. p(%d)=%s' % (deviates[0], p.get(deviates[0], b'?').hex()),
                candidates=sum(len(v) for v in groups.values()), violations=0)
    by = {l.name: l for l in legs(rep.tier)}
    for name, gs in groups.items():
        if not gs:
            continue
        leg = by[name]
        outs = pipeline.run_sharded([pipeline.harness_bin(HARNESS_BIN), name], [sx.dumps(g) for g in gs])
        for g, o in zip(gs, outs):
            rep.evaluations += 1
            io = pipeline.parse_out(o)
            for v in leg.monitor(g, io):
                fid = leg.classify(g, io, v)
                if fid and any(k['id'] == fid for k in known):
                    rep.known_hits[fid] = rep.known_hits.get(fid, 0) + 1
                    continue
                info['violations'] += 1
                if info['violations'] <= 3:
                    rep.violation('property', name, g, v + ' (pair built from the length prefix observed on the real '
                                  'HashToDigest: %s)' % info['observed_prefix'])
    rep.legs['prefix-search'] = info
    log('prefix search: %s; %d candidate pairs, %d violations' % (info['observed_prefix'], info['candidates'], info['violations']))


def log(*a):
    pipeline.log(*a)


def extra(rep, known):
    CHAIN.close()
    try:
        prefix_search(rep, known)
    finally:
        cleanup()
    if 'key' in rep.legs:
        return
    # The model could not be built (e.g. a side condition of Gen/C02HashSpec_ok.v fails).  Search for a failing
    # input on the real functions alone: the monitors do not need the model.
    from ..prng import Rng
    for leg in legs(rep.tier)[1:]:
        rng = Rng(rep.seed).fork(ID + ':' + leg.name)
        cases = pipeline.corpus_cases(ID, leg.name) + list(leg.gen(rng, 'quick'))
        lines = [sx.dumps(c) for c in cases]
        outs = pipeline.run_sharded([pipeline.harness_bin(HARNESS_BIN), leg.name], lines)
        nv = 0
        for case, o in zip(cases, outs):
            rep.evaluations += 1
            io = pipeline.parse_out(o)
            for v in leg.monitor(case, io):
                fid = leg.classify(case, io, v)
                if fid and any(k['id'] == fid for k in known):
                    rep.known_hits[fid] = rep.known_hits.get(fid, 0) + 1
                    continue
                nv += 1
                if nv <= 3:
                    small = case
                    for cand in (leg.shrink(case) if leg.shrink else []):
                        o2 = pipeline.run_sharded([pipeline.harness_bin(HARNESS_BIN), leg.name], [sx.dumps(cand)], 1)
                        v2 = [w for w in leg.monitor(cand, pipeline.parse_out(o2[0])) if not leg.classify(cand, None, w)]
                        if v2:
                            small, v = cand, v2[0]
                            break
                    rep.violation('property', leg.name, small, v + ' (found on the implementation alone; the model was not built)')
        rep.legs[leg.name + ':impl-only'] = dict(cases=len(cases), violations=nv)
    cleanup()
