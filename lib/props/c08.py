"""C08 — cache entry encoding round-trips exactly and detects corruption.

Correspondence (tie D): the real CacheWrite/CacheRead (zip 0.6.6 + zstd) vs. the extracted Model/Zip.v.
  pack     artifact sets packed by the real writer; the model's writer, handed the real zstd frames, must produce
           the BYTE-IDENTICAL entry, and reading it back must give the original contents / modes / stdout / stderr
  read     an entry + corruptions (every truncation point and all 255 substitutions at every offset for small
           entries, sampled for large); the real reader's verdict per member must equal the model's
  extract  real files -> from_objects -> entry -> one corruption -> the cache-hit path incl. extract_objects on disk
The monitors evaluate the property itself on the REAL implementation's observations.  A failed member read is
observed together with the CLASS of its error (DecompressionFailure = the class get_cached_or_compile turns into a
miss, or any other type = the request fails); the model returns the miss class for every payload/CRC/zstd failure.
"""
import os
import subprocess
import sys

from .. import sx
from ..pipeline import Leg, harness_bin

ID = 'C08'
HARNESS_BIN = 'c08'
RUN_MODULE = 'Run.C08'
THEOREMS = ['C08_roundtrip', 'C08_roundtrip_every_level', 'C08_pack_history_roundtrip', 'C08_pack_history_independent',
            'C08_zstd_level_is_i32', 'C08_crc_single_byte', 'C08_data_region', 'C08_payload_corruption_detected',
            'C08_glue_members_wellformed', 'C08_truncation_detected', 'C08_header_corruption_files_partial', 'C08_local_header_substitution_ignored',
            'C08_extracted_bytes_match_recorded_crc', 'C08_mode_unprotected_refuted', 'C08_stdout_dropped_refuted',
            'C08_optional_member_dropped_refuted', 'C08_roundtrip_unguarded_refuted']
ASSUMPTIONS = [
    'zstd is abstract: a pair compress/decompress with decompress (compress x) = Some x; the zstd frame format is '
    'not modelled (the differential legs hand the REAL frames produced by the real writer to the model as opaque '
    'payloads, and check on every case that the real decoder inverts the real encoder)',
    'zip64 is not modelled on the writer side: the theorems assume `writable` (every member < 4 GiB, fewer than '
    '65536 members, directory offset/size < 4 GiB), the guard under which zip 0.6.6 writes no zip64 record; the '
    'reader model does include the ZIP64 locator probe and record search, because corrupt input can reach them',
    'round-trip needs pairwise distinct member names shorter than 65536 bytes (the writer stores `len as u16` and '
    'never checks duplicates; a later duplicate wins on read) and none of them equal to stdout/stderr',
    'round-trip needs that the 4 bytes 42 bytes before the end of the entry are not the ZIP64 locator signature '
    '(they fall into the last directory header: its name for names >= 20 bytes, its offset field for a 16-byte '
    'name); zip 0.6.6 would otherwise take the entry for a ZIP64 archive — stated as the decidable hypothesis '
    '`no_z64_locator`',
    '"permission bits" are the nine rwx bits: FileOptions::unix_permissions keeps `mode & 0o777`, so '
    'setuid/setgid/sticky are not stored (observed on the real code; not a defect for compiler outputs)',
    'truncation theorem: assumes the end-of-central-directory signature occurs nowhere else in the entry '
    '(decidable, checked per case by the monitor; adversarial object contents can violate it)',
]
TRUSTED = [
    'the extract leg re-enacts the Cache::Hit arm of get_cached_or_compile decision for decision (open failure and any '
    'get_stdout/get_stderr error = miss; an extract_objects error = miss iff it downcasts to DecompressionFailure, else the '
    'request fails) on the REAL CacheRead errors; the arm itself is driven end to end by the thorough-tier e2e leg and by '
    'property C09\'s request-level harness',

    'hook: CacheRead::verif_members (name, data offset, stored size, crc of every member as the real zip reader '
    'locates it) — used to slice the real zstd frames out of the real entry',
    'Run/C08.v instantiates compress/decompress by the finite frame table of the case (first equal frame wins; '
    'no data decodes to empty content, as the real zstd stream decoder does)',
]

MASK = (1 << 64) - 1
WORDS = [b"warning:", b"unused", b"variable", b"error:", b"expected", b"';'", b"before", b"in", b"function",
         b"note:", b"main.c:", b"12:", b"declared", b"here", b"int", b"x", b"\n", b" ", b"-Wall", b"implicit",
         b"declaration", b"of"]


class SM:
    def __init__(self, s):
        self.s = s & MASK

    def next(self):
        self.s = (self.s + 0x9E3779B97F4A7C15) & MASK
        z = self.s
        z = ((z ^ (z >> 30)) * 0xBF58476D1CE4E5B9) & MASK
        z = ((z ^ (z >> 27)) * 0x94D049BB133111EB) & MASK
        return z ^ (z >> 31)


def content(spec):
    """expand a content spec exactly like harness/src/bin/c08.rs"""
    if isinstance(spec, (bytes, bytearray)):
        return bytes(spec)
    t = spec[0]
    if t == b'zeros':
        return bytes(spec[1])
    if t == b'rand':
        g = SM(spec[1])
        n = spec[2]
        out = bytearray()
        while len(out) < n:
            out += g.next().to_bytes(8, 'little')
        return bytes(out[:n])
    if t == b'text':
        g = SM(spec[1])
        n = spec[2]
        out = bytearray()
        while len(out) < n:
            out += WORDS[g.next() % len(WORDS)] + b' '
        return bytes(out[:n])
    if t == b'rep':
        pat, n = spec[1], spec[2]
        out = bytearray()
        while len(out) < n and pat:
            out += pat
        return bytes(out[:n])
    return b''


def run_harness(leg, cases):
    if not cases:
        return []
    inp = ('\n'.join(sx.dumps(c) for c in cases) + '\n').encode()
    p = subprocess.run([harness_bin(HARNESS_BIN), leg], input=inp, stdout=subprocess.PIPE, stderr=subprocess.PIPE)
    lines = p.stdout.decode().split('\n')
    if lines and lines[-1] == '':
        lines.pop()
    if len(lines) != len(cases):
        raise RuntimeError('c08 %s helper died: rc=%s %s' % (leg, p.returncode, p.stderr.decode()[-500:]))
    return [sx.loads(l) for l in lines]


# ---------------------------------------------------------------------------------------------- generators
ASCII_NAMES = [b'obj', b'dwo', b'gcno', b'a', b'b', b'o', b'libfoo-1a2b3c4d.rlib', b'libfoo-1a2b3c4d.rmeta',
               b'foo-1a2b3c4d.d', b'out.o', b'x.obj', b'aa', b'ab', b'ba', b'stdout2', b'Stderr', b'0', b'_',
               b'dir/sub/file.o', b'with space', b'dot.', b'..', b'sixteen-bytes-nm', b'twenty-bytes-long-nm',
               b'seventeen-bytes-n', b'eighteen-bytes-nam', b'nineteen-bytes-name']
UTF8_NAMES = ['é.o'.encode(), '日本語.rlib'.encode(), 'naïve'.encode(), 'ß'.encode(), '😀.o'.encode(),
              'á'.encode(), 'Ω-ω'.encode(), '�'.encode(), 'x y'.encode(), 'é'.encode(), 'è'.encode()]
MODES = [0o644, 0o755, 0o600, 0o000, 0o4755, 0o2755, 0o1777, 0o777, 0o444, 0o100644, 0o100755, 0o7777, 0o40755, 1, 0]


def gen_name(rng, used, weird=True):
    for _ in range(50):
        k = rng.weighted([('ascii', 10), ('utf8', 4 if weird else 1), ('long', 2 if weird else 0), ('rnd', 3)])
        if k == 'ascii':
            n = rng.choice(ASCII_NAMES)
        elif k == 'utf8':
            n = rng.choice(UTF8_NAMES)
        elif k == 'long':
            ln = rng.choice([40, 41, 64, 128, 255, 256, 300, 1000])
            n = (rng.choice([b'long-', 'länge-'.encode()]) * ln)[:ln]
            try:
                n.decode('utf-8')
            except UnicodeDecodeError:
                n = n[:-1]
        else:
            n = bytes(rng.choice(b'abcdefgxyz019._-/') for _ in range(rng.range(1, 12)))
        if n not in used and n not in (b'stdout', b'stderr'):
            used.add(n)
            return n
    n = b'n%d' % len(used)
    used.add(n)
    return n


def zst_raw_frame(data):
    """a valid zstd frame holding `data` in one raw block (single segment, content size in the header)"""
    n = len(data)
    assert n < 65536 + 256
    if n < 256:
        hdr = b'\x28\xb5\x2f\xfd\x20' + bytes([n])
    else:
        hdr = b'\x28\xb5\x2f\xfd\x60' + (n - 256).to_bytes(2, 'little')
    return hdr + ((n << 3) | 1).to_bytes(3, 'little') + data


# contents that ARE zstd data or merely start with the frame magic 28 B5 2F FD: an output file can be a .zst, and a
# reader/writer pair that signals "compressed or not" in band would mistake them
ZST_CONTENTS = [b'\x28\xb5\x2f\xfd', b'\x28\xb5\x2f\xfd\x20\x00\x01\x00\x00', zst_raw_frame(b'abc'), zst_raw_frame(b''),
                b'\x28\xb5\x2f\xfd\x00\x58\x19\x00\x00abc', b'\x28\xb5\x2f\xfdnot a frame at all', b'\x28\xb5\x2f',
                zst_raw_frame(zst_raw_frame(b'twice')), zst_raw_frame(b'x') + zst_raw_frame(b'y'),
                zst_raw_frame(bytes((i * 37 + 11) % 251 for i in range(4096))),
                b'\x50\x2a\x4d\x18\x04\x00\x00\x00skip' + zst_raw_frame(b'after a skippable frame'), b'\x50\x2a\x4d\x18']


def gen_content(rng, cls):
    """cls: tiny | small | mid | large"""
    if cls in ('tiny', 'small') and rng.chance(1, 12):
        c = rng.choice(ZST_CONTENTS)
        if cls == 'small' or len(c) <= 16:
            return c
    if cls == 'tiny':
        n = rng.weighted([(0, 2), (1, 2), (2, 1), (4, 2), (7, 1)])
        return bytes(rng.below(256) for _ in range(n))
    if cls == 'small':
        k = rng.weighted([('lit', 4), ('empty', 1), ('text', 3), ('zeros', 1), ('rep', 1)])
        if k == 'empty':
            return b''
        if k == 'lit':
            return bytes(rng.below(256) for _ in range(rng.range(1, 60)))
        if k == 'text':
            return [b'text', rng.below(1 << 30), rng.range(64, 600)]
        if k == 'zeros':
            return [b'zeros', rng.range(64, 2000)]
        return [b'rep', bytes(rng.below(255) + 1 for _ in range(rng.range(1, 5))), rng.range(64, 900)]
    if cls == 'mid':
        k = rng.weighted([('text', 3), ('rand', 3), ('zeros', 1)])
        n = rng.choice([1000, 4096, 8191, 8192, 8193, 20000, 65535, 65536, 65537, 100000])
        return [k.encode(), rng.below(1 << 30), n] if k != 'zeros' else [b'zeros', n]
    n = rng.choice([131072, 131073, 262144, 500000, 1048576])
    k = rng.weighted([('text', 2), ('rand', 2), ('zeros', 1)])
    return [k.encode(), rng.below(1 << 30), n] if k != 'zeros' else [b'zeros', n]


# stdout/stderr values where an "empty means absent" shortcut bites: whitespace only, NUL only, single bytes,
# bytes that are not UTF-8, text framed by blanks
STDIO_SPECIAL = [b'\n', b' ', b'\r\n', b'\t\n\n', b'\x0c', b'\t', b'\r', b'\x0b', b'  \n', b'\n\n\n\n', b'\x00',
                 b'\x00\x00\x00', b'\x00\n', b'\xff', b'\x80', b'\xff\xfe', b'\xc3', b'\xc3\x28', b'\xed\xa0\x80', b'0', b'a',
                 b'\x1b[0m', b' warning \n', b'\xef\xbb\xbf', b'\x85', b'\xa0', b'\xe2\x80\x83',
                 b'\x28\xb5\x2f\xfd', b'\x28\xb5\x2f\xfd\x20\x03\x19\x00\x00abc', b'\x28\xb5\x2f\xfd\x20\x00\x01\x00\x00']


def gen_stdio(rng, cls):
    k = rng.weighted([('empty', 3), ('special', 3), ('byte', 2), ('blank', 1), ('content', 5)])
    if k == 'empty':
        return b''
    if k == 'special':
        return rng.choice(STDIO_SPECIAL)
    if k == 'byte':
        return bytes([rng.below(256)])
    if k == 'blank':
        return bytes(rng.choice(b' \t\n\r\x0c\x0b\x00') for _ in range(rng.range(1, 9)))
    return gen_content(rng, 'tiny' if cls == 'tiny' else 'small')


def gen_set(rng, cls, nmax=6, weird=True):
    """an artifact set: dict(objs=[[name, mode, content, optional, present]], so=content, se=content)"""
    used = set()
    n = rng.range(1, nmax + 1)
    objs = []
    for i in range(n):
        c = cls if (cls != 'large' or i == 0) else 'small'
        mode = rng.choice(MODES)
        objs.append([gen_name(rng, used, weird), mode, gen_content(rng, c), 1 if rng.chance(1, 3) else 0, 1])
    return dict(objs=objs, so=gen_stdio(rng, cls), se=gen_stdio(rng, cls))


def stdio_sets(values):
    """minimal artifact sets around special stdout/stderr values (they come first: the first violation is small)"""
    out = []
    for c in values:
        out.append(dict(objs=[[b'obj', 0o644, b'\x7fELF', 0, 1]], so=c, se=b''))
        out.append(dict(objs=[[b'obj', 0o644, b'\x7fELF', 0, 1]], so=b'', se=c))
    out.append(dict(objs=[[b'obj', 0o644, b'\x7fELF', 0, 1]], so=b'\n', se=b'\n'))
    out.append(dict(objs=[], so=b' ', se=b'\x00'))
    return out


def mode_sx(m):
    return b'none' if m is None else m


def env_sx(env):
    """the writer's SCCACHE_CACHE_ZSTD_LEVEL: None = unset -> ( ), bytes -> ( #bytes )"""
    return [] if env is None else [bytes(env)]


def prep_case(s):
    return [[[o[0], mode_sx(o[1]), o[2], b''] for o in s['objs'] if o[4]], [s['so'], b''], [s['se'], b''],
            env_sx(s.get('env'))]


def prepare(sets):
    """pack every set with the real writer; returns [(entry, members)] with members = [[name,start,len,crc]];
    (None, []) where the real writer failed — the callers must cope, a behaviour change is never a crash"""
    outs = run_harness('prep', [prep_case(s) for s in sets])
    res = []
    for o in outs:
        if not isinstance(o, list) or len(o) != 2 or not isinstance(o[0], (bytes, bytearray)) or not isinstance(o[1], list):
            res.append((None, []))
        else:
            res.append((bytes(o[0]), [m for m in o[1] if isinstance(m, list) and len(m) == 4]))
    return res


def content_frames(content_lists, envs=None):
    """the REAL zstd frame of every content.  Frames depend on the contents only, so each content is packed as an
    OBJECT of a sibling entry with harmless names (put_object always stores a member): independent of the rule
    by which the real writer decides whether a stdout/stderr is stored, and of odd object names."""
    envs = envs or [None] * len(content_lists)
    sib = [dict(objs=[[b'm%d' % i, 0o644, c, 0, 1] for i, c in enumerate(cs)], so=b'', se=b'', env=ev)
           for cs, ev in zip(content_lists, envs)]
    res = []
    for cs, (e, ms) in zip(content_lists, prepare(sib)):
        by = {bytes(m[0]): (m[1], m[2]) for m in ms} if e is not None else {}
        fr = []
        for i in range(len(cs)):
            a = by.get(b'm%d' % i)
            fr.append(e[a[0]:a[0] + a[1]] if a else b'')
        res.append(fr)
    return res


def set_frames(sets):
    """per set: (frames of the present objects in order, stdout frame, stderr frame); '' for empty stdout/stderr"""
    lists = [[o[2] for o in s['objs'] if o[4]] + [s['so'], s['se']] for s in sets]
    out = []
    for s, fr in zip(sets, content_frames(lists, [s.get('env') for s in sets])):
        out.append((fr[:-2], fr[-2] if content(s['so']) else b'', fr[-1] if content(s['se']) else b''))
    return out


def pack_case(s, frames):
    of, so_f, se_f = frames
    return [[[o[0], mode_sx(o[1]), o[2], f] for o, f in zip([o for o in s['objs'] if o[4]], of)],
            [s['so'], so_f], [s['se'], se_f]]


def expected_tokens(conts):
    """token of each content in a list: e if empty, else first index with the same bytes"""
    toks = []
    for i, c in enumerate(conts):
        if not c:
            toks.append(b'e')
        else:
            toks.append(next(j for j in range(i + 1) if conts[j] == c))
    return toks


def stored_perm(mode):
    return 0o100644 if mode is None else (0o100000 | (mode & 0o777))


# ---------------------------------------------------------------------------------------------- pack leg
def gen_pack(rng, tier):
    n = {'quick': (60, 70, 16, 4), 'thorough': (1500, 2500, 600, 40)}[tier]
    # first: every special stdout/stderr value around one small object (thorough: every single byte too)
    sets = stdio_sets(STDIO_SPECIAL + ([bytes([b]) for b in range(256)] if tier == 'thorough' else
                                       [bytes([b]) for b in (9, 10, 11, 12, 13, 32, 0, 1, 127, 128, 255)]))
    for c in ZST_CONTENTS:
        sets.append(dict(objs=[[b'obj', 0o644, c, 0, 1]], so=b'', se=b''))
    for cls, k in zip(('tiny', 'small', 'mid', 'large'), n):
        for _ in range(k):
            sets.append(gen_set(rng, cls))
    # writer corner cases: mode None, duplicate names, names equal to stdout/stderr, a name of 65536+ bytes
    sets.append(dict(objs=[[b'obj', None, b'\x01\x02\x03\x04', 0, 1]], so=b'compiler stdout', se=b'compiler stderr'))
    sets.append(dict(objs=[[b'a', 0o644, b'one', 0, 1], [b'a', 0o755, b'two', 0, 1]], so=b'', se=b''))
    sets.append(dict(objs=[[b'stderr', 0o644, b'imposter', 0, 1]], so=b'', se=b'real stderr'))
    sets.append(dict(objs=[[b'stdout', 0o644, b'imposter', 0, 1]], so=b'real', se=b''))
    sets.append(dict(objs=[[b'n' * 65536 + b'tail', 0o644, b'x', 0, 1]], so=b'', se=b''))
    sets.append(dict(objs=[[b'n' * 65535, 0o644, b'x', 0, 1]], so=b'', se=b''))
    sets.append(dict(objs=[], so=b'', se=b''))
    sets.append(dict(objs=[], so=b'only stdout', se=b''))
    sets.append(dict(objs=[[b'', 0o644, b'empty name', 0, 1]], so=b'', se=b''))
    # known finding C08-K2: a 20-byte last name starting with "PK\6\7" puts a ZIP64 locator signature where zip looks
    sets.append(dict(objs=[[b'PK\x06\x07' + b'x' * 16, 0o644, b'data', 0, 1]], so=b'', se=b''))
    sets.append(dict(objs=[[b'PK\x06\x07' + b'x' * 16, 0o644, b'data', 0, 1]], so=b'', se=b'not last any more'))
    return [pack_case(st, fr) for st, fr in zip(sets, set_frames(sets))]


def monitor_pack(case, out):
    objs, so, se = case
    vs = []
    if not isinstance(out, list) or not out:
        return ['malformed implementation output']
    names = [o[0] for o in objs]
    wellformed = len(set(names)) == len(names) and b'stdout' not in names and b'stderr' not in names \
        and all(len(n) < 65536 for n in names)
    if not wellformed:
        return []
    if out[0] in (b'write_err', b'panic'):
        return ['the real writer failed on a packable artifact set: %r' % out[0]]
    if len(out) != 4:
        r = out[0]
        if isinstance(r, list) and len(r) == 2 and r[0] == b'full' and len(r[1]) >= 42 and r[1][-42:-38] == b'PK\x06\x07':
            return ['KNOWN-CLASS z64-locator: the entry written by the real writer cannot be opened by the real reader '
                    '(the 4 bytes 42 bytes before its end read as a ZIP64 locator signature)']
        return ['the entry written by the real writer cannot be opened by the real reader']
    conts = [content(o[2]) for o in objs] + [content(so[0]), content(se[0])]
    toks = expected_tokens(conts)
    rs, so_v, se_v = out[1], out[2], out[3]
    if not isinstance(rs, list) or len(rs) != len(objs):
        return ['malformed implementation output (read-back of %d objects for %d)' % (len(rs) if isinstance(rs, list) else -1, len(objs))]
    for i, (o, r) in enumerate(zip(objs, rs)):
        if not isinstance(r, list) or len(r) != 2:
            vs.append('round trip: object %r cannot be read back (%r)' % (o[0][:40], r))
            continue
        mode, tok = r
        if tok != toks[i]:
            vs.append('round trip: object %r reads back with different contents' % o[0][:40])
        want = stored_perm(None if o[1] == b'none' else o[1])
        if mode != want:
            vs.append('round trip: object %r mode %r, expected %o' % (o[0][:40], mode, want))
    for nm, v, t, c in (('stdout', so_v, toks[-2], conts[-2]), ('stderr', se_v, toks[-1], conts[-1])):
        if not isinstance(v, list) or len(v) != 1:
            vs.append('round trip: %s %r cannot be read back (%r)' % (nm, c[:24], v))
        elif v[0] != t:
            if v[0] == b'e':
                vs.append('round trip: %s %r was packed as absent (or reads back empty): a hit returns EMPTY output' % (nm, c[:24]))
            else:
                vs.append('round trip: %s %r reads back differently' % (nm, c[:24]))
    return vs


def stats_pack(case, out):
    objs, so, se = case
    ks = ['members=%d' % len(objs)]
    for o in objs:
        ln = len(content(o[2]))
        ks.append('size=' + ('0' if ln == 0 else '<64' if ln < 64 else '<4K' if ln < 4096 else '<64K' if ln < 65536 else '<=1M'))
        ks.append('name=' + ('ascii' if all(b < 128 for b in o[0]) else 'utf8') + ('-long' if len(o[0]) >= 40 else ''))
        ks.append('mode=%s' % ('none' if o[1] == b'none' else oct(o[1])))
    ks.append('stdout=' + ('empty' if not content(so[0]) else 'nonempty'))
    ks.append('stderr=' + ('empty' if not content(se[0]) else 'nonempty'))
    if isinstance(out, list) and out and isinstance(out[0], list):
        ks.append('render=' + out[0][0].decode())
    return ks


# ---------------------------------------------------------------------------------------------- read leg
def expand_specs(specs, entry):
    """same order as the harness / Run.C08.expand_spec; yields (description, corrupted?)"""
    for s in specs:
        t = s[0]
        if t == b'none':
            yield ('none',)
        elif t == b'trunc':
            yield ('trunc', min(s[1], len(entry)))
        elif t == b'sub':
            yield ('sub', s[1], s[2])
        elif t == b'subrange':
            for j in range(s[1], min(s[2], len(entry))):
                for v in range(256):
                    if v != entry[j]:
                        yield ('sub', j, v)
        elif t == b'truncall':
            for i in range(len(entry)):
                yield ('trunc', i)


def read_case(s, entry, members, specs):
    """what MUST come back is taken from the inputs, what is stored from the real reader's view of the real entry"""
    present = [o for o in s['objs'] if o[4]]
    reqs = [[o[0], o[3]] for o in s['objs']]
    want = [(o[0], content(o[2]), stored_perm(o[1])) for o in present]
    if content(s['so']):
        want.append((b'stdout', content(s['so']), 0o100644))
    if content(s['se']):
        want.append((b'stderr', content(s['se']), 0o100644))
    by_name = {}
    for n, c, _ in want:
        by_name.setdefault(n, c)
    mconts = [by_name.get(bytes(m[0])) for m in members]          # None: a member the inputs do not explain
    frames = [[m[1], m[2], 1 if c == b'' else 0] for m, c in zip(members, mconts)]
    meta = []
    for n, c, perm in want:
        if not c:
            t = b'e'
        else:
            t = next((k for k, mc in enumerate(mconts) if mc == c), b'unstored')
        meta.append([n, t, perm, c[:24]])
    return [entry, reqs, frames, specs, meta]


def sample_specs(rng, entry, members, n_sub, n_trunc):
    L = len(entry)
    specs = [[b'none']]
    if L == 0:
        return specs
    members = [m for m in members if isinstance(m[1], int) and isinstance(m[2], int) and 0 <= m[1] <= m[1] + m[2] <= L]
    hdr = []      # offsets outside the payloads
    pos = 0
    for m in members:
        hdr += list(range(pos, m[1]))
        pos = max(pos, m[1] + m[2])
    hdr += list(range(pos, L))
    if not hdr:
        hdr = list(range(L))
    for _ in range(n_sub):
        if rng.chance(3, 4) or not members:
            j = rng.choice(hdr)
        else:
            m = rng.choice(members)
            j = m[1] + rng.below(max(m[2], 1))
        j = min(j, L - 1)
        v = rng.choice([entry[j] ^ (1 << rng.below(8)), rng.below(256), 0, 255])
        if v == entry[j]:
            v ^= 1
        specs.append([b'sub', j, v])
    for _ in range(n_trunc):
        k = rng.weighted([('any', 2), ('tail', 3), ('hdr', 2)])
        if k == 'any':
            i = rng.below(L)
        elif k == 'tail':
            i = max(0, L - 1 - rng.below(min(L, 80)))
        else:
            i = rng.choice(hdr)
        specs.append([b'trunc', i])
    return specs


def gen_read(rng, tier):
    cases = []
    # exhaustive corruption of small entries
    n_small = 6 if tier == 'quick' else 60
    sets = []
    tries = 0
    while len(sets) < n_small and tries < 40 * n_small:
        tries += 1
        s = gen_set(rng, 'tiny', nmax=3, weird=(len(sets) % 3 == 1))
        for o in s['objs']:
            if len(o[0]) > 14:
                o[0] = o[0][:14].decode('utf-8', 'ignore').encode() or b'q'
        names = [o[0] for o in s['objs']]
        if len(set(names)) != len(names):
            continue
        est = sum(76 + 2 * len(o[0]) + 9 + len(content(o[2])) for o in s['objs']) + 22 + 2 * 100
        if est > 520:
            continue
        sets.append(s)
    # the e2e witness shape of S14: one object + a stored stderr
    sets[0] = dict(objs=[[b'obj', 0o644, b'\x7fELF', 0, 1], [b'dwo', 0o644, b'dw', 1, 1]], so=b'', se=b'warn')
    # names at Hamming distance 1, the second one optional: a one-byte change in the directory makes them collide
    sets[1] = dict(objs=[[b'ab', 0o755, b'REQ', 0, 1], [b'aa', 0o600, b'opt', 1, 1]], so=b'o', se=b'')
    # a non-ASCII name (UTF-8 flag, CP437 / lossy decoding paths of the reader)
    sets[2] = dict(objs=[['é.o'.encode(), 0o4755, b'\x00\xff', 0, 1]], so=b'', se=b'\xc3')
    # output that is nothing but white space / a NUL byte
    sets[3] = dict(objs=[[b'o', 0o644, b'x', 0, 1]], so=b'\n', se=b'\x00')
    preps = prepare(sets)
    for s, (e, m) in zip(sets, preps):
        if e is None or (len(e) > 420 and tier == 'quick'):
            continue
        cases.append(read_case(s, e, m, [[b'none'], [b'truncall']]))
        step = 8
        for j0 in range(0, len(e), step):
            cases.append(read_case(s, e, m, [[b'subrange', j0, min(j0 + step, len(e))]]))
    # sampled corruption of larger entries
    n = {'quick': (70, 50, 10, 3), 'thorough': (1000, 1000, 200, 16)}[tier]
    sets = []
    for cls, k in zip(('tiny', 'small', 'mid', 'large'), n):
        for _ in range(k):
            s = gen_set(rng, cls)
            # an optional object that was never produced is requested too
            if rng.chance(1, 4):
                s['objs'].append([b'missing-opt', 0o644, b'', 1, 0])
            sets.append(s)
    sets = stdio_sets(STDIO_SPECIAL) + vary_level(rng, sets)
    sets.insert(0, dict(objs=[[b'obj', 0o644, b'\x7fELF', 0, 1], [b'dwo', 0o644, b'dw', 1, 1]], so=b'', se=b'warn', env=b'22'))
    sets.insert(1, dict(objs=[[b'obj', 0o644, [b'text', 7, 3000], 0, 1]], so=b'', se=b'w', env=b'20'))
    preps = prepare(sets)
    for s, (e, m) in zip(sets, preps):
        if e is None:
            continue
        big = len(e) > 200000
        cases.append(read_case(s, e, m, sample_specs(rng, e, m, 8 if big else 60, 3 if big else 20)))
    return cases


def eocd_sig_elsewhere(entry):
    return entry.find(b'PK\x05\x06', 0, len(entry) - 22 + 3) != -1


def judge(reqs, meta, so_v, se_v, rs, corrupted, in_dir=True):
    """the property on one observation of the hit path.  returns (violations, stats)"""
    vs = []
    st = []
    exp = {m[0]: (m[1], m[2]) for m in meta}
    preview = {m[0]: (m[3] if len(m) > 3 else b'') for m in meta}
    if 2 in [so_v, se_v] + [r for r in rs]:
        return ['the reader panicked'], ['verdict=panic']
    if so_v in (0, 3) or se_v in (0, 3):
        # get_cached_or_compile turns ANY error of get_stdout/get_stderr into a miss
        return [], ['verdict=miss-stdio' + ('-generic-error' if 3 in (so_v, se_v) else '')]
    files = []
    for (name, optional), r in zip(reqs, rs):
        if r == 3:
            # extract_objects would return this error; it is not a DecompressionFailure, so the caller propagates it
            return ['object %r: the failure is reported as a generic error, not as DecompressionFailure: '
                    'get_cached_or_compile fails the request instead of treating the entry as a miss' % name[:40]], ['verdict=fatal']
        if r in (0, 1):
            # the fixed extract_objects skips an optional object only when the directory has no such member (1)
            if optional and r == 1:
                files.append((name, None))
                continue
            return [], ['verdict=miss-object']
        if not isinstance(r, list) or len(r) != 2:
            return ['malformed verdict %r for object %r' % (r, name[:40])], ['verdict=malformed']
        files.append((name, r))
    if not (isinstance(so_v, list) and len(so_v) == 1 and isinstance(se_v, list) and len(se_v) == 1):
        return ['malformed stdout/stderr verdicts %r %r' % (so_v, se_v)], ['verdict=malformed']
    # the entry was accepted: a hit
    st.append('verdict=hit')
    optional_of = {name: optional for name, optional in reqs}

    def soft(name):
        # the recorded class C08-K1: a directory byte was altered and the damage is confined to stdout / stderr /
        # an optional object (a stored one vanishes, or shows up under the name of one that was not stored)
        return 'KNOWN-CLASS dir-unprotected: ' if in_dir and (name in (b'stdout', b'stderr') or optional_of.get(name)) \
            else ('directory intact: ' if not in_dir else '')
    for name, r in files:
        if r is None:
            if name in exp and exp[name][0] is not None:
                vs.append(soft(name) + 'hit, but the stored optional object %r was silently not restored' % name[:40])
            continue
        mode, tok = r
        if name not in exp:
            vs.append(soft(name) + 'hit restores %r which was never stored' % name[:40])
        elif tok != exp[name][0]:
            vs.append(soft(name) + 'hit restores %r with DIFFERENT CONTENTS' % name[:40])
        elif mode != exp[name][1]:
            if corrupted:
                st.append('hit-mode-changed')
            else:
                vs.append('round trip: %r mode %r, expected %o' % (name[:40], mode, exp[name][1]))
    for nm, v in ((b'stdout', so_v), (b'stderr', se_v)):
        want = exp[nm][0] if nm in exp else b'e'
        if v[0] != want:
            if want == b'unstored' and v[0] == b'e':
                vs.append('round trip: %s %r was packed as absent: a hit returns EMPTY output' % (nm.decode(), preview.get(nm, b'')))
            elif v[0] == b'e':
                vs.append(soft(nm) + 'hit, but the stored %s was silently replaced by empty output' % nm.decode())
            else:
                vs.append(soft(nm) + 'hit with DIFFERENT %s' % nm.decode())
    return vs, st


def monitor_read(case, out):
    entry, reqs, frames, specs, meta = case
    for m in meta:
        if m[1] == b'unstored' and m[0] not in (b'stdout', b'stderr'):
            return ['round trip: the real writer did not store object %r' % m[0][:40]]
    if out == [b'frame_table_mismatch']:
        return ['frame table of the case does not match what the real reader sees']
    descs = list(expand_specs(specs, entry))
    if not isinstance(out, list) or len(out) != len(descs):
        return ['malformed implementation output (%d verdicts for %d corruptions)' % (len(out) if isinstance(out, list) else -1, len(descs))]
    vs = []
    cd_start = max([f[0] + f[1] for f in frames] + [0])
    for d, v in zip(descs, out):
        corrupted = d[0] != 'none' and not (d[0] == 'trunc' and d[1] >= len(entry))
        in_dir = d[0] == 'sub' and d[1] >= cd_start
        if v == 0:
            if not corrupted:
                vs.append('round trip: the intact entry is refused')
            continue
        if v == 2:
            vs.append('%s: the reader panicked while opening' % (d,))
            continue
        if not isinstance(v, list) or len(v) != 2 + len(reqs):
            vs.append('%s: malformed verdict %r' % (d, v))
            continue
        w, _ = judge(reqs, meta, v[0], v[1], v[2:], corrupted, in_dir)
        for x in w:
            vs.append('%s: %s' % (d, x))
        if not corrupted and not w:
            # intact entry: every stored thing must come back
            st = judge(reqs, meta, v[0], v[1], v[2:], corrupted)[1]
            if 'verdict=hit' not in st:
                vs.append('round trip: the intact entry is not a hit')
    # de-duplicate, keep order
    seen = set()
    res = []
    for x in vs:
        if x not in seen:
            seen.add(x)
            res.append(x)
    hard = [x for x in res if 'KNOWN-CLASS' not in x]
    return hard[:20] + [x for x in res if 'KNOWN-CLASS' in x][:5]


def classify(case, out, v):
    if 'KNOWN-CLASS dir-unprotected' in v:
        return 'C08-K1'
    if 'KNOWN-CLASS z64-locator' in v:
        return 'C08-K2'
    return None


def stats_read(case, out):
    entry, reqs, frames, specs, meta = case
    ks = ['entry=' + ('<=420' if len(entry) <= 420 else '<4K' if len(entry) < 4096 else '<64K' if len(entry) < 65536 else '<=1M+')]
    if not isinstance(out, list):
        return ks
    descs = list(expand_specs(specs, entry))
    if len(descs) != len(out):
        return ks
    n = {}
    for d, v in zip(descs, out):
        if v == 0:
            k = 'refused'
        elif v == 2:
            k = 'panic'
        elif not isinstance(v, list) or len(v) != 2 + len(reqs):
            k = 'malformed'
        else:
            corrupted = d[0] != 'none'
            k = ','.join(judge(reqs, meta, v[0], v[1], v[2:], corrupted)[1]) or 'hit'
        key = '%s:%s' % (d[0], k)
        n[key] = n.get(key, 0) + 1
    return ks + list(n.keys())


COUNTS = {}


def nontrivial_read(case, out):
    return isinstance(out, list) and any(isinstance(v, list) for v in out)


# ---------------------------------------------------------------------------------------------- craft leg
import struct
import zlib


def craft_zip(members, prefix=b'', comment=b'', trailer=b'', z64=None, eocd_over=None):
    """an independent zip writer with every field under control.  members: dicts with name, data and optional
    overrides (flags, method, made_by, attr, crc, csize, usize, lextra, cextra, ccomment, lname, disk, off_delta)"""
    body = bytearray(prefix)
    cd = bytearray()
    for m in members:
        name, data = m['name'], m['data']
        crc = m.get('crc', zlib.crc32(data) & 0xFFFFFFFF)
        csize = m.get('csize', len(data))
        usize = m.get('usize', len(data))
        flags = m.get('flags', 0 if all(b < 128 for b in name) else 0x800)
        method = m.get('method', 0)
        lextra = m.get('lextra', b'')
        cextra = m.get('cextra', b'')
        ccomment = m.get('ccomment', b'')
        lname = m.get('lname', name)
        off = len(body) - len(prefix) + m.get('off_delta', 0)
        body += struct.pack('<IHHHHHIIIHH', 0x04034b50, 20, flags, method, 0, 33, crc, csize & 0xFFFFFFFF,
                            usize & 0xFFFFFFFF, len(lname), len(lextra)) + lname + lextra + data
        cd += struct.pack('<IHHHHHHIIIHHHHHII', 0x02014b50, m.get('made_by', 0x032e), 20, flags, method, 0, 33, crc,
                          csize & 0xFFFFFFFF, usize & 0xFFFFFFFF, len(name), len(cextra), len(ccomment),
                          m.get('disk', 0), 0, m.get('attr', 0o100644 << 16), off & 0xFFFFFFFF) + name + cextra + ccomment
    cd_off = len(body) - len(prefix)
    out = bytes(body) + bytes(cd)
    n = len(members)
    if z64:
        # zip64 end of central directory record + locator
        rec_off = len(out) - len(prefix) + z64.get('rec_delta', 0)
        out += z64.get('junk', b'')
        out += struct.pack('<IQHHIIQQQQ', 0x06064b50, 44, 46, 46, z64.get('disk', 0), z64.get('disk_cd', 0),
                           z64.get('n', n), z64.get('n', n), len(cd), z64.get('cd_off', cd_off))
        out += struct.pack('<IIQI', 0x07064b50, z64.get('loc_disk', 0), rec_off, 1)
    e = dict(disk=0, disk_cd=0, n_this=n, n=n, cd_size=len(cd), cd_off=cd_off)
    e.update(eocd_over or {})
    out += struct.pack('<IHHHHIIH', 0x06054b50, e['disk'], e['disk_cd'], e['n_this'], e['n'], e['cd_size'] & 0xFFFFFFFF,
                       e['cd_off'] & 0xFFFFFFFF, len(comment)) + comment + trailer
    return out


def gen_craft(rng, tier):
    """entries no sccache writes: they drive the rarely reached branches of the reader model (ZIP64 locator and
    record, extra-field parser incl. the AES record whose `unwrap` panics, DOS attributes, archive offset,
    comments, multi-disk fields, duplicate names, encrypted / unsupported members)"""
    s = dict(objs=[[b'obj', 0o644, b'\x7fELF', 0, 1], [b'dwo', 0o644, b'dw', 0, 1]], so=b'', se=b'warn')
    (e, ms), = prepare([s])
    if e is None or len(ms) != 3:
        return []
    f = [e[m[1]:m[1] + m[2]] for m in ms]
    base = lambda: [dict(name=b'obj', data=f[0]), dict(name=b'dwo', data=f[1]), dict(name=b'stderr', data=f[2])]
    aes = lambda vv=1, vid=0x4541, mode=1, cm=0, ln=7: struct.pack('<HHHHBH', 0x9901, ln, vv, vid, mode, cm)
    z64x = lambda *vals: struct.pack('<HH', 1, 8 * len(vals)) + b''.join(struct.pack('<Q', v) for v in vals)
    entries = []

    def add(tag, members, **kw):
        entries.append((tag, craft_zip(members, **kw)))
    add('plain', base())
    m = base(); m[0]['cextra'] = aes(); add('aes-extra-stored', m)
    m = base(); m[0]['cextra'] = aes(cm=8); add('aes-extra-deflate', m)
    m = base(); m[0]['cextra'] = aes(vid=0x1234); add('aes-bad-vendor', m)
    m = base(); m[0]['cextra'] = aes(vv=3); add('aes-bad-version', m)
    m = base(); m[0]['cextra'] = aes(mode=4); add('aes-bad-strength', m)
    m = base(); m[0]['cextra'] = aes(ln=8) + b'\0'; add('aes-bad-len', m)
    m = base(); m[0]['cextra'] = aes()[:9]; add('aes-short', m)
    m = base(); m[0]['method'] = 99; add('method-99-no-aes', m)
    m = base(); m[0]['method'] = 99; m[0]['cextra'] = aes(); add('method-99-aes', m)
    m = base(); m[0]['method'] = 8; add('method-deflate', m)
    m = base(); m[1]['method'] = 93; add('method-zstd', m)
    m = base(); m[0]['flags'] = 1; add('encrypted', m)
    m = base(); m[0]['flags'] = 8; add('data-descriptor-flag', m)
    m = base(); m[0]['flags'] = 0x800; add('utf8-flag-on-ascii', m)
    m = base(); m[0]['made_by'] = 0x002e; add('dos-system', m)
    m = base(); m[0]['made_by'] = 0x002e; m[0]['attr'] = 0x11; add('dos-dir-readonly', m)
    m = base(); m[0]['made_by'] = 0x002e; m[0]['attr'] = 0x01; add('dos-readonly', m)
    m = base(); m[0]['made_by'] = 0x0a2e; add('ntfs-system', m)
    m = base(); m[0]['attr'] = 0; add('attr-zero', m)
    m = base(); m[0]['attr'] = 0xFFFFFFFF; add('attr-ones', m)
    m = base(); m[0]['cextra'] = b'\x55\x54\x05\x00\x01\x00\x00\x00\x00'; add('unknown-extra', m)
    m = base(); m[0]['cextra'] = b'\x55\x54\xff\xff\x01'; add('extra-len-overrun', m)
    m = base(); m[0]['cextra'] = b'\x55'; add('extra-one-byte', m)
    m = base(); m[0]['cextra'] = z64x(99); add('z64-extra-unused', m)
    m = base(); m[0]['usize'] = 0xFFFFFFFF; m[0]['cextra'] = z64x(len(f[0])); add('z64-extra-usize', m)
    m = base(); m[0]['usize'] = 0xFFFFFFFF; m[0]['csize'] = 0xFFFFFFFF; m[0]['cextra'] = z64x(len(f[0]), len(f[0])); add('z64-extra-both', m)
    m = base(); m[0]['csize'] = 0xFFFFFFFF; m[0]['cextra'] = z64x(len(f[0]) - 1); add('z64-extra-short-csize', m)
    m = base(); m[0]['csize'] = 0xFFFFFFFF; m[0]['cextra'] = z64x(5)[:8]; add('z64-extra-truncated', m)
    m = base(); m[0]['csize'] = 0xFFFFFFFF; add('csize-ones-no-extra', m)
    m = base(); m[1]['off_delta'] = 0xFFFFFFFF - 43; m[1]['cextra'] = z64x(43); add('z64-extra-offset', m)
    m = base(); m[0]['cextra'] = z64x(1, 2, 3) + aes(); add('z64-then-aes', m)
    m = base(); m[0]['lextra'] = b'\x55\x54\x01\x00\x00'; add('local-extra', m)
    m = base(); m[0]['lname'] = b'other'; add('local-name-differs', m)
    m = base(); m[0]['ccomment'] = b'hello'; add('member-comment', m)
    m = base(); m[2]['name'] = b'obj'; add('duplicate-name', m)
    m = base(); m[0]['name'] = b'\xff\xfe'; add('invalid-utf8-name-flagged', m)
    m = base(); m[0]['name'] = b'\x82\xe1.o'; m[0]['flags'] = 0; add('cp437-name', m)
    m = base(); m[0]['name'] = 'é.o'.encode(); add('utf8-name', m)
    m = base(); m[0]['name'] = b'\xe2\x82'; add('truncated-utf8-name', m)
    m = base(); m[0]['name'] = b'\xf0\x9f\x98'; add('truncated-utf8-4', m)
    m = base(); m[0]['name'] = b'\xed\xa0\x80'; add('surrogate-name', m)
    m = base(); m[0]['name'] = b'a\xc0\xafb\xe0\x80\x80c\xf4\x90\x80\x80'; add('overlong-names', m)
    add('prefix-junk', base(), prefix=b'JUNKJUNK')
    add('comment', base(), comment=b'a comment')
    add('comment-with-sig', base(), comment=b'PK\x05\x06' + bytes(18))
    add('trailer', base(), trailer=b'xyz')
    add('trailer-long', base(), trailer=bytes(70000))
    add('eocd-disk-mismatch', base(), eocd_over=dict(disk=1))
    add('eocd-disk-both', base(), eocd_over=dict(disk=1, disk_cd=1))
    add('eocd-ffff-disk', base(), eocd_over=dict(disk=0xFFFF))
    add('eocd-count-low', base(), eocd_over=dict(n_this=2))
    add('eocd-count-total-differs', base(), eocd_over=dict(n=1))
    add('eocd-count-high', base(), eocd_over=dict(n_this=4))
    add('eocd-count-zero', base(), eocd_over=dict(n_this=0))
    add('eocd-cdsize-big', base(), eocd_over=dict(cd_size=100000))
    add('eocd-cdsize-small', base(), eocd_over=dict(cd_size=10))
    add('eocd-cdoff-shift', base(), eocd_over=dict(cd_off=1))
    add('z64', base(), z64=dict())
    add('z64-ffff-eocd', base(), z64=dict(), eocd_over=dict(n_this=0xFFFF, n=0xFFFF, cd_size=0xFFFFFFFF, cd_off=0xFFFFFFFF))
    add('z64-junk-before-record', base(), z64=dict(junk=b'junk!'))
    add('z64-prefix', base(), z64=dict(), prefix=b'PREFIX')
    add('z64-record-missing', base(), z64=dict(rec_delta=5))
    add('z64-record-disk', base(), z64=dict(disk=1))
    add('z64-loc-disk', base(), z64=dict(loc_disk=1))
    add('z64-count', base(), z64=dict(n=2))
    add('z64-count-huge', base(), z64=dict(n=1 << 40))
    add('z64-cdoff-overflow', base(), z64=dict(cd_off=(1 << 64) - 1, rec_delta=-3))
    add('empty', [])
    add('only-eocd-prefix', [], prefix=b'x' * 30)
    conts = [b'\x7fELF', b'dw', b'warn']
    reqs = [[b'obj', 0], [b'dwo', 1], [b'missing', 1], ['é.o'.encode(), 0], [b'\xc3\xa9\xc3\x9f.o', 1], ['�'.encode(), 1],
            ['��'.encode(), 1], [b'a\xef\xbf\xbd\xef\xbf\xbdb\xef\xbf\xbd\xef\xbf\xbd\xef\xbf\xbdc\xef\xbf\xbd\xef\xbf\xbd\xef\xbf\xbd\xef\xbf\xbd', 1]]
    views = run_harness('members', [[en] for _, en in entries])
    cases = []
    for (tag, en), ms2 in zip(entries, views):
        frames = []
        for mm in ms2:
            d = en[mm[1]:mm[1] + mm[2]]
            frames.append([mm[1], mm[2], 0])
        specs = [[b'none']]
        if len(en) < 1000:
            specs += [[b'truncall']]
        cases.append([en, reqs, frames, specs, [tag.encode()]])
    return cases


# ---------------------------------------------------------------------------------------------- extract leg
def extract_case(s, frames, spec):
    of, so_f, se_f = frames
    it = iter(of)
    objs = []
    for o in s['objs']:
        f = next(it, b'') if o[4] else b''
        objs.append([o[0], o[1] if o[1] is not None else 0o644, o[2] if o[4] else b'', f, o[3], o[4]])
    return [objs, [s['so'], so_f], [s['se'], se_f], spec, env_sx(s.get('env'))]


LEVELS_CHEAP = [b'1', b'2', b'5', b'9', b'12', b'15', b'19', b'-1', b'-7', b'0', b'+3', b'junk']


def vary_level(rng, sets, every=4):
    """every n-th artifact set is written at another (cheap, non-ultra) zstd level"""
    for i, s in enumerate(sets):
        if i % every == every - 1:
            s['env'] = rng.choice(LEVELS_CHEAP)
    return sets


def gen_extract(rng, tier):
    n = {'quick': (60, 60, 10, 2), 'thorough': (1500, 1500, 300, 20)}[tier]
    sets = stdio_sets(STDIO_SPECIAL[:12] + [b'\x00', b'\xff\xfe'])
    for c in ZST_CONTENTS[:10]:
        sets.append(dict(objs=[[b'out.zst', 0o644, c, 0, 1]], so=b'', se=b''))
    for cls, k in zip(('tiny', 'small', 'mid', 'large'), n):
        for _ in range(k):
            s = gen_set(rng, cls, nmax=5)
            for o in s['objs']:
                if o[1] is None or o[1] > 0o7777:
                    o[1] = o[1] & 0o7777 if o[1] else 0o644
                if rng.chance(1, 8):
                    o[4] = 0            # the compiler did not produce it
                    o[2] = b''
            sets.append(s)
    vary_level(rng, sets)
    sets.insert(0, dict(objs=[[b'obj', 0o755, b'\x7fELF', 0, 1]], so=b'out', se=b'', env=b'22'))
    preps = prepare(sets)
    cases = []
    for s, fr, (e, m) in zip(sets, set_frames(sets), preps):
        specs = [[b'none']]
        if e is not None and not any(o[4] == 0 and o[3] == 0 for o in s['objs']):
            for sp in sample_specs(rng, e, m, 3, 1)[1:]:
                specs.append(sp)
        for sp in specs:
            cases.append(extract_case(s, fr, sp))
    return cases


def monitor_extract(case, out):
    objs, so, se, spec = case[0], case[1], case[2], case[3]
    corrupted = spec[0] != b'none'
    must_fail = any(o[5] == 0 and o[4] == 0 for o in objs)
    if not isinstance(out, list) or not out:
        return ['malformed implementation output']
    if out[0] == b'write_err':
        return [] if must_fail else ['packing failed although every required output exists']
    if must_fail:
        return ['an entry was written although a required output is missing']
    if out[0] == b'panic':
        return ['the cache-hit path panicked']
    if out[0] == b'fatal':
        return [('damaged entry (%s): ' % sx.dumps(spec) if corrupted else 'intact entry: ')
                + 'extract_objects fails with an error that is not a DecompressionFailure: '
                  'get_cached_or_compile fails the request instead of treating the entry as a miss']
    if out[0] == b'miss':
        return [] if corrupted else ['round trip: the intact entry is a miss']
    conts = [content(o[2]) for o in objs] + [content(so[0]), content(se[0])]
    toks = expected_tokens(conts)
    vs = []
    if out[0] != b'hit' or len(out) != 4 or not isinstance(out[3], list) or len(out[3]) != len(objs):
        return ['malformed implementation output %r' % (out[:1],)]
    _, so_t, se_t, fs = out
    cd_start = sum(30 + len(o[0]) + len(o[3]) for o in objs if o[5]) + sum(36 + len(x[1]) for x in (so, se) if x[1])
    in_dir = spec[0] == b'sub' and spec[1] >= cd_start

    def soft(optional_or_stdio):
        return 'KNOWN-CLASS dir-unprotected: ' if in_dir and optional_or_stdio else ('directory intact: ' if not in_dir else '')
    for i, (o, f) in enumerate(zip(objs, fs)):
        if o[5] == 0:
            if f != b'absent':
                vs.append(soft(o[4]) + 'hit restores %r which was never stored' % o[0][:40])
            continue
        if f == b'absent':
            if o[4]:
                vs.append(soft(True) + 'hit, but the stored optional object %r was silently not restored' % o[0][:40])
            else:
                vs.append('hit without the required object %r' % o[0][:40])
            continue
        if not isinstance(f, list) or len(f) != 2:
            vs.append('malformed file observation %r' % (f,))
            continue
        mode, tok = f
        if tok != toks[i]:
            vs.append(soft(o[4]) + 'hit restores %r with DIFFERENT CONTENTS' % o[0][:40])
        elif mode != (o[1] & 0o777) and not corrupted:
            vs.append('round trip: %r restored with mode %o, stored from a file with mode %o' % (o[0][:40], mode, o[1]))
    for nm, v, t, c in (('stdout', so_t, toks[-2], conts[-2]), ('stderr', se_t, toks[-1], conts[-1])):
        if v != t:
            if v == b'e' and not corrupted:
                vs.append('round trip: %s %r was packed as absent (or reads back empty): a hit returns EMPTY output' % (nm, c[:24]))
            elif v == b'e':
                vs.append(soft(True) + 'hit, but the stored %s was silently replaced by empty output' % nm)
            else:
                vs.append(soft(True) + 'hit with DIFFERENT %s' % nm)
    return vs


def stats_extract(case, out):
    objs, so, se, spec = case[0], case[1], case[2], case[3]
    ks = ['spec=' + spec[0].decode(), 'res=' + (out[0].decode() if isinstance(out, list) and out and isinstance(out[0], bytes) else '?')]
    for o in objs:
        ks.append('mode=%o' % o[1])
        if o[1] & 0o7000:
            ks.append('setuid/sticky-bits-not-stored')
        ks.append('optional=%d,present=%d' % (o[4], o[5]))
    return ks


# ---------------------------------------------------------------------------------------------- shrinking
def shrink_read(case):
    entry, reqs, frames, specs, meta = case
    descs = list(expand_specs(specs, entry))
    if len(descs) > 1:
        for d in descs[:300]:
            if d[0] == 'none':
                yield [entry, reqs, frames, [[b'none']], meta]
            elif d[0] == 'trunc':
                yield [entry, reqs, frames, [[b'trunc', d[1]]], meta]
            else:
                yield [entry, reqs, frames, [[b'sub', d[1], d[2]]], meta]


# ---------------------------------------------------------------------------------------------- history leg
def history_op(s, frames, fails):
    """fails: {object index: n} — the reader of that object fails after n bytes"""
    of, so_f, se_f = frames
    objs = []
    for i, (o, f) in enumerate(zip([o for o in s['objs'] if o[4]], of)):
        objs.append([o[0], mode_sx(o[1]), o[2], f, fails[i] if i in fails else b'none'])
    return [objs, [s['so'], so_f], [s['se'], se_f]]


def gen_history(rng, tier):
    """one thread packs entry after entry; in some packs reading an output file fails part-way (after 0, 1, half, all
    of its bytes).  Every entry that IS produced must be exactly what its own inputs give, whatever happened before."""
    plans = []
    lost = [b'LOST-BYTES-OF-ANOTHER-COMPILATION ' * 3, [b'text', 3, 3000], [b'rand', 5, 70000], [b'text', 9, 200000],
            [b'zeros', 150000], b'x']

    def good(i):
        return dict(objs=[[b'obj', 0o644, b'\x7fELF good %d' % i, 0, 1]], so=b'', se=b'')
    # fixed minimal histories first: a failed pack, then a good one
    for c in lost:
        ln = len(content(c))
        for n in sorted(set([1, ln // 2, max(ln - 1, 0), ln, 0])):
            plans.append([(dict(objs=[[b'obj', 0o644, c, 0, 1]], so=b'', se=b''), {0: n}), (good(len(plans)), {})])
    k = 10 if tier == 'quick' else 400
    for _ in range(k):
        ops = []
        for _ in range(rng.range(2, 6)):
            st = gen_set(rng, rng.choice(['tiny', 'small', 'small', 'mid']), nmax=3)
            fails = {}
            if rng.chance(1, 2) and st['objs']:
                i = rng.below(len(st['objs']))
                ln = len(content(st['objs'][i][2]))
                fails[i] = rng.choice([0, 1, ln // 2, max(ln - 1, 0), ln, ln + 5])
            ops.append((st, fails))
        plans.append(ops)
    flat = [st for ops in plans for st, _ in ops]
    frames = iter(set_frames(flat))
    return [[history_op(st, next(frames), fails) for st, fails in ops] for ops in plans]


def monitor_history(case, out):
    if not isinstance(out, list) or len(out) != len(case):
        return ['malformed implementation output (%d observations for %d packs)' % (len(out) if isinstance(out, list) else -1, len(case))]
    vs = []
    failed = 0
    for k, (op, o) in enumerate(zip(case, out)):
        fails = [(x[0], x[4]) for x in op[0] if isinstance(x[4], int)]
        if fails:
            if o != [b'write_err']:
                vs.append('pack %d: reading %r fails after %d bytes, yet the writer produced an entry' % (k, fails[0][0][:40], fails[0][1]))
            failed += 1
            continue
        for v in monitor_pack(op, o):
            vs.append('pack %d on a thread that had %d failed pack(s) before: %s' % (k, failed, v))
    return vs


def stats_history(case, out):
    ks = ['packs=%d' % len(case)]
    for op in case:
        f = [x[4] for x in op[0] if isinstance(x[4], int)]
        ks.append('op=' + ('fails-after-0' if f and f[0] == 0 else 'fails-part-way' if f else 'good'))
    return ks


def shrink_history(case):
    for i in range(len(case)):
        yield case[:i] + case[i + 1:]


# ---------------------------------------------------------------------------------------------- level leg
ENVS_VALID = [(b'1', (0, 1)), (b'3', (0, 3)), (b'+7', (0, 7)), (b'007', (0, 7)), (b'9', (0, 9)), (b'15', (0, 15)),
              (b'19', (0, 19)), (b'-5', (1, 5)), (b'-0', (0, 0)), (b'0', (0, 0)), (b'-131072', (1, 131072)),
              (b'-2147483648', (1, 2147483648))]
ENVS_ULTRA = [(b'20', (0, 20)), (b'21', (0, 21)), (b'22', (0, 22)), (b'+22', (0, 22)), (b'23', (0, 23)), (b'2147483647', (0, 2147483647))]
ENVS_DEFAULT = [None, b'', b'-', b'+', b' 7', b'7 ', b'7.0', b'0x7', b'2147483648', b'-2147483649', b'99999999999999999999',
                b'abc', b'--5', b'+-5', b'1e1', '３'.encode(), '٣'.encode(), b'\xff', b'7\n', b'1_0']


def level_key_env(key):
    return (b'-' if key[0] else b'') + str(key[1]).encode()


def gen_level(rng, tier):
    """the writer's zstd level is part of the case space: valid literals (incl. the ultra levels 20-22 whose frames
    declare 32-128 MiB windows, and out-of-range values zstd clamps), and values that fall back to the default"""
    small = [dict(objs=[[b'obj', 0o644, b'\x7fELF', 0, 1]], so=b'out\n', se=b''),
             dict(objs=[[b'obj', 0o755, [b'text', 11, 3000], 0, 1], [b'dwo', 0o644, b'', 1, 1]], so=b'', se=[b'text', 5, 200])]
    plan = []        # (set, env bytes or None, python's idea of the level key — only used to CHOOSE which frames to offer)
    for env, key in ENVS_ULTRA:
        plan.append((small[0], env, key))
    plan.append((small[1], b'22', (0, 22)))
    for env, key in ENVS_VALID:
        plan.append((small[rng.below(2)], env, key))
    for env in ENVS_DEFAULT:
        plan.append((small[rng.below(2)], env, (0, 3)))
    n = 12 if tier == 'quick' else 300
    for _ in range(n):
        env, key = rng.choice(ENVS_VALID)
        plan.append((gen_set(rng, rng.choice(['tiny', 'small', 'small', 'mid']), nmax=3), env, key))
    if tier == 'thorough':
        for env, key in ENVS_ULTRA * 3:
            plan.append((gen_set(rng, rng.choice(['tiny', 'small', 'mid']), nmax=2), env, key))
    # frames of every set at: the default level, the level python expects, and a decoy level
    keys_per = []
    lists, envs = [], []
    for st, env, key in plan:
        ks = [(0, 3), key] + ([(0, 1)] if key != (0, 1) else [(0, 9)])
        ks = list(dict.fromkeys(ks))
        keys_per.append(ks)
        for k in ks:
            lists.append([o[2] for o in st['objs'] if o[4]] + [st['so'], st['se']])
            envs.append(level_key_env(k))
    frames = content_frames(lists, envs)
    cases = []
    it = iter(frames)
    for (st, env, key), ks in zip(plan, keys_per):
        cands = []
        for k in ks:
            fr = next(it)
            cands.append([k[0], k[1], fr[:-2], fr[-2] if content(st['so']) else b'', fr[-1] if content(st['se']) else b''])
        objs = [[o[0], mode_sx(o[1]), o[2], b''] for o in st['objs'] if o[4]]
        cases.append([objs, [st['so'], b''], [st['se'], b''], env_sx(env), cands])
    return cases


def monitor_level(case, out):
    env = case[3]
    vs = monitor_pack(case[:3], out)
    tag = 'SCCACHE_CACHE_ZSTD_LEVEL %s: ' % ('unset' if not env else repr(bytes(env[0])))
    return [tag + v for v in vs]


def stats_level(case, out):
    env = case[3]
    return ['level-env=' + ('unset' if not env else bytes(env[0])[:12].decode('latin-1'))]


def shrink_pack(case):
    objs, so, se = case[0], case[1], case[2]
    rest = case[3:]
    for i in range(len(objs)):
        yield [objs[:i] + objs[i + 1:], so, se] + rest
    if content(so[0]):
        yield [objs, [b'', b''], se] + rest
    if content(se[0]):
        yield [objs, so, [b'', b'']] + rest


def safe(f, what):
    """a monitor / stats function never raises: output it cannot interpret is reported, not crashed on"""
    def g(case, out):
        try:
            return f(case, out)
        except Exception as ex:          # noqa
            if what == 'monitor':
                return ['the implementation output cannot be interpreted (%s: %s): %r' % (type(ex).__name__, ex, str(out)[:200])]
            if what == 'stats':
                return ['uninterpretable-output']
            return True
    return g


# ---------------------------------------------------------------------------------------------- e2e (thorough tier)
REPO_BINS = ['sccache']


def want_e2e(rep):
    return rep.tier == 'thorough' or os.environ.get('VERIF_C08_E2E') == '1'


def prebuild(rep):
    if not want_e2e(rep):
        return
    from .. import pipeline
    ok, out = pipeline.build_repo_bins(REPO_BINS)
    rep.oblige('build:sccache-binary', ok, out[-2000:] if not ok else 'cargo build --offline --bin sccache, --cfg sccache_verif')


def extra(rep, known):
    """the real binary with a real disk cache and gcc: damage one stored entry between two identical compiles"""
    if not want_e2e(rep):
        return
    import json
    from .. import pipeline
    exe = pipeline.repo_bin('sccache')
    if not os.path.exists(exe):
        rep.oblige('e2e', False, 'sccache binary missing')
        return
    p = subprocess.run([sys.executable, os.path.join(pipeline.VERIF, 'e2e', 'c08_e2e.py'), exe],
                       stdout=subprocess.PIPE, stderr=subprocess.PIPE, timeout=1200)
    try:
        results = json.loads(p.stdout.decode())
    except Exception:
        rep.oblige('e2e', False, 'driver output unparsable: ' + p.stdout.decode()[-500:] + p.stderr.decode()[-500:])
        return
    bad = 0
    for r in results:
        rep.evaluations += 1
        how = r['how']
        if r.get('inconclusive') or 'second' not in r:
            rep.notes.append('e2e %s inconclusive: %s' % (how, r.get('inconclusive')))
            rep.count('e2e.%s.inconclusive' % how)
            continue
        sec = r['second']
        rep.count('e2e.%s.%s' % (how, 'hit' if sec['hit'] else 'miss'))
        rep.traces += 1
        lost = sec['hit'] and not sec['warning']
        wrong = sec['rc'] != 0 or not sec['object_equals_direct']
        if wrong:
            bad += 1
            rep.violation('property', 'e2e', json.dumps(r), 'damaged entry (%s): the repeated compile fails or yields a different object' % how)
        elif lost:
            if how == 'dirname' and any(k['id'] == 'C08-K1' for k in known):
                rep.known_hits['C08-K1'] = rep.known_hits.get('C08-K1', 0) + 1
                rep.known_lines.append('KNOWN-FINDING: property=C08 end to end (real sccache, gcc, disk cache): one byte of the '
                                       'directory name `stderr` of the stored entry altered -> cache hit, exit 0, the compiler '
                                       'warning is gone [C08-K1]')
            else:
                bad += 1
                rep.violation('property', 'e2e', json.dumps(r), 'damaged entry (%s): cache HIT with the compiler warning silently lost' % how)
    rep.oblige('e2e:damaged-entries', bad == 0, '%d scenarios, %d bad' % (len(results), bad))
    rep.rule.append('e2e: real sccache binary + gcc + disk cache; the single stored entry is damaged on disk between two '
                    'identical compiles (stderr payload byte, object payload byte, last byte cut off, directory name byte)')


def check(tier, seed, replay=None):
    """standard pipeline; known/C08.json is honoured even before the coordinator merged it into KNOWN_FINDINGS.json"""
    import json
    import sys
    from .. import pipeline
    orig = pipeline.load_known

    def load_known(pid):
        ks = orig(pid)
        p = os.path.join(pipeline.VERIF, 'known', 'C08.json')
        if pid == ID and os.path.exists(p):
            for e in json.load(open(p)).get('findings', []):
                if e.get('status') == 'open' and not any(k['id'] == e['id'] for k in ks):
                    ks.append(e)
        return ks
    pipeline.load_known = load_known
    try:
        return pipeline.standard_check(sys.modules[__name__], tier, seed, replay)
    except Exception:            # noqa — a check never ends in a traceback: it is a broken obligation, reported as such
        import time
        import traceback
        tb = traceback.format_exc()
        os.makedirs(os.path.join(pipeline.VERIF, 'replays'), exist_ok=True)
        path = os.path.join(pipeline.VERIF, 'replays', '%s-%s-%d.json' % (ID, tier, int(time.time())))
        json.dump({'property': ID, 'kind': 'no-failing-input-found',
                   'no_longer_checks': ['the check itself could not process what the implementation produced: ' + tb[-3000:]],
                   'seed': seed}, open(path, 'w'), indent=1)
        print('VIOLATION property=%s replay=%s no-failing-input-found' % (ID, path))
        return 1
    finally:
        pipeline.load_known = orig


def legs(tier):
    return [
        Leg('pack', gen_pack, monitor=safe(monitor_pack, 'monitor'), stats=safe(stats_pack, 'stats'), classify=classify,
            shrink=shrink_pack,
            rule='artifact sets (1-6 members; names ASCII / UTF-8 / up to 1000 bytes; contents 0 B .. 1 MiB literal, text, '
                 'random, zeros, and contents that ARE zstd frames / start with the zstd magic; modes incl. none, 000, setuid/setgid/sticky, file-type bits; stdout/stderr empty, whitespace-only, NUL-only, single bytes, non-UTF-8, or ordinary; the special stdout/stderr values come first around one 4-byte object) '
                 '+ writer corner cases (duplicate names, names stdout/stderr, 65535/65540-byte names, no members); '
                 'compared: entry bytes (byte-identical; above 150000 bytes headers byte-identical and payloads by length+CRC) and '
                 'the read-back of every member; distinct by full case text'),
        Leg('history', gen_history, monitor=safe(monitor_history, 'monitor'), stats=safe(stats_history, 'stats'), classify=classify,
            shrink=shrink_history,
            rule='histories: 2-5 packs on ONE thread of the real writer, in half of them the reader handed to put_object fails '
                 'after 0 / 1 / half / all-but-one / all bytes of an object (minimal histories "failed pack, good pack" with lost '
                 'contents of 1 B .. 200 kB come first); compared per pack: ( write_err ) or the byte-identical entry and its '
                 'read-back; the model (pack_history) carries no state from one pack to the next'),
        Leg('level', gen_level, monitor=safe(monitor_level, 'monitor'), stats=safe(stats_level, 'stats'), classify=classify,
            shrink=shrink_pack, shards=4,
            rule='the writer\'s configuration is part of the case space: artifact sets packed with SCCACHE_CACHE_ZSTD_LEVEL unset / '
                 'valid i32 literals (1..19, negative, signs, leading zeros, the ultra levels 20-22 with 32-128 MiB windows, values '
                 'zstd clamps) / values that must fall back to 3 (blanks, overflow, non-ASCII digits, not unicode); the model parses '
                 'the variable itself and packs with the real frames of THAT level (offered next to the frames of two other levels), '
                 'so entry bytes tie the parse; the read-back of every member ties "every level unpacks"; 4 shards (ultra levels '
                 'need ~1 GB per encoder)'),
        Leg('read', gen_read, monitor=safe(monitor_read, 'monitor'), stats=safe(stats_read, 'stats'), classify=classify,
            shrink=shrink_read, nontrivial=safe(nontrivial_read, 'nontrivial'),
            rule='entries <= 420 bytes: EVERY truncation point and all 255 substitutions at EVERY offset (8 offsets per case); '
                 'larger entries: 60 substitutions (3/4 in headers/directory, bit flips and random values) + 20 truncations '
                 'each (8 + 3 above 200 kB); one evaluation = one case line (up to 2040 corrupted reads); non-trivial = at least one corrupted '
                 'variant is still opened by the real reader'),
        Leg('craft', gen_craft, model_leg='read', impl_args=['read'],
            stats=safe(lambda case, out: ['craft=' + case[4][0].decode() + ':' + ('refused' if out and out[0] == 0 else 'panic' if out and (out[0] == 2 or (isinstance(out[0], list) and 2 in out[0])) else 'opened')], 'stats'),
            rule='hand-built zip files no sccache writes (ZIP64 locator/record variants, extra-field parser incl. the AES '
                 'record, DOS attributes, archive offset, comments, multi-disk fields, duplicate and non-UTF-8 names, '
                 'encrypted / unsupported members): only model = implementation is checked, they validate the rarely '
                 'reached branches of the reader model'),
        Leg('extract', gen_extract, monitor=safe(monitor_extract, 'monitor'), stats=safe(stats_extract, 'stats'), classify=classify,
            shrink=shrink_pack,
            rule='real files (chmod incl. setuid, 000) -> CacheWrite::from_objects (optional / missing outputs) -> '
                 'put_stdout/put_stderr -> finish -> one corruption or none -> CacheRead::from, get_stdout, get_stderr, '
                 'extract_objects into a directory -> stat + compare'),
    ]
