"""C09 — a broken, corrupt or read-only cache never breaks or falsifies a build.

The leg `reqsm` drives the REAL request path (Service::call -> handle_compile -> start_compile_task ->
get_cached_or_compile -> generate_hash_key, real gcc argument parser, real DiskCache / ReadOnlyStorage, a
fault-injecting Storage and a fake compiler living in harness/src/bin/c09.rs) and the extracted model
Model/ReqSM.v on the same histories.  lib/props/c14.py reuses the generators and the harness binary.
"""
import itertools
import os
import shutil
import time

from .. import pipeline
from ..pipeline import Leg

ID = 'C09'
HARNESS_BIN = 'c09'
RUN_MODULE = 'Run.C09'
THEOREMS = ['C09_faults_transparent', 'C09_internal_fault_reported', 'C09_history_transparent', 'C09_failed_never_stored',
            'C09_compile_failure_never_stored', 'C09_repopulates', 'C09_untrusted_result_key_is_a_miss']
ASSUMPTIONS = [
    'the compiler is a deterministic function of the translation unit during one history (the oracle of Model/ReqSM.v); '
    'hash keys are sound: equal result keys mean equal compile results, equal preprocessor keys and include-file state '
    'mean the same preprocessing result (that is C02 / C04; hypothesis `consistent` of the theorems)',
    'a compiler that exits 0 has written its object file (`sane`); the output directory exists and is writable '
    '(`f_outdir_ok`): a missing output directory is not a storage fault, the compiler itself fails there',
    'that bytes changed in place inside a member of a stored entry are always DETECTED (zstd framing or the zip CRC-32) is '
    'C08\'s theorem; here the model only says what follows from the detection (DecompressionFailure -> miss with read error '
    '-> compile -> entry rewritten), and the differential leg damages every byte position of every member of real entries',
    'a PANIC inside the compile task (a storage call or the server\'s own code on the way to spawning a process) is not a '
    'storage fault of the property\'s list; it is in the fault space all the same: such a request must be answered (the '
    'compiler\'s result, a reported fatal error or a dropped connection after which the client compiles locally), never hang '
    'and never return a wrong result (C09_internal_fault_reported); transparency proper is claimed under `calm`',
    'for damage at an arbitrary offset of an entry (`poke`) the model is not consulted: the monitor requires the compiler\'s '
    'own result and re-population; the one tolerated deviation is the symptom of finding C08-K1 (open, recorded under C08): '
    'an altered stdout/stderr member NAME in the unchecksummed zip directory gives a hit without that output',
    'not modelled: distributed compilation, LRU eviction during the request (Model/Lru.v), a storage call that never '
    'returns other than the result lookup (only the lookup has a time-out in the code), process spawn failures',
]
TRUSTED = [
    'hooks: SccacheService::verif_call (wraps the private Service::call / Message types), PerLanguageCount::verif_maps',
    'harness/src/bin/c09.rs: FaultStorage (wraps the real DiskCache, injects one outcome per storage interaction), '
    'FakeCreator (fake compiler / preprocessor answering from the per-translation-unit oracle)',
]

REPO_BINS = ['sccache']

NTU = 4
ORC_OK = [0, 0, 0, 1]
ORC_UPD = [0, 1, 0, 1]
ORC_PPFAIL = [1, 0, 0, 1]
ORC_CCFAIL = [0, 0, 1, 1]
ORC_NOOUT = [0, 0, 0, 0]
ORC_PPSIG = [98, 0, 0, 1]        # the preprocessor is killed by a signal (no exit code)
ORC_CCSIG = [0, 0, 98, 1]        # the compiler is killed by a signal
ORC_PPPANIC = [99, 0, 0, 1]      # the server's own code panics on the way to the preprocessor
ORC_CCPANIC = [0, 0, 99, 1]      # ... on the way to the compiler

def put_panic_handled():
    """Whether the tree under test has the repair 'a panicking cache write is counted as a cache write error'
    (the deferred put is awaited outside the catch_unwind region of start_compile_task; without the repair a
    panicking put drops the response and leaves the miss without a write outcome — recorded in known/C14.json).
    Histories with a panicking RESULT put are generated only then; every other panic position always is."""
    try:
        src = open(os.path.join(pipeline.REPO, 'src', 'server.rs'), encoding='utf-8', errors='replace').read()
    except OSError:
        return False
    return 'the cache write panicked' in src


PPGET = [b'none', b'absent', b'err', b'garbage', b'truncated', b'empty', b'panic']
PPPUT = [b'none', b'err', b'ro', b'panic']
GET = [b'none', b'miss', b'err', b'timeout', b'garbage', b'truncated', b'badobj', b'noobj', b'panic',
       # faults DURING the request: a genuine hit, then the entry file is damaged before it is read
       b'hit_trunc', b'hit_overwrite', b'hit_unlink']
DURING = (b'hit_trunc', b'hit_overwrite', b'hit_unlink')
PUT = [b'none', b'err', b'toolarge', b'ro', b'wfail'] + ([b'panic'] if put_panic_handled() else [])
CCS = [b'default', b'recache', b'nocache']
CLASSES = [b'compile', b'unsupported', b'vanished', b'notcompile', b'cannotcache', b'cannotcache2', b'noargs']
NOF = [b'none', b'none', b'none', b'none', b'none']
# classes the server executes: gcc/clang compiles, and MSVC -Zi -Fd<existing pdb> (Cacheable::No at compile time)
EXEC = (b'compile', b'msvc_nc')


def dist_fail_hook():
    """Whether the tree under test has the hook SccacheService::verif_mock_with_failing_dist_client
    (/tmp/strengthen/C14-hook.diff): histories with `restart_distfail` are generated only then."""
    try:
        src = open(os.path.join(pipeline.REPO, 'src', 'server.rs'), encoding='utf-8', errors='replace').read()
    except OSError:
        return False
    return 'verif_mock_with_failing_dist_client' in src


def F(ppget=b'none', ppupd=b'none', ppput=b'none', get=b'none', put=b'none'):
    return [ppget, ppupd, ppput, get, put]


def req(tu=0, cls=b'compile', cc=b'default', ok=1, f=None):
    return [b'req', tu, cls, cc, ok, list(f) if f else list(NOF)]


def disk(target, what, tu=0):
    return [b'disk', target, what, tu]


# ---------------------------------------------------------------- the single-request table

def prefixes(ppmode):
    """Ways to reach the interesting cache states for translation unit 0 through real requests / damage."""
    p = {
        'empty': [],
        'warm': [req()],
        'res_garbage': [req(), disk(b'res', b'garbage')],
        'res_truncated': [req(), disk(b'res', b'truncate')],
        'res_deleted': [req(), disk(b'res', b'delete')],
        'ro_warm': [req(), [b'restart', b'ro']],
        'ro_empty': [[b'restart', b'ro']],
        'restarted': [req(), [b'restart', b'rw']],
    }
    # bytes changed in place inside a member's data (obj / stdout / stderr, two positions each)
    for off in (0, 1, 2, 33, 100, 77):
        p['res_flip_%d' % off] = [req(), [b'disk', b'res', b'flip', 0, off]]
    # the cache directory cannot be opened when the stores are first touched; repaired later
    p['unusable_at_start_repaired'] = [[b'restart_broken'], [b'heal']]
    p['unusable_at_first_use_repaired'] = [[b'restart_broken'], req(), [b'heal']]
    p['warm_unusable_at_restart_repaired'] = [req(), [b'restart_broken'], req(), req(1), [b'heal']]
    p['unusable_now'] = [req(), [b'restart_broken']]
    if ppmode:
        p.update({
            'res_only': [req(f=F(ppput=b'err'))],
            'pp_only': [req(f=F(put=b'err'))],
            'pp_garbage': [req(), disk(b'pp', b'garbage')],
            'pp_truncated': [req(), disk(b'pp', b'truncate')],
            'pp_empty': [req(), disk(b'pp', b'empty')],
            'pp_deleted': [req(), disk(b'pp', b'delete')],
            'both_garbage': [req(), disk(b'pp', b'garbage'), disk(b'res', b'garbage')],
        })
    return p


def fault_space(ppmode, cc, upd, level):
    """Fault assignments that can matter for this (ppmode, cache control, upd).
    level 'full': the whole product; 'pairs': at most two interactions faulty; 'single': at most one."""
    dims = [
        PPGET if (ppmode and cc == b'default') else [b'none'],
        # the write-back after a lookup is dead code on this tree (lookups no longer set `updated`): two values suffice
        PPPUT[:2] + PPPUT[-1:] if (ppmode and cc == b'default' and upd and level != 'full') else (PPPUT[:2] if (ppmode and cc == b'default' and upd) else [b'none']),
        PPPUT if ppmode else [b'none'],
        GET if cc == b'default' else [b'none'],
        PUT if cc != b'nocache' else [b'none'],
    ]
    for combo in itertools.product(*dims):
        n = sum(1 for x in combo if x != b'none')
        if level == 'single' and n > 1:
            continue
        if level == 'pairs' and n > 2:
            continue
        yield list(combo)


def gen_table(tier, force_level=None):
    out = []
    suffix = [req(), req()]
    for ppmode in (1, 0):
        pre = prefixes(ppmode)
        for orc, oname in ((ORC_OK, 'ok'), (ORC_UPD, 'upd'), (ORC_PPFAIL, 'ppfail'), (ORC_CCFAIL, 'ccfail'),
                           (ORC_NOOUT, 'noout'), (ORC_PPPANIC, 'pppanic'), (ORC_CCPANIC, 'ccpanic'),
                           (ORC_PPSIG, 'ppsig'), (ORC_CCSIG, 'ccsig')):
            if oname == 'upd' and not ppmode:
                continue
            orcs = [orc, ORC_OK, ORC_UPD, ORC_OK]
            for pname, prefix in pre.items():
                for cc in CCS:
                    if tier == 'thorough':
                        level = 'full'
                    elif oname == 'ok' and pname in ('empty', 'warm'):
                        level = 'full'
                    elif oname == 'ok' or (oname == 'upd' and pname in ('empty', 'warm')):
                        level = 'pairs'
                    else:
                        level = 'single'
                    if force_level:
                        level = force_level
                    for f in fault_space(ppmode, cc, orc[1], level):
                        out.append([ppmode, orcs, prefix + [req(cc=cc, f=f)] + suffix])
                    # the output directory is missing (not a storage fault): vary the lookup outcome only
                    if cc == b'default':
                        for g in GET:
                            if g not in DURING:
                                out.append([ppmode, orcs, prefix + [req(cc=cc, ok=0, f=F(get=g))] + suffix])
    # executed, found not cacheable only when the compile command is generated (MSVC, shared program database)
    for ppmode in (1, 0):
        for cc in CCS:
            for orc in (ORC_OK, ORC_CCFAIL, ORC_PPFAIL, ORC_NOOUT):
                out.append([ppmode, [orc, ORC_OK, ORC_OK, ORC_OK],
                            [req(0, b'msvc_nc', cc), req(0, b'msvc_nc', cc), req(0), req(1, b'msvc_nc'), req(0, b'cannotcache'),
                             [b'zero'], req(0, b'msvc_nc', cc, f=F(get=b'err', put=b'err')), req(0)]])
    # the dist client cannot be created: the next executed request is answered with an error and counted as one
    if dist_fail_hook():
        for ppmode in (1, 0):
            for cls in (b'compile', b'msvc_nc'):
                for cc in CCS:
                    out.append([ppmode, [ORC_OK] * 4,
                                [req(0), [b'restart_distfail'], req(0, cls, cc), req(0, cls, cc), req(0)]])
                    out.append([ppmode, [ORC_OK] * 4,
                                [[b'restart_distfail'], req(1, b'notcompile'), req(1, b'unsupported'), req(1, cls, cc), req(1)]])
    # request classes that are not executed
    for cls in CLASSES[1:]:
        out.append([1, [ORC_OK] * 4, [req(), req(cls=cls), req(cls=cls, cc=b'recache'), req()]])
    return out


# ---------------------------------------------------------------- random histories

def rand_faults(rng, p_none=3):
    def pick(xs):
        return b'none' if rng.chance(p_none, p_none + 1) else rng.choice(xs[1:])
    return [pick(PPGET), pick(PPPUT), pick(PPPUT), pick(GET), pick(PUT)]


def gen_histories(rng, n, maxlen, par_weight=2, zero_weight=1):
    out = []
    hook = dist_fail_hook()
    for _ in range(n):
        ppmode = 1 if rng.chance(3, 4) else 0
        orcs = []
        for t in range(NTU):
            o = list(rng.weighted([(ORC_OK, 12), (ORC_PPFAIL, 2), (ORC_CCFAIL, 2), (ORC_NOOUT, 1), (ORC_PPPANIC, 1),
                                   (ORC_CCPANIC, 1), (ORC_PPSIG, 1), (ORC_CCSIG, 1)]))
            if t >= 2 and rng.chance(1, 2):
                o[1] = 1
            orcs.append(o)
        steps = []
        seen = set()
        for _ in range(rng.range(3, maxlen)):
            kind = rng.weighted([('req', 12), ('disk', 3), ('restart', 1), ('zero', zero_weight), ('par', par_weight)])
            if kind == 'req':
                t = rng.below(NTU)
                cls = b'compile' if rng.chance(5, 6) else rng.choice(CLASSES[1:] + [b'msvc_nc', b'msvc_nc'])
                cc = rng.weighted([(b'default', 7), (b'recache', 2), (b'nocache', 2)])
                f = rand_faults(rng) if rng.chance(1, 2) else list(NOF)
                # (an MSVC request has TWO outputs, obj and pdb, extracted in HashMap order: with a missing output
                # directory the real code's error class — fatal error vs. read-error miss — depends on that order,
                # so this combination has no deterministic observation and is not generated)
                ok = 0 if (rng.chance(1, 25) and f[3] not in DURING and cls != b'msvc_nc') else 1
                steps.append(req(t, cls, cc, ok, f))
                if cls == b'compile':
                    seen.add(t)
            elif kind == 'disk':
                if rng.chance(1, 3):
                    steps.append([b'disk', b'res', b'flip', rng.below(NTU), rng.below(240)])
                else:
                    steps.append(disk(rng.choice([b'res', b'pp']), rng.choice([b'garbage', b'truncate', b'empty', b'delete']),
                                      rng.below(NTU)))
            elif kind == 'restart' and hook and rng.chance(1, 4):
                steps.append([b'restart_distfail'])
                for _ in range(rng.range(1, 3)):
                    steps.append(req(rng.below(NTU), rng.choice([b'compile', b'compile', b'msvc_nc', b'notcompile']),
                                     rng.weighted([(b'default', 3), (b'recache', 1), (b'nocache', 1)])))
                steps.append([b'restart', b'rw'])
            elif kind == 'restart':
                if rng.chance(1, 3):
                    # unusable cache directory at the restart, repaired a few requests later
                    steps.append([b'restart_broken'])
                    for _ in range(rng.below(3)):
                        t = rng.below(NTU)
                        steps.append(req(t, b'compile', rng.weighted([(b'default', 7), (b'recache', 2), (b'nocache', 1)])))
                        seen.add(t)
                    steps.append([b'heal'])
                else:
                    steps.append([b'restart', b'ro' if rng.chance(2, 5) else b'rw'])
            elif kind == 'zero':
                steps.append([b'zero'])
            else:
                tus = sorted(seen)
                if len(tus) < 2:
                    continue
                k = rng.range(2, len(tus))
                chosen = list(tus)
                while len(chosen) > k:
                    chosen.pop(rng.below(len(chosen)))
                rs = []
                for t in chosen:
                    cls = b'compile' if rng.chance(4, 5) else rng.choice(CLASSES[1:])
                    cc = rng.weighted([(b'default', 7), (b'recache', 2), (b'nocache', 2)])
                    rs.append(req(t, cls, cc, 1, None))
                steps.append([b'par'] + rs)
        out.append([ppmode, orcs, steps])
    return out


def gen_flips(tier):
    """In-place damage at EVERY byte position of every member of a stored result entry, then two fault-free repeats
    (the first must fall back to the compiler and re-populate, the second must hit)."""
    out = []
    step = 1 if tier == 'thorough' else 2
    for ppmode in (1, 0):
        for t in (0, 3):
            for off in range(0, 3 * 72, step):
                out.append([ppmode, [ORC_OK] * 4, [req(t), [b'disk', b'res', b'flip', t, off], req(t), req(t)]])
    # several positions damaged at once, and damage after a restart
    for k in range(24):
        offs = [(7 * k + 3) % 200, (11 * k + 40) % 200, (13 * k + 90) % 200]
        out.append([1, [ORC_OK] * 4, [req(1)] + [[b'disk', b'res', b'flip', 1, o] for o in offs]
                    + [[b'restart', b'rw'], req(1), req(1)]])
    return out


def gen_pokes(tier):
    """Overwrite 1 or 4 bytes at EVERY offset of a stored result entry (local header signature and fields, member
    names, payload, central directory fields incl. flags / method / sizes / offsets / names, end-of-central-directory
    record), then two fault-free repeats.  Entries are ~450 bytes; offsets wrap modulo the file length.  The model is
    not consulted for these histories (what a byte means depends on the archive layout): the property monitor judges."""
    out = []
    span = 560
    plans = [(1, 0, 1, 1), (1, 0, 4, 1), (0, 3, 1, 2)] if tier != 'thorough' else \
            [(pm, t, wd, 1) for pm in (1, 0) for t in (0, 3) for wd in (1, 4)]
    for ppmode, t, width, step in plans:
        for off in range(0, span, step):
            out.append([ppmode, [ORC_OK] * 4, [req(t), [b'poke', t, off, width], req(t), req(t)]])
    # the same for the PREPROCESSOR-cache entry of a unit (version byte, length prefixes, digests, paths, result key)
    for ppmode_t, width, step in (((0, 1, 1), (2, 8, 3)) if tier != 'thorough' else ((0, 1, 1), (0, 8, 1), (3, 1, 1), (3, 8, 1))):
        for off in range(0, 460, step):
            out.append([1, [ORC_OK] * 4, [req(ppmode_t), [b'poke', ppmode_t, off, width, b'pp'], req(ppmode_t), req(ppmode_t), req(ppmode_t)]])
    # damage after a restart, and two places at once
    for k in range(0, span, 7 if tier != 'thorough' else 2):
        out.append([1, [ORC_OK] * 4, [req(1), [b'poke', 1, k, 1], [b'restart', b'rw'], req(1), req(1)]])
        out.append([1, [ORC_OK] * 4, [req(2), [b'poke', 2, k, 1], [b'poke', 2, (k * 5 + 13) % span, 4], req(2), req(2)]])
    return out


FORGED_KEYS = [b'empty', b'len1', b'len2', b'nonhex', b'upper', b'slash', b'dotdot', b'abs', b'utf8', b'short', b'valid']


def gen_forge(tier):
    """The unit's preprocessor-cache entry is replaced by a WELL-FORMED entry whose (always matching) result names a
    key no compilation produced: empty, 1 or 2 characters, not hexadecimal, with '/' or '..', absolute, non-ASCII, too
    short, or a proper digest that is not in the cache.  The key comes out of an untrusted file: it must at worst be
    a miss that recompiles, and nothing may be read or written outside the cache directory.  Monitor only."""
    out = []
    for kind in FORGED_KEYS:
        for t in (0, 3):
            out.append([1, [ORC_OK] * 4, [req(t), [b'ppforge', t, kind], req(t), req(t), req(t)]])
            out.append([1, [ORC_OK] * 4, [req(t), [b'ppforge', t, kind], [b'restart', b'rw'], req(t), req(t)]])
            out.append([1, [ORC_OK] * 4, [req(t, f=F(put=b'err')), [b'ppforge', t, kind], req(t), req(t), req(t)]])
            out.append([1, [ORC_OK] * 4, [req(t), [b'ppforge', t, kind], [b'restart', b'ro'], req(t), req(t)]])
        out.append([1, [ORC_CCFAIL, ORC_OK, ORC_OK, ORC_OK], [req(0), [b'ppforge', 0, kind], req(0), req(0)]])
    return out


def gen_leaks(tier):
    """Stores that fail AFTER their reservation (the write to the temporary file fails, as on a full disk), many times
    in a row, against a SMALL cache (room for four entries); then the fault is gone: a miss must store, the repeat must
    hit — a leaked reservation would have filled the cache for good.  One unit only (eviction is not modelled)."""
    out = []
    for ppmode in (3, 2):
        for t in (0, 3):
            for k in ((1, 3, 5, 8) if tier != 'thorough' else range(1, 13)):
                fail = req(t, cc=b'recache', f=F(put=b'wfail'))
                out.append([ppmode, [ORC_OK] * 4, [req(t)] + [fail] * k + [req(t), req(t), req(t, cc=b'recache'), req(t), req(t)]])
                out.append([ppmode, [ORC_OK] * 4, [fail] * k + [req(t), req(t), req(t)]])
                out.append([ppmode, [ORC_OK] * 4, [req(t, f=F(put=b'wfail'))] * k + [req(t), req(t)]])
    return out


def gen_twins(tier):
    """Two stores of the SAME key in flight at once (concurrent forced-recache requests of one unit), the write of one
    of them fails after both reserved, the other commits; then fault-free requests must hit / re-populate."""
    out = []
    for ppmode in (1, 0, 3):
        for t in (0, 1, 2, 3):
            tail = [req(t), req(t), req(t, cc=b'recache'), req(t)]
            out.append([ppmode, [ORC_OK] * 4, [[b'twin', t]] + tail])
            out.append([ppmode, [ORC_OK] * 4, [req(t), [b'twin', t], [b'twin', t]] + tail])
            if ppmode < 2:
                o = (t + 1) % NTU
                out.append([ppmode, [ORC_OK] * 4, [req(o), [b'twin', t], req(o), req(o)] + tail])
    return out


def gen_first_touch(tier):
    """The cache directory is unusable exactly when a (re)started server first touches its stores, is repaired later;
    then a miss must store and the repeat must hit — for a cache that was empty, populated, read-only."""
    out = []
    for ppmode in (1, 0):
        for pre in ([], [req(0)], [req(0), req(1)]):
            for during in ([], [req(0)], [req(0), req(2, cc=b'recache')], [[b'par', req(0), req(1)]] if pre and len(pre) > 1 else [req(1)]):
                for mode in (None, b'rw', b'ro'):
                    steps = list(pre) + [[b'restart_broken']] + list(during)
                    if mode:
                        steps.append([b'restart', mode])       # restarted again while still broken
                    steps += [[b'heal'], req(0), req(0), req(3), req(3)]
                    out.append([ppmode, [ORC_OK, ORC_OK, ORC_UPD, ORC_OK], steps])
    return out


def gen_midzero(rng, n):
    """ZeroStats issued while a request is held inside its cache lookup (no time-out fault: real time is used)."""
    out = []
    gets = [g for g in GET if g != b'timeout']
    for _ in range(n):
        ppmode = 1 if rng.chance(3, 4) else 0
        orcs = [list(rng.weighted([(ORC_OK, 8), (ORC_UPD, 2), (ORC_CCFAIL, 2), (ORC_PPFAIL, 1)])) for _ in range(NTU)]
        steps = []
        for _ in range(rng.range(2, 7)):
            t = rng.below(NTU)
            f = list(NOF)
            if rng.chance(1, 3):
                f = [rng.choice(PPGET), rng.choice(PPPUT), rng.choice(PPPUT), rng.choice(gets), rng.choice(PUT)]
            cc = rng.weighted([(b'default', 8), (b'recache', 1), (b'nocache', 1)])
            cls = b'compile' if rng.chance(9, 10) else rng.choice(CLASSES[1:])
            r = req(t, cls, cc, 1, f)
            kind = rng.weighted([('req', 3), ('mid', 3), ('zero', 1)])
            if kind == 'req':
                steps.append(r)
            elif kind == 'mid':
                steps.append([b'midzero', r])
            else:
                steps.append([b'zero'])
        if not any(st[0] == b'midzero' for st in steps):
            steps.append([b'midzero', req(rng.below(NTU))])
        out.append([ppmode, orcs, steps])
    return out


def with_tails(cases):
    """Append, to every fourth history, two fault-free repeats per translation unit (same server): whatever happened
    before, the first must be answered with the compiler's result and re-populate, the second must hit."""
    out = []
    for i, c in enumerate(cases):
        if i % 4 == 0:
            c = [c[0], c[1], c[2] + [req(t) for t in range(NTU) for _ in (0, 1)]]
        out.append(c)
    return out


# ---------------------------------------------------------------- the specification, evaluated on the real output

def tu_obj(t):
    return b'obj' + str(t).encode() + bytes((i * i * 7 + i * 13 + t * 29 + 3) % 256 for i in range(48))


def direct_of(t, orc, ok):
    pp, upd, cs, cout = orc
    pp = 0 if pp == 99 else pp       # 99: not the compiler's behaviour but a panic inside the server
    cs = 0 if cs == 99 else cs
    pp = 265 if pp == 98 else pp     # 98: killed by signal 9, reported as 256 + 9
    cs = 265 if cs == 98 else cs
    d = str(t).encode()
    if pp != 0:
        return (pp, b'', b'ppe' + d, [])
    if cs != 0:
        return (cs, b'out' + d, b'err' + d, [])
    if not ok:
        if cout:
            return (1, b'', b'nodir', [])
        return (0, b'out' + d, b'err' + d, [])
    return (0, b'out' + d, b'err' + d, [tu_obj(t)] if cout else [])


def sane(orc):
    return not (orc[2] == 0 and orc[3] == 0)


def may_panic(orc, f):
    """Some step of this request may panic inside the server (if it is on the request's path)."""
    return orc[0] == 99 or orc[2] == 99 or b'panic' in f[:4]


def k1_shape(t, orc, ok, res):
    """Exactly the symptom of C08-K1: a successful answer with the right object whose stdout and/or stderr is empty."""
    client, outs = res
    want = direct_of(t, orc, ok)
    return (client[0] == b'finished' and client[1] == 0 and want[0] == 0 and list(outs) == want[3]
            and client[2] in (want[1], b'') and client[3] in (want[2], b''))


def check_result(t, orc, r, res, where):
    """Transparency of one request's client-side result."""
    vs = []
    cls, ok = r[2], r[4]
    client, outs = res
    tag = client[0]
    if tag in (b'hung', b'case_hung'):
        return ['%s: the request was never answered (hung connection)' % where]
    if cls in EXEC and may_panic(orc, r[5]):
        # an internal fault: the request must still be ANSWERED — the compiler's own result, a reported fatal error,
        # or a dropped connection (the client then compiles locally); never a wrong result, never a hang
        if tag in (b'fatal', b'body_err', b'call_err'):
            return []
    if tag in (b'panic', b'call_err', b'body_err', b'bad_body', b'bad_response', b'join_err', b'signal'):
        return ['%s: request ended in %s' % (where, tag.decode())]
    if cls not in EXEC:
        if tag not in (b'unsupported', b'unhandled'):
            vs.append('%s: a request that is not executed by the server must be handed back to the client, got %s' % (where, tag))
        return vs
    if not sane(orc):
        return vs          # exit 0 without an object file: outside the property (compiler misbehaviour)
    want = direct_of(t, orc, ok)
    if not ok:
        # the output directory does not exist: the compiler itself fails; any reported failure is acceptable
        if want[0] != 0:
            if tag == b'finished' and client[1] == 0:
                vs.append('%s: success reported although the output cannot be written' % where)
            return vs
    if tag == b'fatal':
        vs.append('%s: the build was broken: client got "sccache: encountered fatal error" instead of the compiler\'s own result %s' % (where, want[:3]))
        return vs
    if tag != b'finished':
        vs.append('%s: executed request answered %s' % (where, tag))
        return vs
    got = (client[1], client[2], client[3], list(outs))
    if got != (want[0], want[1], want[2], want[3]):
        vs.append('%s: client result %s differs from the compiler\'s own %s' % (where, got, want))
    return vs


def monitor(case, out):
    ppmode, orcs, steps = case
    vs = []
    if isinstance(out, list) and len(out) == 1 and out[0] == [b'case_hung']:
        return ['the history never finished: a request of it was never answered (a thread of the server is stuck)']
    if isinstance(out, list) and len(out) == 1 and out[0] == [b'not_run_after_hangs']:
        return []
    if isinstance(out, list) and len(out) == 2 and out[0] == b'unparsable':
        if out[1].startswith(b'(harness_died'):
            # the process serving this shard was killed (a signal such as SIGBUS, an abort): the first history reported
            # this way — the smallest case index — is the one that killed it, the later ones were never run
            return ['the process serving this history was killed (or had been killed by an earlier history of the same shard): %s'
                    % out[1][:60].decode('utf-8', 'replace')]
        return ['the process serving this history died instead of answering: %s' % out[1][:200].decode('utf-8', 'replace')]
    if not isinstance(out, list) or len(out) != len(steps) or (out and out[0] == b'harness_error'):
        return ['malformed implementation output: %r' % (out[:2] if isinstance(out, list) else out)]
    prev_good = 0
    distfail = False       # the dist client cannot be created: executed requests are answered with an error until a restart
    ro = False
    broken = False         # the cache directory cannot be opened
    settled = {}           # tu -> a clean successful request has populated the entry and nothing disturbed it
    poked = {}             # tu -> its entry was damaged at an arbitrary offset and has not been rewritten since
    for i, (st, ob) in enumerate(zip(steps, out)):
        kind = st[0]
        if ob[0] == b'aborted':
            break
        if ob[0] != kind:
            vs.append('step %d: malformed observation' % i)
            break
        if b'stats_hung' in ob[-1:] or ob[-1] == [b'stats_hung']:
            vs.append('step %d: the server no longer answers a statistics request (hung)' % i)
            break
        for part in ob:
            if isinstance(part, list) and len(part) == 6 and all(isinstance(x, int) for x in part) and part[5] > 0:
                vs.append('step %d: %d file(s) were created OUTSIDE the cache directory (a key read from a cache file was '
                          'used as a path)' % (i, part[5]))
                break
        if kind == b'midzero':
            kind, st = b'req', st[1]
        if kind == b'req' and distfail and st[2] in EXEC:
            # not a storage fault: the request must be ANSWERED (an error, or a dropped connection after which the
            # client compiles locally)
            tag = ob[1][0][0]
            if tag in (b'hung', b'case_hung'):
                vs.append('step %d: the request was never answered (hung connection)' % i)
            settled[st[1]] = settled.get(st[1], False)
            prev_good = ob[4][0]
            continue
        if kind == b'req':
            t, cls, cc, ok, f = st[1], st[2], st[3], st[4], st[5]
            res, ppr, ccr, dsk = ob[1], ob[2], ob[3], ob[4]
            orc = orcs[t]
            rv = check_result(t, orc, st, res, 'step %d' % i)
            if rv and poked.get(t) and k1_shape(t, orc, ok, res):
                # finding C08-K1, recorded under C08 (open): the NAME of the stdout / stderr member in the
                # unchecksummed zip directory was altered, the member looks absent, the hit lacks that output
                rv = []
            vs += rv
            want = direct_of(t, orc, ok)
            if cls == b'compile' and ccr >= 1 and res[0][0] == b'finished' and res[0][1] == 0:
                poked[t] = False
            if cls in EXEC and want[0] != 0 and dsk[0] > prev_good:
                vs.append('step %d: the result of a failed compilation was stored' % i)
            clean = (cls == b'compile' and cc == b'default' and ok == 1 and f == NOF and sane(orc) and want[0] == 0
                     and not broken and not may_panic(orc, f))
            # re-population is a statement about a WRITABLE cache (a read-only one cannot be re-populated; whether
            # it serves what it holds is not part of this property)
            if clean and settled.get(t) and not ro:
                if ccr != 0 or ppr > 1:
                    vs.append('step %d: the entry was not re-populated: a fault-free repeat of a fault-free request ran the compiler again' % i)
            if cls == b'compile':
                if clean and (not ro or settled.get(t)):
                    settled[t] = True
                elif clean:
                    pass
                else:
                    settled[t] = False
            prev_good = dsk[0]
        elif kind == b'par':
            rs = st[1:]
            results = ob[1]
            for j, (r, res) in enumerate(zip(rs, results)):
                vs += check_result(r[1], orcs[r[1]], r, res, 'step %d.%d' % (i, j))
                settled[r[1]] = False
            prev_good = ob[4][0]
        elif kind == b'disk':
            settled[st[3]] = False
            prev_good = ob[1][0]
        elif kind == b'twin':
            for j, res in enumerate(ob[1]):
                vs += check_result(st[1], orcs[st[1]], req(st[1], cc=b'recache'), res, 'step %d.%d' % (i, j))
            settled[st[1]] = False
            prev_good = ob[4][0]
        elif kind == b'poke':
            settled[st[1]] = False
            poked[st[1]] = True
            prev_good = ob[1][0]
        elif kind == b'ppforge':
            settled[st[1]] = False
            prev_good = ob[1][0]
        elif kind == b'restart':
            ro = st[1] == b'ro'
            distfail = False
            prev_good = ob[1][0]
        elif kind == b'restart_distfail':
            ro = False
            distfail = True
            prev_good = ob[1][0]
        elif kind == b'restart_broken':
            ro = False
            distfail = False
            broken = True
            prev_good = 0
        elif kind == b'heal':
            # the fault is gone: from here on a fault-free miss must store and its repeat must hit
            broken = False
            prev_good = ob[1][0]
    return vs


def nontrivial(case, out):
    # a transient or persistent fault was actually in play
    for st in case[2]:
        if st[0] == b'midzero':
            st = st[1]
        if st[0] == b'req' and (st[5] != NOF or st[4] == 0):
            return True
        if st[0] in (b'disk', b'restart', b'restart_broken', b'restart_distfail', b'poke', b'ppforge', b'twin'):
            return True
    return False


def stats(case, out):
    ks = ['ppmode=%d' % case[0]]
    for st in case[2]:
        ks.append('step=' + st[0].decode())
        if st[0] == b'midzero':
            st = st[1]
        if st[0] == b'req':
            ks.append('class=' + st[2].decode())
            ks.append('cc=' + st[3].decode())
            for name, v in zip(('ppget', 'ppupd', 'ppput', 'get', 'put'), st[5]):
                if v != b'none':
                    ks.append('fault.%s=%s' % (name, v.decode()))
    try:
        for ob in out:
            if ob[0] in (b'req', b'midzero'):
                ks.append('client=' + ob[1][0][0].decode())
    except Exception:
        pass
    return ks


def shrink(case):
    ppmode, orcs, steps = case
    for i in range(len(steps)):
        yield [ppmode, orcs, steps[:i] + steps[i + 1:]]
    for i, st in enumerate(steps):
        if st[0] == b'midzero':
            yield [ppmode, orcs, steps[:i] + [st[1]] + steps[i + 1:]]
        if st[0] == b'req':
            for j in range(5):
                if st[5][j] != b'none':
                    f = list(st[5])
                    f[j] = b'none'
                    yield [ppmode, orcs, steps[:i] + [[st[0], st[1], st[2], st[3], st[4], f]] + steps[i + 1:]]
        if st[0] == b'par' and len(st) > 2:
            for j in range(1, len(st)):
                yield [ppmode, orcs, steps[:i] + [st[:j] + st[j + 1:]] + steps[i + 1:]]


def neighbours(case):
    ppmode, orcs, steps = case
    # the same history followed by two fault-free repeats per unit: must re-populate and hit
    yield [ppmode, orcs, steps + [req(t) for t in range(NTU) for _ in (0, 1)]]
    yield [ppmode, [ORC_OK] * NTU, steps + [req(t) for t in range(NTU) for _ in (0, 1)]]
    for i, st in enumerate(steps):
        if st[0] != b'req':
            continue
        for j, dom in enumerate((PPGET, PPPUT, PPPUT, GET, PUT)):
            for v in dom:
                if v != st[5][j]:
                    f = list(st[5])
                    f[j] = v
                    yield [ppmode, orcs, steps[:i] + [[st[0], st[1], st[2], st[3], st[4], f]] + steps[i + 1:] + [req(st[1]), req(st[1])]]
        for cc in CCS:
            if cc != st[3]:
                yield [ppmode, orcs, steps[:i] + [[st[0], st[1], st[2], cc, st[4], st[5]]] + steps[i + 1:]]


def compare(m, i):
    # histories with a `poke` step are judged by the monitor only (see gen_pokes)
    # ... and a history with a request that was never answered is the monitor's business (no shrinking on a tree
    # where every candidate costs a time-out)
    return m == i or '(poke ' in i or '(ppforge ' in i or 'not_run_after_hangs' in i or 'hung' in i


def legs(tier):
    def gen(rng, tier):
        if tier == 'thorough':
            return (gen_table(tier) + gen_flips(tier) + gen_pokes(tier) + gen_forge(tier) + gen_leaks(tier) + gen_twins(tier)
                    + gen_first_touch(tier) + with_tails(gen_histories(rng, 20000, 16)) + gen_midzero(rng, 2000))
        return (gen_table(tier) + gen_flips(tier) + gen_pokes(tier) + gen_forge(tier) + gen_leaks(tier) + gen_twins(tier)
                + gen_first_touch(tier) + with_tails(gen_histories(rng, 2500, 14)) + gen_midzero(rng, 150))
    return [Leg('reqsm', gen, monitor=monitor, compare=compare, nontrivial=nontrivial, shrink=shrink, neighbours=neighbours, stats=stats,
                rule='single-request table: every reachable cache state (empty, warm, entry garbage/truncated/deleted/damaged in '
                     'place inside a member, cache directory unusable at first use and repaired, '
                     'preprocessor entry garbage/truncated/empty/deleted, read-only, restarted) x compiler outcome '
                     '(ok, header with __TIMESTAMP__, preprocessor fails, compiler fails, exit 0 without object) x cache '
                     'control x fault assignment (7 ppget x 4 ppupd x 4 ppput x 9 get x 4-5 put, each incl. "the call panics"; full product for the '
                     'empty/warm states in quick and everywhere in thorough, <=2 / <=1 simultaneous faults elsewhere), '
                     'each followed by two fault-free repeats; plus PRNG histories over 4 translation units mixing '
                     'requests of all classes, disk damage incl. in-place byte changes, restarts (rw/ro/with an unusable cache '
                     'directory, repaired later), zeroing and concurrent requests; plus in-place damage at every byte position of '
                     'every member of a stored entry, 1- and 4-byte overwrites at EVERY offset of a stored entry (all structural regions '
                     'of the archive; monitor only, no model comparison) and the first-touch-failure histories; '
                     'non-trivial = some fault, damage or restart occurs; distinct by case text')]


# ---------------------------------------------------------------- end to end (real server + gcc)

E2E_QUICK = ['res_poke_lh_sig', 'res_poke_cd_flags_encrypted', 'res_poke_cd_lho', 'res_poke_cd_method', 'res_poke_lh_name',
             'res_poke_eocd_cdoff', 'res_flip150', 'res_flip450', 'res_flip750', 'res_flip995', 'res_flip500x4_restart', 'res_truncate', 'res_overwrite', 'res_delete', 'res_directory', 'pp_truncate', 'pp_overwrite', 'pp_empty',
             'pp_delete', 'pp_directory', 'both_truncate', 'res_overwrite_restart', 'pp_truncate_restart',
             'cache_dir_removed', 'cache_dir_is_a_file', 'tiny_size_limit', 'read_only_mode']


def prebuild(rep):
    if os.environ.get('VERIF_NO_E2E') == '1':
        rep.e2e_ok = False
        return
    ok, out = pipeline.build_repo_bins(('sccache',))
    rep.oblige('build:sccache(e2e)', ok, out[-2000:] if not ok else 'cargo build --bin sccache, --cfg sccache_verif')
    rep.e2e_ok = ok


def extra(rep, known):
    from concurrent.futures import ThreadPoolExecutor
    from e2e import c09_e2e
    if not getattr(rep, 'e2e_ok', False) or not shutil.which('gcc'):
        rep.notes.append('e2e leg not run (sccache binary or gcc missing, or VERIF_NO_E2E=1)')
        return
    t0 = time.time()
    sccache = pipeline.repo_bin('sccache')
    names = E2E_QUICK if rep.tier == 'quick' else sorted(c09_e2e.FAULTS)
    with ThreadPoolExecutor(max_workers=6) as ex:
        results = list(ex.map(lambda n: c09_e2e.run_fault_scenario(sccache, n), names))
        results += list(ex.map(lambda t: c09_e2e.run_eviction_scenario(sccache, t), ['pp', 'res']))
        results += list(ex.map(lambda m: c09_e2e.run_first_touch_scenario(sccache, m), ['empty', 'populated']))
    names = list(names) + ['pp_directory_then_eviction', 'res_directory_then_eviction',
                           'unusable_at_first_use_empty', 'unusable_at_first_use_populated']
    bad = 0
    skipped = 0
    for r in results:
        rep.evaluations += 1
        rep.traces += 1
        rep.count('e2e.fault=' + r['name'])
        if r.get('skipped'):
            skipped += 1
            rep.notes.append('e2e %s skipped: %s' % (r['name'], r['notes']))
            continue
        for n in r['notes']:
            rep.notes.append('e2e %s: %s' % (r['name'], n))
        if r['violations']:
            bad += 1
            rep.violation('property', 'e2e', r['name'],
                          'real sccache server + gcc, cache damage "%s": %s' % (r['name'], '; '.join(r['violations'][:4])))
        else:
            rep.distinct.add('e2e:' + r['name'])
    rep.legs['e2e'] = dict(cases=len(names), violations=bad, skipped=skipped, wall_s=round(time.time() - t0, 1))
    rep.oblige('e2e:faults', bad == 0 and skipped < len(names),
               '%d damage scenarios against the real server + gcc, %d violate the property, %d skipped' % (len(names), bad, skipped))
    rep.rule.append('e2e: per-file truncate / empty / overwrite / delete / replace-by-directory on the result entry and on the '
                    'preprocessor-cache entry (with and without a server restart), cache directory removed / replaced by a '
                    'file, 1-byte size limit, read-only mode, an entry replaced by a directory and then evicted under a small size '
                    'limit, bytes changed in place inside the stored object at several positions, cache directory unusable when the '
                    'server first touches it and repaired later (then a miss must store and the repeat must hit); after the damage: same unit twice, a new unit, a failing unit '
                    'twice; exit code, stdout, stderr and object compared with a direct gcc run, hit after re-population, '
                    'compile_fails, counter laws')
    pipeline.log('leg e2e: %d scenarios, %d bad, %d skipped, %.1fs' % (len(names), bad, skipped, time.time() - t0))
