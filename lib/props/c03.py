"""C03 — a repeated cacheable request is served from the cache, also after restart.

Tie: e2e + D.  Generated histories (compile requests, unrelated edits, output deletions, server restarts, idle
periods) are executed against the REAL `sccache` binary with real gcc / clang / rustc behind a logging wrapper;
the extracted model (Run/C03.v around Model/HitModel.v) is fed the same abstract history and must predict every
observation (hit / miss, compile step ran, preprocessor ran, stored, which bytes every output file holds, number
and total size of entry files).  The monitor evaluates the property itself on the real observations.
"""
import hashlib
import json
import os
import shutil
import socket
import subprocess
import time
from concurrent.futures import ThreadPoolExecutor

from .. import pipeline, sx
from ..prng import Rng

ID = 'C03'
HARNESS_BIN = None
RUN_MODULE = 'Run.C03'
REPO_BINS = ['sccache']
THEOREMS = ['C03_hit_after_store', 'C03_hit_after_store_within_capacity', 'C03_restore_any_mount_layout', 'C03_damaged_entry_replaced', 'C03_key_ignores_server_env', 'C03_failed_probe_leaves_no_trace', 'C03_response_implies_stored', 'C03_key_ignores_unhashed', 'C03_key_ignores_output', 'C03_key_ignores_env',
            'C03_reopen_keeps_everything', 'C03_restart_preserves']
ASSUMPTIONS = [
    'the hash is an arbitrary function key_of of the fingerprint (record of the hashed request components); '
    '"unrelated request" = a request whose cache path differs (for a collision-free hash: whose fingerprint differs)',
    'the compilers are an oracle: what the compile step writes, whether it succeeds, how large the packed entry is; '
    'that equal sources give equal preprocessor output is not modelled (the e2e leg observes it)',
    'nobody but sccache touches the cache directory except through the modelled damage event (an entry file truncated: '
    'it stays indexed, is unreadable, and is replaced by the next store); other corruption shapes: C08/C09; I/O errors '
    'other than "file missing" and the 60 s lookup timeout are not modelled',
    'rustc env-deps: the crate names the variables it reads, their values are observed in the client environment only '
    '(C03_key_ignores_server_env); the e2e leg starts every server from a different environment (BUILD_TAG set / empty / '
    'absent) while the clients rarely set it',
    'a compiler probe that fails transiently refuses the request and changes nothing (C03_failed_probe_leaves_no_trace); '
    'the e2e leg removes the server temp directory for the first request after a restart (gcc/clang)',
    'mounts: rename fails across mounts (EXDEV), mounts are assigned to directories by an arbitrary function '
    '(C03_restore_any_mount_layout); the e2e leg puts the server TMPDIR / the cache directory on another file system',
    'the repeated request\'s preprocessor / dep-info step succeeds (or is skipped by a preprocessor-cache hit): explicit '
    'hypothesis of C03_hit_after_store, it is the compiler\'s behaviour on unchanged files',
    'C03_restart_preserves / C03_reopen_keeps_everything: guard "entry files fit the capacity and none is named like a '
    'temp file" (holds in every generated history: checked through the entry-file count / byte total after every event)',
    'the preprocessor cache is modelled as a map that is never evicted (its directory is nested in the main cache '
    'root in the real code; the small-capacity histories therefore run with preprocessor-cache mode off)',
]
TRUSTED = [
    'e2e driver lib/props/c03.py: classifies the arguments / environment of its own generated command lines into '
    'hashed / unhashed (the same classification the model theorem C03_key_ignores_unhashed is about), logging '
    'wrapper scripts around gcc, clang and rustc, stats deltas from `sccache --show-stats --stats-format=json`',
]

HUGE = 10 * 1024 * 1024 * 1024          # default SCCACHE_CACHE_SIZE
C_ALLOW = ['SCCACHE_C_CUSTOM_CACHE_BUSTER', 'MACOSX_DEPLOYMENT_TARGET', 'IPHONEOS_DEPLOYMENT_TARGET',
           'TVOS_DEPLOYMENT_TARGET', 'WATCHOS_DEPLOYMENT_TARGET', 'SDKROOT', 'CCC_OVERRIDE_OPTIONS']
UNRELATED_VARS = ['FOO', 'BUILD_ID', 'LANGUAGE', 'MY_CARGO_X']
HASHED_VARS = {'c': ['SCCACHE_C_CUSTOM_CACHE_BUSTER', 'SDKROOT'], 'rustc': ['CARGO_PKG_VERSION', 'CARGO_PKG_NAME']}
PP_ALLOW = ['SCCACHE_C_CUSTOM_CACHE_BUSTER', 'CPATH', 'C_INCLUDE_PATH', 'CPLUS_INCLUDE_PATH', 'OBJC_INCLUDE_PATH',
            'OBJCPLUS_INCLUDE_PATH']          # preprocessor_cache.rs CACHED_ENV_VARS (used for the abstract pp key only)
PROFILE_FLAGS = ['-ftest-coverage', '--coverage', '-fprofile-generate']
RUST_UNHASHED_CARGO = ['CARGO_REGISTRIES_MYREG_INDEX', 'CARGO_REGISTRIES_MYREG_TOKEN', 'CARGO_REGISTRIES_CRATES_IO_PROTOCOL']
BIG_BYTES = 48 * 1024 * 1024       # an object whose store takes noticeably longer than starting the next client
RUST_READ_VAR = 'BUILD_TAG'           # units 1 and 2 of the rustc histories read it with option_env!; clients rarely set it
SERVER_ENVS = [[], [['BUILD_TAG', 'nightly-1']], [['BUILD_TAG', 'release-7'], ['FOO', 'srv']], [['BUILD_ID', '9']], [['BUILD_TAG', '']]]
XFILES = ['x0.cfg', 'x1.cfg', 'x2.cfg', 'x3.cfg']
RUST_EMITS = ['link', 'dep-info,link', 'metadata', 'dep-info,metadata', 'dep-info,metadata,link']   # cargo build / cargo check shapes
NUNITS = 3


def h64(*parts):
    m = hashlib.sha256()
    for p in parts:
        if isinstance(p, str):
            p = p.encode()
        m.update(len(p).to_bytes(8, 'little'))
        m.update(p)
    return int.from_bytes(m.digest()[:7], 'big')


def sha(path):
    try:
        return hashlib.sha256(open(path, 'rb').read()).hexdigest()
    except OSError:
        return None


# ---------------------------------------------------------------- plan generation

def rust_sysroot():
    return subprocess.check_output(['rustc', '--print', 'sysroot']).decode().strip()


def gen_plan(rng, tool, pp, cap, nreq, idle_timeout=0):
    """A concrete history: list of steps.  Deterministic in rng."""
    steps = []
    reqs = []                 # earlier compile steps (dicts)
    outs = []                 # output paths produced so far
    nout = [0]
    nburst = [0]

    def fresh_out():
        nout[0] += 1
        return ('o%d' % nout[0]) if tool == 'rustc' else ('out%d.o' % nout[0])

    def bad():
        return rng.weighted([('', 14), ('pre', 1), ('cc', 1)])

    def new_compile(unit):
        if tool == 'rustc':
            return {'op': 'compile', 'unit': unit, 'opt': rng.choice(['0', '1']),
                    'cfgs': rng.shuffle(['fa', 'fb', 'fc'])[:rng.range(0, 3)],
                    'externs': rng.shuffle(['d1', 'd2'])[:rng.range(0, 2)],
                    'lpaths': rng.shuffle(['deps', 'lp2'])[:rng.range(0, 2)],
                    'emit': rng.choice(RUST_EMITS),
                    'out': fresh_out(), 'env': [], 'bad': bad()}
        return {'op': 'compile', 'unit': unit, 'opt': rng.choice(['-O0', '-O1', '-O2']),
                'defs': rng.choice([[], ['-DK=1'], ['-DK=2', '-DJ']]),
                'extra': rng.choice([[], ['-Wall'], ['-g'], ['-fPIC', '-Wall'], ['-ftest-coverage'], ['--coverage'],
                                     ['-g', '-gsplit-dwarf'], ['-g', '-gsplit-dwarf', '-ftest-coverage']]),
                'md': rng.chance(1, 4), 'md_first': rng.chance(1, 2),
                'dia': ('d%d.dia' % rng.below(3)) if (tool == 'clang' and rng.chance(1, 4)) else '',
                # extra hash files: SCCACHE_EXTRAFILES (ordered list) and, for clang, two -fsanitize-blacklist= options
                'xfiles': rng.shuffle(XFILES)[:rng.range(2, 4)] if rng.chance(1, 5) else [],
                'sbl': rng.shuffle(XFILES)[:2] if (tool == 'clang' and rng.chance(1, 8)) else [],
                'out': fresh_out(), 'env': [], 'bad': bad()}

    def vary(base):
        c = json.loads(json.dumps(base))
        c.pop('fault', None)
        if c['bad']:
            c['out'] = fresh_out()          # a failing compile never targets an existing file
            if rng.chance(2, 3):
                c['bad'] = ''               # ... the user fixes it
            return c
        kinds = rng.weighted([(['same'], 3), (['out'], 4), (['env'], 3), (['out', 'env'], 3), (['order'], 3 if tool == 'rustc' else 0),
                              (['out', 'env', 'order'], 2 if tool == 'rustc' else 0),
                              (['henv'], 1), (['henv2'], 2), (['envorder'], 3 if len(c['env']) > 1 else 0),
                              (['out', 'envorder'], 2 if len(c['env']) > 1 else 0), (['flag'], 1)])

        def set_env(k, v):
            c['env'] = [e for e in c['env'] if e[0] != k]
            c['env'].insert(rng.below(len(c['env']) + 1), [k, v])
        if 'out' in kinds:
            c['out'] = fresh_out()
        if 'env' in kinds:
            if tool == 'rustc' and rng.chance(1, 3):
                # cargo variables that are documented NOT to enter the key: registry configuration (tokens and the rest)
                set_env(rng.choice(RUST_UNHASHED_CARGO), 'r%d' % rng.below(1000))
            elif tool == 'rustc' and rng.chance(1, 4):
                set_env(RUST_READ_VAR, 't%d' % rng.below(2))      # hashed for the crates that read it, unrelated for the others
            else:
                set_env(rng.choice(UNRELATED_VARS), 'v%d' % rng.below(1000))
        if 'order' in kinds:
            c['cfgs'] = rng.shuffle(c['cfgs'])
            c['externs'] = rng.shuffle(c['externs'])
            c['lpaths'] = rng.shuffle(c['lpaths'])
        hv = HASHED_VARS['rustc' if tool == 'rustc' else 'c']
        if 'henv' in kinds:
            set_env(hv[0], 'b%d' % rng.below(3))
        if 'henv2' in kinds:
            # two hashed variables at once (their order in the environment must not matter); the second one is not
            # part of the preprocessor-cache key (finding S16 of C04), so it is only used with that mode off
            set_env(hv[0], 'b%d' % rng.below(2))
            if tool == 'rustc' or not pp:
                set_env(hv[1], 'x%d' % rng.below(2))
        if 'envorder' in kinds:
            c['env'] = c['env'][::-1] if rng.chance(1, 2) else rng.shuffle(c['env'])
        if 'flag' in kinds:
            if tool == 'rustc':
                c['opt'] = '2' if c['opt'] != '2' else '1'
            else:
                c['opt'] = '-O3' if c['opt'] != '-O3' else '-O2'
        return c

    n = 0
    while n < nreq:
        k = rng.weighted([('new', 3 if len(reqs) < 4 else 1), ('repeat', 8 if reqs else 0), ('edit', 2 if reqs else 0),
                          ('delete', 2 if outs else 0), ('restart', 2), ('idle', 1),
                          ('idle_exit', 1 if idle_timeout else 0)])
        if k == 'new':
            c = new_compile(rng.below(NUNITS))
        elif k == 'repeat':
            j = rng.below(len(reqs))
            c = vary(reqs[j])
            if c['out'] == reqs[j]['out'] and not c['bad']:
                # a repeat under the same name: ALWAYS delete a non-empty subset (possibly all) of what that compile
                # produced first, so that "the hit restores every output" is actually observed
                steps.append({'op': 'delete_some', 'req': j + 1, 'mask': rng.choice([0, 0, 1, 2, 3, 5, 6])})
        elif k == 'edit':
            # unrelated edit, then compile of that (other) unit
            u = rng.below(NUNITS)
            steps.append({'op': 'edit', 'unit': u, 'part': rng.choice(['src', 'hdr'])})
            cands = [r for r in reqs if r['unit'] == u]
            c = vary(rng.choice(cands)) if cands and rng.chance(1, 2) else new_compile(u)
        elif k == 'delete':
            steps.append({'op': 'delete', 'path': rng.choice(outs)})
            continue
        elif k == 'restart':
            steps.append({'op': 'restart', 'senv': rng.choice(SERVER_ENVS)})
            continue
        else:
            steps.append({'op': k})
            continue
        steps.append(c)
        reqs.append(c)
        outs.append(c['out'])
        n += 1
        if tool != 'rustc' and not c['bad'] and len(c.get('xfiles', [])) + len(c.get('sbl', [])) >= 2 and nburst[0] < 2:
            # several extra hash files: the identical request, many times (a key that depends on anything chosen per
            # request, e.g. the iteration order of a hash set, only fails now and then)
            nburst[0] += 1
            for _ in range(6):
                steps.append({'op': 'delete_some', 'req': len(reqs), 'mask': rng.choice([0, 1, 2, 3])})
                steps.append(json.loads(json.dumps(c)))
                reqs.append(steps[-1])
    if tool != 'rustc' and cap == HUGE and rng.chance(1, 5):
        # a request whose STORE is slow (a big object), followed AT ONCE by the identical request, or by a graceful
        # stop + start + the identical request: the response to the first one promises that its result is in the cache
        c = new_compile(rng.below(NUNITS))
        c.update({'bad': '', 'big': True, 'md': False, 'extra': [], 'dia': '', 'xfiles': [], 'sbl': []})
        then = rng.choice(['repeat', 'stop'])
        steps.append({'op': 'big_pair', 'then': then, 'c': c})
        reqs.append(c)
        if then == 'repeat':
            reqs.append(c)
            steps.append({'op': 'restart', 'senv': rng.choice(SERVER_ENVS)})
        steps.append({'op': 'delete_some', 'req': len(reqs), 'mask': 0})
        steps.append(json.loads(json.dumps(c)))
        reqs.append(steps[-1])
    good = [j for j, c in enumerate(reqs) if not c['bad'] and not c.get('fault')]
    if tool != 'rustc' and good and rng.chance(1, 2):
        # a transient failure of the compiler probe: right after a restart the server's temp directory is missing while the
        # (identical) request arrives; it is refused and compiled by the client.  Once repaired, the request must hit again.
        j = rng.choice(good)
        steps.append({'op': 'restart', 'senv': rng.choice(SERVER_ENVS)})
        f = json.loads(json.dumps(reqs[j]))
        f['fault'] = 'probe'
        f['out'] = fresh_out()
        steps.append(f)
        reqs.append(f)
        for _ in range(2):
            steps.append({'op': 'delete_some', 'req': j + 1, 'mask': rng.choice([0, 1, 2, 3])})
            steps.append(json.loads(json.dumps(reqs[j])))
            reqs.append(steps[-1])
    if good and rng.chance(1, 2):
        # an entry file gets damaged (truncated: machine crash, full disk, bad copy), with the server running or stopped;
        # the next identical request recompiles and stores again, every further one must be served from the cache
        j = rng.choice(good)
        how = rng.choice(['running', 'stopped'])
        if how == 'stopped':
            steps.append({'op': 'damage', 'req': j + 1, 'restart': True})
        else:
            steps.append({'op': 'damage', 'req': j + 1, 'restart': False})
        for _ in range(4):
            steps.append({'op': 'delete_some', 'req': j + 1, 'mask': rng.choice([0, 1, 2, 3])})
            steps.append(json.loads(json.dumps(reqs[j])))
    if cap == HUGE and reqs and rng.chance(2, 3):
        # the cache directory as a tar / CI-cache restore or a coarse-timestamp file system leaves it: entry files share
        # their mtimes; then every stored request once more
        steps.append({'op': 'flatten_mtimes', 'values': rng.choice([1, 1, 2, 3])})
        seen = set()
        for j in rng.shuffle(list(range(len(reqs)))):
            c = reqs[j]
            k = json.dumps({x: c[x] for x in c if x not in ('out', 'env')}, sort_keys=True)
            if c['bad'] or c.get('fault') or k in seen or len(seen) >= 6:
                continue
            seen.add(k)
            steps.append({'op': 'delete_some', 'req': j + 1, 'mask': rng.choice([0, 1, 2, 3])})
            steps.append(json.loads(json.dumps(c)))
    return {'tool': tool, 'pp': pp, 'cap': cap, 'idle_timeout': idle_timeout, 'steps': steps,
            # the server's TMPDIR (and, every other time, its cache directory) on ANOTHER file system than the build tree
            'tmp_other_fs': rng.chance(1, 2), 'cache_other_fs': rng.chance(1, 4),
            # the environment the first server is started from
            'senv0': rng.choice(SERVER_ENVS)}


def gen_plans(rng, tier):
    plans = []
    nh = 72 if tier == 'quick' else 600
    for i in range(nh):
        r = rng.fork('hist%d' % i)
        tool = ['gcc', 'clang', 'rustc'][i % 3]
        small = (i // 3) % 3 == 2            # every third round: small capacity, exact eviction prediction
        pp = False if small else ((i // 3) % 2 == 0)
        if tool == 'rustc':
            pp = (i // 3) % 2 == 0            # irrelevant for rustc, still swept
            cap = r.choice([6000, 11000, 16000]) if small else HUGE
            nreq = r.range(8, 12)
        else:
            cap = r.choice([1100, 1700, 2300, 3500]) if small else HUGE
            nreq = r.range(10, 14)
        # a few histories let the server exit by itself while idle (it is started again by the next client)
        idle_timeout = 2 if (i % 12) in (4, 8, 9) else 0
        plans.append(gen_plan(r, tool, pp, cap, nreq, idle_timeout))
    return plans


# ---------------------------------------------------------------- running a plan on the real binary

_PORTS = set()
_PORTS_LOCK = __import__('threading').Lock()


def free_port():
    """A free port that no other history of this run has been given (two histories must never share a server)."""
    while True:
        s = socket.socket()
        s.bind(('127.0.0.1', 0))
        p = s.getsockname()[1]
        s.close()
        with _PORTS_LOCK:
            if p not in _PORTS:
                _PORTS.add(p)
                return p


def kill_servers(port):
    """Kill leftover servers of this history: pid from a /proc/*/environ scan (never by pattern)."""
    needle = ('SCCACHE_SERVER_PORT=%d' % port).encode()
    for d in os.listdir('/proc'):
        if not d.isdigit():
            continue
        try:
            st = open('/proc/%s/stat' % d).read()
            if st.rsplit(')', 1)[1].split()[0] == 'Z':
                continue
            env = open('/proc/%s/environ' % d, 'rb').read().split(b'\0')
            if needle in env and b'SCCACHE_START_SERVER=1' in env:
                os.kill(int(d), 9)
        except (OSError, IndexError):
            pass


UNIT_BIG_C = '#ifdef BIG\n__asm__(".section .rodata\\n.incbin \\"blob.bin\\"\\n.text");\n#endif\n'
UNIT_SRC_C = ('#include "u%(u)d.h"\n#include "common.h"\n#ifdef BAD_PRE\n#include "missing.h"\n#endif\n#ifndef K\n#define K 0\n#endif\n'
              '#ifdef BAD_CC\nint broken = ;\n#endif\nint f%(u)d(int x) { return x * COMMON + U%(u)d + K + %(v)d; }\n')
UNIT_HDR_C = '#define U%(u)d %(v)d\n'
UNIT_SRC_RS = ('#[cfg(fa)] pub fn fa() -> u32 { 1 }\n#[cfg(fb)] pub fn fb() -> u32 { 2 }\n#[cfg(bad_pre)] compile_error!("bad_pre");\n'
               '#[cfg(bad_cc)] pub fn bad() -> u32 { "x" }\npub fn f%(u)d(x: u32) -> u32 { x + %(v)d }\n')
UNIT_READS_RS = 'pub const TAG: Option<&str> = option_env!("BUILD_TAG");\n'


class Inconclusive(Exception):
    pass


class Runner:
    def __init__(self, root, plan, sccache, deps_dir):
        self.root = root
        self.plan = plan
        self.tool = plan['tool']
        self.sccache = sccache
        self.ws = os.path.join(root, 'ws')
        self.cache = os.path.join(root, 'cache')
        self.tmpdir = os.path.join(root, 'tmp')
        other = getattr(self, 'other_root', None) or os.environ.get('C03_OTHER_ROOT')
        if other and os.stat(other).st_dev != os.stat(root).st_dev:
            if plan.get('tmp_other_fs'):
                self.tmpdir = os.path.join(other, os.path.basename(root) + '-tmp')
            if plan.get('cache_other_fs'):
                self.cache = os.path.join(other, os.path.basename(root) + '-cache')
            self.other_dirs = [self.tmpdir, self.cache]
        self.logf = os.path.join(root, 'wrapper.log')
        self.ver = {}
        os.makedirs(self.ws)
        os.makedirs(os.path.join(root, 'bin'))
        os.makedirs(self.tmpdir, exist_ok=True)
        open(os.path.join(root, 'empty.conf'), 'w').close()
        real = {'gcc': '/usr/bin/gcc', 'clang': '/usr/bin/clang',
                'rustc': os.path.join(deps_dir, 'rustc-path')}[self.tool]
        if self.tool == 'rustc':
            real = open(real).read().strip()
        self.cc = os.path.join(root, 'bin', self.tool)
        open(self.cc, 'w').write('#!/bin/sh\necho "$*" >> %s\nexec %s "$@"\n' % (self.logf, real))
        os.chmod(self.cc, 0o755)
        self.port = free_port()
        self.env = {
            'PATH': '/usr/local/sbin:/usr/local/bin:/usr/sbin:/usr/bin:/sbin:/bin', 'HOME': root,
            'TMPDIR': self.tmpdir, 'SCCACHE_SERVER_PORT': str(self.port), 'SCCACHE_DIR': self.cache,
            'SCCACHE_IDLE_TIMEOUT': str(plan.get('idle_timeout', 0)), 'SCCACHE_CONF': os.path.join(root, 'empty.conf'),
            'SCCACHE_DIRECT': 'true' if plan['pp'] else 'false', 'SCCACHE_CACHE_SIZE': str(plan['cap']),
            'SCCACHE_ERROR_LOG': os.path.join(root, 'server.log'), 'LC_ALL': 'C',
        }
        for u in range(NUNITS):
            self.ver[(u, 'src')] = 0
            self.ver[(u, 'hdr')] = 0
            self.write_unit(u)
        if self.tool == 'rustc':
            shutil.copytree(os.path.join(deps_dir, 'deps'), os.path.join(self.ws, 'deps'))
            os.makedirs(os.path.join(self.ws, 'lp2'))
        else:
            self.put('common.h', '#define COMMON 3\n')
            for i, f in enumerate(XFILES):
                self.put(f, '# extra hash file %d\n' % i)
            if any(s.get('big') or s.get('c', {}).get('big') for s in plan['steps']):
                with open(os.path.join(self.ws, 'blob.bin'), 'wb') as fh:      # incompressible
                    fh.write(os.urandom(BIG_BYTES))

    def put(self, rel, text):
        p = os.path.join(self.ws, rel)
        open(p, 'w').write(text)
        old = time.time() - 3600           # sources are long "finished" before the compile starts
        os.utime(p, (old, old))

    def write_unit(self, u):
        if self.tool == 'rustc':
            self.put('l%d.rs' % u, UNIT_SRC_RS % {'u': u, 'v': self.ver[(u, 'src')] * 7 + self.ver[(u, 'hdr')]}
                     + (UNIT_READS_RS if u >= 1 else ''))
        else:
            self.put('u%d.c' % u, UNIT_SRC_C % {'u': u, 'v': self.ver[(u, 'src')]} + UNIT_BIG_C)
            self.put('u%d.h' % u, UNIT_HDR_C % {'u': u, 'v': self.ver[(u, 'hdr')]})

    def sc(self, args, extra_env=None, timeout=120):
        e = dict(self.env)
        for k, v in (extra_env or []):      # appended in the given order: the order of the client's environment
            e[k] = v
        p = subprocess.run([self.sccache] + args, env=e, cwd=self.ws, stdout=subprocess.PIPE, stderr=subprocess.PIPE,
                           timeout=timeout)
        return p.returncode, p.stdout, p.stderr

    def find_server(self):
        needle = ('SCCACHE_SERVER_PORT=%d' % self.port).encode()
        for d in os.listdir('/proc'):
            if not d.isdigit():
                continue
            try:
                st = open('/proc/%s/stat' % d).read()
                if st.rsplit(')', 1)[1].split()[0] == 'Z':
                    continue
                env = open('/proc/%s/environ' % d, 'rb').read().split(b'\0')
                if needle in env and b'SCCACHE_START_SERVER=1' in env:
                    return int(d)
            except (OSError, IndexError):
                pass
        return None

    def server_alive(self):
        pid = getattr(self, 'server_pid', None)
        if pid is not None:
            try:
                st = open('/proc/%d/stat' % pid).read()
                if st.rsplit(')', 1)[1].split()[0] != 'Z':
                    return True
            except (OSError, IndexError):
                pass
        self.server_pid = self.find_server()
        return self.server_pid is not None

    def sync_server(self, events, obs):
        """Histories with an idle timeout: if the server has shut itself down, that is a restart of the cache."""
        if not self.server_alive():
            self.start_server(events, obs, self.next_senv(), by='idle-timeout')
            self.server_pid = self.find_server()

    def start_server(self, events, obs, senv, **why):
        """Start a server from the environment `senv` (on top of the fixed configuration); to the model: a restart."""
        self.sc(['--start-server'], senv)
        self.server_pid = None
        events.append(['restart', [[k.encode(), v.encode()] for k, v in senv]])
        obs.append(dict({'op': 'restart', 'entries': self.entries()}, **why))

    def next_senv(self):
        self.nstart = getattr(self, 'nstart', 0) + 1
        return SERVER_ENVS[(self.nstart + len(self.plan['steps'])) % len(SERVER_ENVS)]

    def compile_steps(self):
        out = []
        for s in self.plan['steps']:
            if s['op'] == 'compile':
                out.append(s)
            elif s['op'] == 'big_pair':
                out += [s['c']] * (2 if s['then'] == 'repeat' else 1)
        return out

    def reads(self, c):
        return [RUST_READ_VAR] if (self.tool == 'rustc' and c['unit'] >= 1) else []

    def stats(self):
        rc, out, err = self.sc(['--show-stats', '--stats-format=json'])
        d = json.loads(out.decode())['stats']

        def tot(x):
            return sum(x['counts'].values()) if isinstance(x, dict) else x
        return {k: tot(d.get(k, 0)) for k in ('cache_hits', 'cache_misses', 'cache_writes', 'cache_write_errors', 'compilations',
                                       'cache_errors', 'cache_read_errors', 'requests_unsupported_compiler', 'requests_executed', 'compile_fails', 'non_cacheable_compilations',
                                       'requests_not_cacheable', 'requests_not_compile', 'cache_timeouts', 'forced_recaches')}

    def take_log(self):
        try:
            t = open(self.logf).read()
        except OSError:
            t = ''
        open(self.logf, 'w').close()
        return [l for l in t.split('\n') if l]

    def entries(self):
        out = {}
        for r, ds, names in os.walk(self.cache):
            rel = os.path.relpath(r, self.cache)
            if rel.split(os.sep)[0] == 'preprocessor':
                continue
            for n in names:
                p = os.path.join(r, n)
                try:
                    out[os.path.relpath(p, self.cache)] = os.path.getsize(p)
                except OSError:
                    pass
        return out

    # ---- the concrete command line and its abstract classification
    def argv(self, c):
        u = c['unit']
        if self.tool == 'rustc':
            a = ['--crate-name', 'l%d' % u, '--crate-type', 'lib', '--emit=' + c['emit'], '-C', 'opt-level=' + c['opt']]
            # interleave the order-insensitive arguments in the given order
            for x in c['cfgs'] + self.badcfg(c):
                a += ['--cfg', x]
            for x in c['lpaths']:
                a += ['-L', x]
            for x in c['externs']:
                a += ['--extern', '%s=deps/lib%s.rlib' % (x, x)]
            a += ['l%d.rs' % u, '--out-dir', c['out']]
            return a
        md = ['-MD', '-MF', c['out'] + '.d'] if c.get('md') else []
        dia = ['--serialize-diagnostics', c['dia']] if c.get('dia') else []
        dia = ['-fsanitize-blacklist=' + f for f in c.get('sbl', [])] + dia
        if c.get('md_first'):       # -MD before the -D options: a later preprocessor argument must not re-enable pp-cache mode
            return md + [c['opt']] + self.defs(c) + c['extra'] + dia + ['-c', 'u%d.c' % u, '-o', c['out']]
        return [c['opt']] + self.defs(c) + c['extra'] + dia + md + ['-c', 'u%d.c' % u, '-o', c['out']]

    @staticmethod
    def badcfg(c):
        return {'': [], 'pre': ['bad_pre'], 'cc': ['bad_cc']}[c.get('bad', '')]

    @staticmethod
    def defs(c):
        return c['defs'] + {'': [], 'pre': ['-DBAD_PRE'], 'cc': ['-DBAD_CC']}[c.get('bad', '')] + (['-DBIG'] if c.get('big') else [])

    def outputs(self, c):
        u = c['unit']
        """(role, path, optional) of what `compilation.outputs()` yields for this request."""
        if self.tool == 'rustc':
            emit = c['emit'].split(',')
            o = []
            if 'link' in emit:
                o.append(('libl%d.rlib' % u, '%s/libl%d.rlib' % (c['out'], u), 0))
            if 'metadata' in emit:
                o.append(('libl%d.rmeta' % u, '%s/libl%d.rmeta' % (c['out'], u), 0))
            if 'dep-info' in emit:
                o.append(('l%d.d' % u, '%s/l%d.d' % (c['out'], u), 0))
            return sorted(o)
        stem = os.path.splitext(c['out'])[0]
        o = [('obj', c['out'], 0)]
        if any(x in PROFILE_FLAGS for x in c['extra']):
            o.append(('gcno', stem + '.gcno', 0))
        if '-gsplit-dwarf' in c['extra']:
            o.append(('dwo', stem + '.dwo', 1))
        if c.get('dia'):
            o.append(('dia', c['dia'], 0))
        return sorted(o)

    def keyed_out(self, c):
        """An object instrumented for coverage / profiling embeds the location of its .gcno/.gcda files, and one compiled
        with -gsplit-dwarf the name of its .dwo file, both derived from the output path: for such requests (and only for
        them) the output name is part of what makes a request identical."""
        if any(x in PROFILE_FLAGS for x in c['extra']) or '-gsplit-dwarf' in c['extra']:
            return os.path.join(self.ws, c['out'])
        return ''

    @staticmethod
    def extra_files(c):
        return list(c.get('sbl', [])) + list(c.get('xfiles', []))

    def extrafiles_var(self, c):
        return ':'.join(os.path.join(self.ws, f) for f in c.get('xfiles', []))

    def client_env(self, c):
        e = [(k, v) for k, v in c['env']]
        if c.get('xfiles'):
            e.append(('SCCACHE_EXTRAFILES', self.extrafiles_var(c)))
        return e

    def listing(self):
        """Every file of the client's directory with a signature that changes when the file is rewritten."""
        out = {}
        for r, ds, names in os.walk(self.ws):
            for n in names:
                p = os.path.join(r, n)
                try:
                    s = os.stat(p)
                    out[os.path.relpath(p, self.ws)] = (s.st_ino, s.st_mtime_ns, s.st_size)
                except OSError:
                    pass
        return out

    def retarget_path(self, f, c0, c1):
        """Where a file that the compile of request c0 produced belongs for the identical request c1."""
        if self.tool == 'rustc':
            return c1['out'] + f[len(c0['out']):] if f.startswith(c0['out'] + '/') else f
        s0, s1 = os.path.splitext(c0['out'])[0], os.path.splitext(c1['out'])[0]
        return s1 + f[len(s0):] if f.startswith(s0 + '.') else f

    def file_digest(self, rel):
        return h64(open(os.path.join(self.ws, rel), 'rb').read())

    def abstract(self, c, tag, oracle):
        """The request as the model sees it.  This classification (what is hashed, what is not) is the documented
        behaviour the property refers to; a divergence of the real code shows up as a disagreement / violation."""
        u = c['unit']
        env = [(k, v) for k, v in c['env']]
        if self.tool == 'rustc':
            args = [['h', b'--crate-name'], ['h', b'l%d' % u], ['h', b'--crate-type'], ['h', b'rlib'],
                    ['h', b'--emit'], ['h', c['emit'].encode()], ['h', b'-C'], ['h', b'opt-level=' + c['opt'].encode()]]
            for x in c['cfgs'] + self.badcfg(c):
                args.append(['cfg', x.encode()])
            for x in c['lpaths']:
                args.append(['lp', x.encode()])
            for x in c['externs']:
                args.append(['ext', ('deps/lib%s.rlib' % x).encode(), self.file_digest('deps/lib%s.rlib' % x)])
            args += [['h', b'l%d.rs' % u], ['out', c['out'].encode()]]
            inputs = [self.file_digest('l%d.rs' % u)]
            return ['req', tag, 'rust', 7, args, [[k.encode(), v.encode()] for k, v in env],
                    [v.encode() for v in self.reads(c)], self.ws.encode(),
                    inputs, [[r.encode(), p.encode(), o] for r, p, o in self.outputs(c)], [], oracle]
        defs = self.defs(c)
        # -ftest-coverage sets `profile_generate`: the absolute object path then enters the key (model: AProfile)
        args = [['h', c['opt'].encode()]] + [['u', d.encode()] for d in defs] + \
               [['p' if x in PROFILE_FLAGS else 'sd' if x == '-gsplit-dwarf' else 'h', x.encode()] for x in c['extra']]
        args += [['h', ('-fsanitize-blacklist=' + f).encode()] for f in c.get('sbl', [])]
        if c.get('dia'):            # hashed (common) arguments; the file is an output of the request
            args += [['h', b'--serialize-diagnostics'], ['h', c['dia'].encode()]]
        if c.get('md'):
            args += [['u', b'-MD'], ['u', b'-MF'], ['u', (c['out'] + '.d').encode()]]
        args += [['u', b'-c'], ['u', b'u%d.c' % u], ['out', c['out'].encode()]]
        srcs = [open(os.path.join(self.ws, f), 'rb').read() for f in ('u%d.c' % u, 'u%d.h' % u, 'common.h')]
        # stands for the digest of the preprocessor output: a function of the texts read and the -D options
        # (with preprocessor-cache mode in effect the preprocessor runs without -P: the line markers are part of its output;
        #  -MD is "too hard" for that mode, so such a request is preprocessed with -P even when the mode is on)
        markers = b'markers' if (self.plan['pp'] and not c.get('md')) else b'-P'
        inputs = [h64(b'pp', markers, *(srcs + [d.encode() for d in defs]))]
        # the extra hash files: an ORDERED list of digests determined by the request (option files, then SCCACHE_EXTRAFILES)
        xdig = [self.file_digest(f) for f in self.extra_files(c)]
        inputs += xdig
        if c.get('xfiles'):
            env = env + [('SCCACHE_EXTRAFILES', self.extrafiles_var(c))]      # itself not an allow-listed variable
        ppkey = []
        if self.plan['pp'] and not c.get('md') and not c.get('big'):   # -MD / .incbin are "too hard" for preprocessor-cache mode
            henv = sorted((k, v) for k, v in env if k in PP_ALLOW)
            ppkey = [h64(b'ppkey', c['opt'], json.dumps(defs), json.dumps(c['extra']), c.get('dia', ''), json.dumps(henv), self.keyed_out(c),
                         json.dumps(c.get('sbl', [])), json.dumps(xdig), 'u%d.c' % u, srcs[0]).to_bytes(8, 'big')]
        comp = h64(open(self.cc, 'rb').read())
        return ['req', tag, 'c', comp, args, [[k.encode(), v.encode()] for k, v in env], [], self.ws.encode(),
                inputs, [[r.encode(), p.encode(), o] for r, p, o in self.outputs(c)], ppkey, oracle]

    def identity(self, c):
        """The property's own notion of "the identical request" (same compiler, arguments, hashed environment,
        working directory, unchanged files), independent of the Coq model."""
        u = c['unit']
        if self.tool == 'rustc':
            henv = sorted((k, v) for k, v in c['env']
                          if k.startswith('CARGO_') and k != 'CARGO_MAKEFLAGS' and not k.startswith('CARGO_REGISTRIES_'))
            cenv = dict((k, v) for k, v in c['env'])
            return ('rust', u, c['opt'], c['emit'], tuple((v, cenv.get(v)) for v in self.reads(c)),
                    tuple(sorted(c['cfgs'] + self.badcfg(c))),
                    tuple(sorted((x, self.file_digest('deps/lib%s.rlib' % x)) for x in c['externs'])),
                    tuple(henv), self.ws, self.file_digest('l%d.rs' % u))
        henv = sorted((k, v) for k, v in c['env'] if k in C_ALLOW)
        return ('c', u, c['opt'], tuple(self.defs(c)), tuple(c['extra']), bool(c.get('md')), bool(c.get('md') and c.get('md_first')), c.get('dia', ''), tuple(henv), self.keyed_out(c),
                tuple((f, self.file_digest(f)) for f in self.extra_files(c)),
                tuple(self.file_digest(f) for f in ('u%d.c' % u, 'u%d.h' % u, 'common.h')))

    def classify_log(self, lines):
        compiled = pre = 0
        for l in lines:
            w = l.split()
            if self.tool == 'rustc':
                if '--out-dir' in w and '--print' not in w:
                    compiled += 1
                elif '--emit' in w and '--out-dir' not in w and '--crate-name' in w:
                    pre += 1
            else:
                if '-E' in w and any(x.endswith('.c') and x.startswith('u') for x in w):
                    pre += 1
                elif '-c' in w:
                    compiled += 1
        return compiled, pre

    def run(self):
        """Execute the plan; returns the list of observations (one per step) + the abstract events (without sizes filled
        for requests that stored nothing)."""
        obs = []
        events = []
        self.start_server(events, obs, self.plan.get('senv0', []))
        saved = {}                      # tag -> {role: sha}
        stored = {}                     # identity -> (tag, entry file, request, {file the compiler produced: sha})
        produced = {}                   # tag -> files written while the request was served
        stored_all = {}                 # identity -> (first tag, entry file, request, files, latest tag): survives damage
        viol = []
        tag = 0
        try:
            for si, st in enumerate(self.plan['steps']):
                op = st['op']
                if op == 'edit':
                    self.ver[(st['unit'], st['part'])] += 1
                    self.write_unit(st['unit'])
                    continue            # not an event of the model: it changes the inputs of later requests
                if op == 'delete':
                    try:
                        p = os.path.join(self.ws, st['path'])
                        if os.path.isdir(p):
                            shutil.rmtree(p)
                        else:
                            os.remove(p)
                    except OSError:
                        pass
                    ev = []
                    if self.tool == 'rustc':
                        # an out-dir: all files below it
                        for ob in obs:
                            for (role, path) in ob.get('outputs', []):
                                if path.startswith(st['path'] + '/'):
                                    ev.append(['delete', path.encode()])
                        seen = set()
                        ev = [e for e in ev if not (e[1] in seen or seen.add(e[1]))]
                    else:
                        ev = [['delete', st['path'].encode()]]
                    for e in ev:
                        events.append(e)
                        obs.append({'op': 'delete', 'entries': self.entries()})
                    continue
                if op == 'delete_some':
                    # a non-empty subset (mask 0 = all) of the files the compile of / the hit for request `req` left
                    files = sorted(f for f in produced.get(st['req'], []) if os.path.exists(os.path.join(self.ws, f)))
                    pick = [f for i, f in enumerate(files) if (st['mask'] >> i) & 1] or files
                    for f in pick:
                        os.remove(os.path.join(self.ws, f))
                        events.append(['delete', f.encode()])
                        obs.append({'op': 'delete', 'entries': self.entries()})
                    continue
                if op == 'big_pair':
                    c = st['c']
                    ident = self.identity(c)
                    outs = self.outputs(c)
                    argv, cenv = [self.cc] + self.argv(c), self.client_env(c)
                    if self.plan.get('idle_timeout'):
                        self.sync_server(events, obs)
                    ents0 = self.entries()
                    s0 = self.stats()
                    self.take_log()
                    rca, _, erra = self.sc(argv, cenv)
                    if st['then'] == 'repeat':
                        rcb, _, errb = self.sc(argv, cenv)                  # at once: nothing in between
                        s1 = self.stats()
                    else:
                        rcs, _, _ = self.sc(['--stop-server'])              # at once: a graceful stop
                        if rcs != 0:
                            kill_servers(self.port)
                    compiled, pre = self.classify_log(self.take_log())
                    ents1 = self.entries()
                    new = [k for k in ents1 if k not in ents0]
                    size = ents1[new[0]] if len(new) == 1 else 0
                    shas = {p: sha(os.path.join(self.ws, p)) for _, p, _ in outs}
                    roles = [r.encode() for r, _, _ in outs]
                    ta = tag + 1
                    saved[ta] = {role: shas[p] for role, p, _ in outs}
                    produced[ta] = [p for _, p, _ in outs]
                    base = {'op': 'compile', 'outputs': [(r, p) for r, p, _ in outs], 'shas': shas, 'entries': ents1, 'new': new,
                            'stderr': ''}
                    if st['then'] == 'repeat':
                        d = {k: s1[k] - s0[k] for k in s0}
                        tb = tag + 2
                        tag += 2
                        produced[tb] = produced[ta]
                        obs.append(dict(base, tag=ta, rc=rca, kind='miss' if d['cache_misses'] >= 1 else 'other:' + json.dumps(d),
                                        compiled=min(compiled, 1), pre=min(pre, 1), stored=min(d['cache_writes'], 1)))
                        events.append(self.abstract(c, ta, [1, 1, 1, size, roles]))
                        obs.append(dict(base, tag=tb, rc=rcb,
                                        kind='hit' if (d['cache_hits'], d['cache_misses']) == (1, 1) else 'miss',
                                        compiled=max(compiled - 1, 0), pre=max(pre - 1, 0), stored=max(d['cache_writes'] - 1, 0)))
                        events.append(self.abstract(c, tb, [1, 1, 1, size, roles]))
                        if rca == 0 and ((d['cache_hits'], d['cache_misses']) != (1, 1) or compiled != 1 or rcb != 0):
                            viol.append('step %d (requests %d and %d): the identical request issued right after the first one had '
                                        'returned successfully was not served from the cache (hits+%d misses+%d, %d compile steps, '
                                        'exit %d)' % (si, ta, tb, d['cache_hits'], d['cache_misses'], compiled, rcb))
                    else:
                        tag += 1
                        obs.append(dict(base, tag=ta, rc=rca, kind='miss' if compiled else 'other', compiled=min(compiled, 1),
                                        pre=min(pre, 1), stored=1 if len(new) == 1 else 0))
                        events.append(self.abstract(c, ta, [1, 1, 1, size, roles]))
                        if rca == 0 and compiled and len(new) != 1:
                            viol.append('step %d (request %d): the request returned successfully, the server was then stopped with '
                                        '--stop-server, and its result is not in the cache directory (entries before %d, after %d)'
                                        % (si, ta, len(ents0), len(ents1)))
                        self.start_server(events, obs, self.next_senv())
                    if len(new) == 1:
                        stored[ident] = (ta, new[0], c, {p: shas[p] for _, p, _ in outs})
                        stored_all[ident] = (ta, new[0], c, stored[ident][3], ta)
                    continue
                if op == 'damage':
                    cs = self.compile_steps()[st['req'] - 1]
                    ident_d = self.identity(cs)       # the entry such a request would be served from NOW
                    ent = [stored_all[ident_d]] if ident_d in stored_all else []
                    f = ent[0][1] if ent else None
                    if f is None or f not in self.entries():
                        continue                      # never stored / already evicted: nothing to damage
                    if st.get('restart'):
                        rc, _, _ = self.sc(['--stop-server'])
                        if rc != 0:
                            kill_servers(self.port)
                    fp = os.path.join(self.cache, f)
                    newsize = os.path.getsize(fp) // 2
                    with open(fp, 'r+b') as fh:
                        fh.truncate(newsize)
                    stored.pop(ident_d, None)         # until it is stored again, a miss is the correct answer
                    events.append(['damage', self.abstract(ent[0][2], ent[0][0], [1, 1, 1, 0, []]), newsize])
                    obs.append({'op': 'damage', 'entries': self.entries()})
                    if st.get('restart'):
                        self.start_server(events, obs, self.next_senv())
                    continue
                if op == 'flatten_mtimes':
                    # server stopped; every file below the cache directory gets one of `values` shared whole-second mtimes
                    rc, _, _ = self.sc(['--stop-server'])
                    if rc != 0:
                        kill_servers(self.port)
                    base = int(time.time()) - 5000
                    i = 0
                    for r, ds, names in os.walk(self.cache):
                        for n in sorted(names):
                            mt = base + 100 * (i % st['values'])
                            os.utime(os.path.join(r, n), (mt, mt))
                            i += 1
                    self.start_server(events, obs, self.next_senv(), flattened=st['values'])
                    continue
                if op == 'restart':
                    rc, _, _ = self.sc(['--stop-server'])
                    if rc != 0:
                        kill_servers(self.port)
                    self.start_server(events, obs, st.get('senv', []))
                    continue
                if op == 'idle_exit':
                    # longer than SCCACHE_IDLE_TIMEOUT: the server shuts itself down; to the cache that is a restart.
                    # Whether it really exited is observed (pid), never assumed: no timing assertion.
                    time.sleep(self.plan['idle_timeout'] + 1.3)
                    self.sync_server(events, obs)
                    continue
                if op == 'idle':
                    time.sleep(0.15)
                    events.append(['idle'])
                    obs.append({'op': 'idle', 'entries': self.entries()})
                    continue
                # ---- compile request
                tag += 1
                if self.plan.get('idle_timeout'):
                    self.sync_server(events, obs)
                if self.tool == 'rustc':
                    os.makedirs(os.path.join(self.ws, st['out']), exist_ok=True)
                ident = self.identity(st)
                before_entries = self.entries()
                s0 = self.stats()
                self.take_log()
                ls0 = self.listing()
                if st.get('fault') == 'probe':
                    shutil.rmtree(self.tmpdir, ignore_errors=True)       # the server cannot write its detection source
                rc, out, err = self.sc([self.cc] + self.argv(st), self.client_env(st))
                if st.get('fault') == 'probe':
                    os.makedirs(self.tmpdir, exist_ok=True)               # ... repaired
                ls1 = self.listing()
                produced[tag] = sorted(f for f in ls1 if ls0.get(f) != ls1[f])
                lines = self.take_log()
                s1 = self.stats()
                d = {k: s1[k] - s0[k] for k in s0}
                after_entries = self.entries()
                compiled, pre = self.classify_log(lines)
                outs = self.outputs(st)
                shas = {p: sha(os.path.join(self.ws, p)) for _, p, _ in outs}
                if d['requests_unsupported_compiler'] == 1 and d['requests_executed'] == 0:
                    kind = 'unsupported'
                elif d['cache_hits'] == 1 and d['cache_misses'] == 0:
                    kind = 'hit'
                elif d['cache_misses'] == 1 and d['cache_hits'] == 0:
                    kind = 'miss_read_error' if (d['cache_errors'] or d['cache_read_errors']) else 'miss'
                elif d['compile_fails']:
                    kind = 'compile_failed'
                elif d['non_cacheable_compilations']:
                    kind = 'not_cacheable'
                elif d['cache_errors']:
                    kind = 'error'
                else:
                    kind = 'other:' + json.dumps({k: v for k, v in d.items() if v})
                new = [k for k in after_entries if k not in before_entries]
                if not new and d['cache_writes'] == 1 and ident in stored_all and stored_all[ident][1] in after_entries:
                    new = [stored_all[ident][1]]      # stored again over the (damaged) file of the same key
                size = after_entries[new[0]] if len(new) == 1 else 0
                if d['cache_write_errors']:
                    size = self.plan['cap'] + 1      # the store was refused: larger than the whole cache
                o = {'op': 'compile', 'tag': tag, 'rc': rc, 'kind': kind, 'compiled': compiled, 'pre': pre,
                     'stored': d['cache_writes'], 'write_errors': d['cache_write_errors'],
                     'outputs': [(r, p) for r, p, _ in outs], 'shas': shas,
                     'entries': after_entries, 'new': new, 'stderr': err.decode('utf-8', 'replace')[-400:],
                     'requests': d['requests_executed']}
                if compiled:
                    saved[tag] = {role: shas[p] for role, p, _ in outs}
                # ---- the property, evaluated on the real observation (no model involved, and no knowledge of which
                #      files sccache considers outputs: EVERY file the first compile produced must be there again)
                if ident in stored and not st.get('fault'):
                    t0, entry_file, st0, files0 = stored[ident]
                    if entry_file in before_entries:
                        what = []
                        if kind != 'hit':
                            what.append('answered %s instead of a cache hit' % kind)
                        if compiled:
                            what.append('the compiler ran (%d compile step(s))' % compiled)
                        for f0, sha0 in sorted(files0.items()):
                            f1 = self.retarget_path(f0, st0, st)
                            have = sha(os.path.join(self.ws, f1))
                            # a C dependency file names its target: its bytes legitimately follow the output name
                            name_dependent = self.tool != 'rustc' and f0.endswith('.d') and st0['out'] != st['out']
                            if have is None:
                                what.append('%s (%s of the first compile) was not restored' % (f1, f0))
                            elif have != sha0 and not name_dependent:
                                what.append('%s differs from the bytes the first compile produced (%s)' % (f1, f0))
                        if rc != 0:
                            what.append('client exit code %d' % rc)
                        if what:
                            viol.append('step %d (request %d, identical to stored request %d whose entry %s is still in the cache%s): %s'
                                        % (si, tag, t0, entry_file, ', after %d restart(s)' % sum(1 for x in self.plan['steps'][:si] if x['op'] in ('restart', 'flatten_mtimes')),
                                           '; '.join(what)))
                if self.plan.get('idle_timeout') and not self.server_alive():
                    raise Inconclusive('the server exited while request %d was being observed' % tag)
                if d['cache_writes'] == 1 and len(new) == 1:
                    stored[ident] = (tag, new[0], st, {f: sha(os.path.join(self.ws, f)) for f in produced[tag]})
                    first = stored_all[ident][0] if ident in stored_all else tag
                    stored_all[ident] = (first, new[0], st, stored[ident][3], tag)
                o['saved_ref'] = None
                obs.append(o)
                bad = st.get('bad', '')
                # what the compile step leaves behind: everything, or (rustc failing in type check) only the dep-info
                if compiled:
                    # observed: which of its outputs the compile step wrote (a .dwo or not; a failing clang still writes
                    # the serialized diagnostics, a failing rustc the dep-info)
                    written = [r for r, p, _ in outs if p in produced[tag]]
                else:
                    written = [r for r, _, _ in outs if bad != 'cc' or (self.tool == 'rustc' and r.endswith('.d'))]
                events.append(self.abstract(st, tag, [0 if bad == 'pre' else 1, 0 if bad == 'cc' else 1, 1, size,
                                                      [r.encode() for r in written]]))
                if st.get('fault') == 'probe':
                    events[-1][0] = 'probefail'
        finally:
            rc, _, _ = self.sc(['--stop-server'])
            kill_servers(self.port)
        return obs, events, saved, viol


def compare(plan, obs, events, saved, mline):
    """Model prediction vs. real observation, step by step.  Returns list of disagreement strings."""
    dis = []
    try:
        m = sx.loads(mline)
    except Exception:
        return ['unparsable model output: ' + mline[:200]]
    if not isinstance(m, list) or len(m) != len(obs) or (m and m[0] == b'model_error'):
        return ['model output malformed: ' + mline[:300]]
    for i, (mo, ob) in enumerate(zip(m, obs)):
        nfiles = len(ob['entries'])
        total = sum(ob['entries'].values())
        if ob['op'] != 'compile':
            if mo[0] != b'ev':
                dis.append('event %d: model treats a non-request as a request' % i)
            elif (mo[1], mo[2]) != (nfiles, total):
                dis.append('event %d (%s): model has %d entry files / %d bytes, the cache directory %d / %d'
                           % (i, ob['op'], mo[1], mo[2], nfiles, total))
            continue
        kind, compiled, pre, stored, mouts, mn, mt = mo
        kind = kind.decode()
        if kind != ob['kind']:
            dis.append('event %d request %d: model predicts %s, sccache answered %s' % (i, ob['tag'], kind, ob['kind']))
            continue
        if bool(compiled) != bool(ob['compiled']):
            dis.append('event %d request %d: compile step ran: model %s, real %s' % (i, ob['tag'], bool(compiled), ob['compiled']))
        if bool(pre) != bool(ob['pre']):
            dis.append('event %d request %d: preprocessor/dep-info step ran: model %s, real %d' % (i, ob['tag'], bool(pre), ob['pre']))
        if stored != ob['stored']:
            dis.append('event %d request %d: stored: model %d, real %d' % (i, ob['tag'], stored, ob['stored']))
        roles = {p: r for r, p in ob['outputs']}
        for mo_out in mouts:
            p = mo_out[0].decode()
            have = ob['shas'].get(p)
            if len(mo_out) == 1:
                if have is not None:
                    dis.append('event %d request %d: model says %s is absent, it exists' % (i, ob['tag'], p))
            else:
                want = saved.get(mo_out[1], {}).get(roles[p])
                if have is None or have != want:
                    dis.append('event %d request %d: %s should hold the bytes written by the compile of request %d'
                               % (i, ob['tag'], p, mo_out[1]))
        if (mn, mt) != (nfiles, total):
            dis.append('event %d request %d: model has %d entry files / %d bytes, the cache directory %d / %d'
                       % (i, ob['tag'], mn, mt, nfiles, total))
    return dis


def prepare_deps(scratch):
    """Two small rlibs used as --extern inputs, built once with the real rustc (not through sccache)."""
    d = os.path.join(scratch, 'shared')
    os.makedirs(os.path.join(d, 'deps'))
    real = os.path.join(rust_sysroot(), 'bin', 'rustc')
    open(os.path.join(d, 'rustc-path'), 'w').write(real)
    for n in ('d1', 'd2'):
        src = os.path.join(d, n + '.rs')
        open(src, 'w').write('pub fn %s() -> u32 { %d }\n' % (n, len(n)))
        subprocess.run([real, '--crate-name', n, '--crate-type', 'rlib', src, '--out-dir', os.path.join(d, 'deps')],
                       check=True, stdout=subprocess.PIPE, stderr=subprocess.PIPE)
    return d


def run_plans(plans, keep=False):
    """Run all plans against the real binary (16 at a time) and the model; returns per-plan result dicts."""
    sccache = pipeline.repo_bin('sccache')
    base = '/dev/shm' if os.path.isdir('/dev/shm') else '/tmp'
    scratch = os.path.join(base, 'c03-%d-%d' % (os.getpid(), int(time.time())))
    os.makedirs(scratch)
    # a directory on another file system (for the server's TMPDIR / cache directory of some histories)
    other = None
    for cand in ('/tmp', '/var/tmp', '/dev/shm'):
        if os.path.isdir(cand) and os.stat(cand).st_dev != os.stat(scratch).st_dev:
            other = os.path.join(cand, os.path.basename(scratch) + '-otherfs')
            os.makedirs(other)
            break
    Runner.other_root = other
    results = []
    try:
        deps = prepare_deps(scratch)

        def one(ip):
            i, plan = ip
            root = os.path.join(scratch, 'h%d' % i)
            os.makedirs(root)
            t0 = time.time()
            try:
                r = Runner(root, plan, sccache, deps)
                obs, events, saved, viol = r.run()
                err = None
            except Inconclusive as e:
                obs, events, saved, viol, err = [], [], {}, [], None
                return dict(plan=plan, obs=[], events=[], saved={}, viol=[], err=None, wall=time.time() - t0,
                            inconclusive=str(e))
            except Exception:
                import traceback
                obs, events, saved, viol, err = [], [], {}, [], traceback.format_exc()
            finally:
                if not keep:
                    shutil.rmtree(root, ignore_errors=True)
            return dict(plan=plan, obs=obs, events=events, saved=saved, viol=viol, err=err, wall=time.time() - t0)

        with ThreadPoolExecutor(max_workers=pipeline.NPROC) as ex:
            results = list(ex.map(one, enumerate(plans)))
    finally:
        if not keep:
            shutil.rmtree(scratch, ignore_errors=True)
            if other:
                shutil.rmtree(other, ignore_errors=True)
    cases = [sx.dumps([r['plan']['cap'], r['events']]) for r in results]
    model = pipeline.run_sharded([os.path.join(pipeline.BUILD, 'modelrun-' + ID), 'hist'], cases)
    for r, c, m in zip(results, cases, model):
        r['case'] = c
        r['model'] = m
        r['dis'] = compare(r['plan'], r['obs'], r['events'], r['saved'], m) if not r['err'] else ['driver error: ' + r['err'][-800:]]
    return results


def corpus_plans():
    p = os.path.join(pipeline.VERIF, 'corpus', ID, 'hist.jsonl')
    out = []
    if os.path.exists(p):
        for line in open(p):
            line = line.strip()
            if line and not line.startswith('#'):
                out.append(json.loads(line))
    return out


def read_env_list(path):
    import re
    src = open(path).read()
    m = re.search(r'static CACHED_ENV_VARS: Lazy<HashSet<&\'static OsStr>> = Lazy::new\(\|\| \{\s*\[(.*?)\]', src, re.S)
    if not m:
        raise RuntimeError('CACHED_ENV_VARS not recognised in ' + path)
    body = re.sub(r'//[^\n]*', '', m.group(1))
    names = re.findall(r'"([A-Za-z0-9_]+)"', body)
    if not names or re.sub(r'"[A-Za-z0-9_]+"|[\s,]', '', body):
        raise RuntimeError('CACHED_ENV_VARS has an unexpected shape in ' + path)
    return names


def translate(rep):
    """Re-read the allow-lists the generator and the model rely on; fail loudly when they moved."""
    main = read_env_list(os.path.join(pipeline.REPO, 'src', 'compiler', 'c.rs'))
    ppl = read_env_list(os.path.join(pipeline.REPO, 'src', 'compiler', 'preprocessor_cache.rs'))
    bad = [v for v in UNRELATED_VARS if v in main or v in ppl] + [v for v in HASHED_VARS['c'] if v not in main]
    if HASHED_VARS['c'][0] not in ppl:
        bad.append(HASHED_VARS['c'][0] + ' (preprocessor key)')
    rep.oblige('translate:CACHED_ENV_VARS', not bad and set(C_ALLOW) <= set(main) and set(PP_ALLOW) <= set(ppl),
               'c.rs: %s; preprocessor_cache.rs: %s; generator/model expect %s / %s; misclassified: %s'
               % (main, ppl, C_ALLOW, PP_ALLOW, bad))
    rs = open(os.path.join(pipeline.REPO, 'src', 'compiler', 'rust.rs')).read()
    ok = ('var.starts_with("CARGO_")' in rs and 'var == "CARGO_MAKEFLAGS" || var.starts_with("CARGO_REGISTRIES_")' in rs
          and 'sortables.sort();' in rs and 'externs.sort();' in rs and 'env_vars.sort();' in rs)
    rep.oblige('translate:rust-key-shape', ok, 'CARGO_ prefix filter, --cfg sort, externs.sort, env sort '
               + ('found' if ok else 'NOT all found in rust.rs'))


def prebuild(rep):
    ok, out = pipeline.build_repo_bins(REPO_BINS)
    rep.oblige('build:sccache', ok, out[-2000:] if not ok else 'cargo build --offline --bin sccache, --cfg sccache_verif')


def extra(rep, known):
    if not os.path.exists(pipeline.repo_bin('sccache')) or not os.path.exists(os.path.join(pipeline.BUILD, 'modelrun-' + ID)):
        rep.oblige('correspondence:hist', False, 'sccache binary or extracted model missing')
        return
    rng = Rng(rep.seed).fork(ID + ':hist')
    corpus = corpus_plans()
    plans = corpus + gen_plans(rng, rep.tier)
    t0 = time.time()
    results = run_plans(plans)
    ndis = nviol = 0
    info = dict(cases=len(plans), corpus=len(corpus), disagreements=0, violations=0, nontrivial=0, requests=0)
    for r in results:
        plan = r['plan']
        pj = json.dumps(plan, sort_keys=True)
        if r.get('inconclusive'):
            rep.count('history.inconclusive_timing')
            rep.notes.append('history skipped: ' + r['inconclusive'])
            continue
        fam = '%s.pp=%s.%s' % (plan['tool'], 'on' if plan['pp'] else 'off', 'smallcap' if plan['cap'] != HUGE else 'hugecap')
        rep.count('history.' + fam)
        if plan.get('tmp_other_fs') and Runner.other_root:
            rep.count('history.server_tmpdir_on_other_fs')
        if plan.get('cache_other_fs') and Runner.other_root:
            rep.count('history.cache_on_other_fs')
        hits_after_restart = 0
        restarts = 0
        for ob in r['obs']:
            rep.count('event.' + ob['op'])
            if ob['op'] == 'restart':
                restarts += 1
                if ob.get('by'):
                    rep.count('event.restart_by_idle_timeout')
                if ob.get('flattened'):
                    rep.count('event.restart_with_shared_mtimes')
            if ob['op'] == 'compile' and ob['kind'] == 'unsupported':
                rep.count('request.refused_by_transient_probe_failure')
            if ob['op'] == 'compile':
                rep.evaluations += 1
                info['requests'] += 1
                rep.count('outcome.' + ob['kind'])
                if ob['kind'] == 'hit' and restarts:
                    hits_after_restart += 1
                    rep.count('hit_after_restart')
        evicted = any(any(k not in b['entries'] for k in a['entries']) for a, b in zip(r['obs'], r['obs'][1:]))
        if evicted:
            rep.count('history.with_eviction')
        if any(ob['op'] == 'compile' and ob['kind'] == 'hit' for ob in r['obs']):
            if pj not in rep.distinct:
                rep.distinct.add(pj)
                info['nontrivial'] += 1
        for v in r['viol']:
            nviol += 1
            if nviol <= 5:
                rep.violation('property', 'hist', pj, v)
        if r['dis']:
            ndis += 1
            if ndis <= 3 and not r['viol']:
                rep.violation('correspondence', 'hist', pj, 'model and sccache disagree: ' + ' | '.join(r['dis'][:6]))
        if len(rep.samples) < 6:
            rep.samples.append({'leg': 'hist', 'plan': pj[:1500], 'model_case': r['case'][:1500]})
    rep.traces += len(results)
    info['disagreements'] = ndis
    info['violations'] = nviol
    info['wall_s'] = round(time.time() - t0, 1)
    rep.legs['hist'] = info
    rep.rule.append('hist: generated histories of 8-14 compile requests (new unit / repeat with another -o, another unrelated or '
                    'hashed variable, permuted --cfg/--extern/-L, another flag) over the multi-output shapes (rustc --emit in '
                    '{link; dep-info,link; metadata; dep-info,metadata; dep-info,metadata,link}, C: -MD -MF, -gsplit-dwarf, '
                    '--coverage/-ftest-coverage, clang --serialize-diagnostics), every same-name repeat preceded by the deletion of '
                    'a non-empty subset of what the first compile produced, interleaved with edits, deletions, server '
                    'restarts and idle periods, for gcc, clang, rustc x preprocessor-cache mode on/off x huge/small capacity; '
                    'non-trivial = the history contains at least one cache hit; distinct by plan text')
    pipeline.log('leg hist: %d histories, %d requests, %d disagreements, %d violations, %.1fs'
                 % (len(plans), info['requests'], ndis, nviol, time.time() - t0))
    rep.oblige('correspondence:hist', ndis == 0, '%d of %d histories disagree' % (ndis, len(plans)) if ndis else '%d histories agree' % len(plans))


def check(tier, seed, replay=None):
    if replay:
        data = json.load(open(replay))
        items = [data['case']] if 'case' in data else []
        items += [d['case'] for d in data.get('disagreements', [])]
        plans = [json.loads(c) for c in items]
        ok, out = pipeline.build_repo_bins(REPO_BINS)
        bad = not ok
        for r in run_plans(plans):
            print('plan:   ', json.dumps(r['plan'], sort_keys=True))
            print('model:  ', r['model'][:3000])
            print('impl:   ', json.dumps([{k: v for k, v in ob.items() if k in ('op', 'tag', 'kind', 'compiled', 'pre', 'stored', 'rc')}
                                          for ob in r['obs']])[:3000])
            print('monitor:', r['viol'] or 'no property violation')
            print('model/impl:', r['dis'] or 'agree')
            if r['viol'] or r['dis']:
                bad = True
        if bad:
            print('VIOLATION property=%s replay=%s' % (ID, replay))
            return 1
        return 0
    import sys
    return pipeline.standard_check(sys.modules[__name__], tier, seed, None)
