"""C17 — the toolchain cache only ever serves content matching the requested id."""
import itertools
import os
import subprocess

from .. import pipeline, sx
from ..pipeline import Leg

ID = 'C17'
HARNESS_BIN = 'c17'
RUN_MODULE = 'Run.C17'
THEOREMS = ['C17_content_matches', 'C17_serves_the_intended_archive', 'C17_bad_upload_leaves_nothing',
            'C17_crashed_upload_leaves_nothing', 'C17_key_path_total', 'C17_invalid_id_no_effect',
            'C17_client_content_matches', 'C17_failed_rename_leaves_nothing', 'C17_failed_copy_leaves_nothing',
            'C17_crash_in_fallback_copy_leaves_nothing', 'C17_only_digests_are_served', 'C17_remove_is_exact',
            'C17_server_ready_means_present']
ASSUMPTIONS = [
    'the digest (BLAKE3 via util::Digest) is an abstract function; C17_serves_the_intended_archive additionally assumes '
    'it is injective on the contents in play ("no BLAKE3 collision", hypothesis no_collision); the other theorems hold for ANY digest function',
    'the cache directory holds, when first opened, only files that sit at a/b/<digest of their content> (an empty '
    'directory in particular) or temp files; nobody else writes into it',
    'rename(2) of the verified temp file to its final path is atomic WHEN IT SUCCEEDS (LruDiskCache::commit -> '
    'NamedTempFile::persist); that it FAILS (EXDEV / EACCES / ENOSPC) is part of the fault space (TInsertWithXdev, '
    'TInsertFileCopy) and is replayed on the real code by the mount leg; a crash is modelled at the point where the '
    'writer has written its bytes (= any point before the rename)',
    'a process killed in the middle of insert_file\'s fall-back copy (finding C17-K1, fixed by 7ead532) is part of the fault '
    'space: C17_crash_in_fallback_copy_leaves_nothing, replayed by the mount leg (forked child with RLIMIT_FSIZE, killed by SIGXFSZ)',
    'I/O errors other than the writer failing / the file missing / the final rename or its fall-back copy failing are not modelled',
    'id validation (lowercase hex, length >= 2) is Toolchain::archive_id_is_valid, owned by the C19 fix; C17 models the same class',
]
TRUSTED = ['hooks: TcCache::verif_insert_file (the private client-side insert_file), TcCache::verif_inner + '
           'LruDiskCache::verif_index (read-only view of the LRU order)',
           'harness c17: a server crash during an upload is reproduced by copying the cache directory (with mtimes) at the '
           'crash point inside the writer callback and re-opening the copy; the mount leg mounts tmpfs file systems on '
           'shard directories inside its scratch directory in a private mount namespace (unshare(CLONE_NEWNS), always unmounted)']

CAPS = [0, 10, 25, 40, 100]
SIZES = [0, 1, 4, 5, 10, 12, 13, 20, 26]
CONTENTS = [bytes([65 + j]) * n for n in SIZES for j in (0, 1)][1:] + [b'toolchain-archive', b'evil']
UNKNOWN_IDS = [b'00' * 32, b'ab', b'abc', b'0123456789abcdef' * 4]
INVALID_IDS = [b'', b'a', b'\xc3\xa91', b'../x', b'a/b', b'AB12', b'.sccachetmpab', b'zz', b'ab/../cd']

_hash_cache = {}


def real_ids(contents):
    """ids of contents, computed by the REAL code (sccache::util::Digest through `c17 hash`)."""
    need = []
    for c in contents:
        if ckey(c) not in _hash_cache and ckey(c) not in [ckey(x) for x in need]:
            need.append(c)
    if need:
        p = subprocess.run([pipeline.harness_bin(HARNESS_BIN), 'hash'], input=(sx.dumps(need) + '\n').encode(),
                           stdout=subprocess.PIPE, timeout=120)
        ids = sx.loads(p.stdout.decode().strip())
        assert len(ids) == len(need)
        for c, i in zip(need, ids):
            _hash_cache[ckey(c)] = i
    return [_hash_cache[ckey(c)] for c in contents]


def expand(c):
    """a content argument: bytes, or [b'rep', byte, n]"""
    if isinstance(c, (list, tuple)):
        return bytes([c[1]]) * c[2]
    return bytes(c)


def ckey(c):
    return tuple(c) if isinstance(c, (list, tuple)) else bytes(c)


def kp(i):
    return i[0:1] + b'/' + i[1:2] + b'/' + i


def valid(i):
    return len(i) >= 2 and all(c in b'0123456789abcdef' for c in i)


def mk_case(cap, init_contents, ops, extra_ids=()):
    """Fill in the digest table, the id alphabet and the initial directory."""
    contents = [c[1] if isinstance(c, tuple) else c for c in init_contents]
    for op in ops:
        if op[0] in (b'insert_with', b'crash_upload'):
            contents.append(op[2])
        elif op[0] == b'insert_file':
            contents.append(op[1])
    contents = list(dict.fromkeys(contents))
    ids = real_ids(contents)
    table = [[c, i] for c, i in zip(contents, ids)]
    alpha = list(ids) + list(extra_ids)
    for op in ops:
        if op[0] in (b'insert_with', b'crash_upload', b'get', b'contains', b'remove'):
            alpha.append(op[1])
    alpha = sorted(set(alpha))
    init = []
    for n, c in enumerate(init_contents):
        if isinstance(c, tuple):       # explicit (path, content): a temp leftover
            init.append([c[0], c[1], n + 1])
        else:
            init.append([kp(_hash_cache[c]), c, n + 1])
    return [cap, table, alpha, init, ops]


def rebuild(case, cap=None, init=None, ops=None):
    c0, table, alpha, i0, o0 = case
    ops = o0 if ops is None else ops
    init = i0 if init is None else init
    contents = [t[0] for t in table]
    for op in ops:
        if op[0] in (b'insert_with', b'crash_upload'):
            contents.append(op[2])
        elif op[0] == b'insert_file':
            contents.append(op[1])
    contents = list(dict.fromkeys(contents))
    ids = real_ids(contents)
    al = set(alpha) | set(ids)
    for op in ops:
        if op[0] in (b'insert_with', b'crash_upload', b'get', b'contains', b'remove'):
            al.add(op[1])
    return [c0 if cap is None else cap, [[c, i] for c, i in zip(contents, ids)], sorted(al), init, ops]


def gen_random(rng, n, maxlen):
    real_ids(CONTENTS)
    out = []
    for _ in range(n):
        cap = rng.weighted([(25, 5), (40, 4), (100, 3), (10, 1), (0, 1)])
        pool = [rng.choice(CONTENTS) for _ in range(rng.range(2, 5))]
        init = []
        if rng.chance(1, 4):
            for _ in range(rng.range(1, 3)):
                if rng.chance(1, 4):
                    init.append((rng.choice([b'.sccachetmpOLD', b'a/.sccachetmpX']), rng.choice(pool)[:3]))
                else:
                    c = rng.choice(pool)
                    if c not in init:
                        init.append(c)
        ops = []
        for _ in range(rng.range(1, maxlen)):
            kind = rng.weighted([('good', 7), ('mismatch', 4), ('cut', 3), ('crash', 3), ('insert_file', 3), ('get', 6),
                                 ('contains', 1), ('remove', 2), ('reopen', 2), ('invalid', 1), ('near', 3), ('rewind', 2)])
            c = rng.choice(pool)
            i = _hash_cache[c]
            if kind == 'good':
                ops.append([b'insert_with', i, c, 0])
            elif kind == 'near':
                # ids of EVERY length: a stored id with digits appended / dropped / doubled / longer than NAME_MAX
                near = rng.choice([i + b'0', i + b'00', i + b'f', i[:-1], i[:32], i + i, i + b'a' * 200, i[:2]])
                k2 = rng.weighted([('contains', 3), ('get', 4), ('remove', 3), ('insert_with', 2), ('crash_upload', 1)])
                if k2 == 'insert_with':
                    ops.append([b'insert_with', near, c, 0])
                elif k2 == 'crash_upload':
                    ops.append([b'crash_upload', near, c, cap])
                else:
                    ops.append([k2.encode(), near])
            elif kind == 'rewind':
                # a writer that does not leave its cursor at the end (seeks back / positional writes); the declared
                # id is the digest of what lies before the cursor, of the whole content, or of the empty archive
                if len(c) > 0:
                    k = rng.below(len(c))
                    which = rng.weighted([('prefix', 4), ('whole', 2), ('empty', 2)])
                    if which == 'prefix':
                        ops.append([b'insert_with', real_ids([c[:k]])[0], c, 0, len(c) - k])
                    elif which == 'whole':
                        ops.append([b'insert_with', i, c, 0, len(c) - k])
                    else:
                        ops.append([b'insert_with', real_ids([b''])[0], c, 0, len(c)])
                else:
                    ops.append([b'insert_with', i, c, 0])
            elif kind == 'mismatch':
                other = rng.choice(pool + [b'evil'])
                wrong = rng.choice(UNKNOWN_IDS) if (other == c or rng.chance(1, 4)) else i
                ops.append([b'insert_with', wrong, other, 0])
            elif kind == 'cut':
                k = rng.below(len(c) + 1)
                ops.append([b'insert_with', i, c[:k], 1])
            elif kind == 'crash':
                k = len(c) if rng.chance(1, 3) else rng.below(len(c) + 1)
                body = c[:k] if rng.chance(3, 4) else rng.choice(pool)
                ops.append([b'crash_upload', i, body, cap if rng.chance(3, 4) else rng.choice(CAPS)])
            elif kind == 'insert_file':
                ops.append([b'insert_file', c])
            elif kind == 'reopen':
                ops.append([b'reopen', cap if rng.chance(3, 4) else rng.choice(CAPS)])
            elif kind == 'invalid':
                bad = rng.choice(INVALID_IDS)
                k2 = rng.weighted([('insert_with', 3), ('get', 2), ('contains', 1), ('remove', 1), ('crash_upload', 1)])
                if k2 == 'insert_with':
                    ops.append([b'insert_with', bad, c, 0])
                elif k2 == 'crash_upload':
                    ops.append([b'crash_upload', bad, c, cap])
                else:
                    ops.append([k2.encode(), bad])
            else:
                tgt = i if rng.chance(5, 6) else rng.choice(UNKNOWN_IDS)
                ops.append([kind.encode(), tgt])
        if rng.chance(1, 2):
            # final sweep: (restart and) ask for every id that was ever declared
            if rng.chance(1, 3):
                ops.append([b'reopen', cap])
            for tgt in sorted(set(op[1] for op in ops if op[0] in (b'insert_with', b'crash_upload')) |
                              set(_hash_cache[c] for c in pool)):
                ops.append([b'get', tgt])
        out.append(mk_case(cap, init, ops))
    return out


def gen_exhaustive(depth):
    a, b = b'A' * 10, b'B' * 12
    ia, ib = real_ids([a, b])
    alpha = [[b'insert_with', ia, a, 0], [b'insert_with', ia, b, 0], [b'insert_with', ia, a[:4], 1],
             [b'crash_upload', ia, a[:4], 25], [b'crash_upload', ia, b, 25], [b'insert_with', ib, b, 0],
             [b'insert_file', b'C' * 13], [b'get', ia], [b'remove', ia], [b'reopen', 25], [b'insert_with', b'a', a, 0]]
    out = []
    for d in range(1, depth + 1):
        for seq in itertools.product(alpha, repeat=d):
            out.append(mk_case(25, [], [list(o) for o in seq]))
    return out


def monitor(case, out):
    """The property's own predicates, evaluated on the REAL implementation's observations:
    whatever the cache reports present under an id, returns for it, or would index under it after a restart
    (= every entry file on its disk) has content whose REAL digest is that id; a mismatching / invalid upload is
    rejected and leaves neither an index entry nor a file (nor a temp file) behind; nothing panics."""
    cap, table, ids, init, ops = case
    dig = {expand(c): bytes(i) for c, i in table}
    if out == [b'bad_table'] or out == [b'skipped']:
        return []  # table is not the real digest: the correspondence leg reports it / mount namespaces unavailable
    if not isinstance(out, list) or len(out) != len(ops) + 1:
        return ['malformed implementation output']
    vs = []
    prev = None
    for n, obs in enumerate(out):
        op = ops[n - 1] if n > 0 else None
        if obs and obs[0] == b'panic':
            vs.append('op %d %s: the toolchain cache panicked (a build server holds it in a Mutex: poisoned for good)' % (n, op))
            break
        res, ret, touched, present, size, ln, index, files, ntmp = obs
        fmap = {f[0]: f for f in files}
        pres = {p[0]: p[1] for p in present}
        for path, content, mt, d in files:
            if path != kp(d):
                vs.append('op %d %s: file %r holds content whose digest is %r: a (re)started cache serves it under the wrong id'
                          % (n, op, path, d))
        for i, p in present:
            if p == b'panic':
                vs.append('op %d %s: contains_toolchain(%r) panicked' % (n, op, i))
            elif p == 1:
                f = fmap.get(kp(i))
                if f is None:
                    vs.append('op %d %s: id %r reported present but there is no archive for it' % (n, op, i))
                elif f[3] != i:
                    vs.append('op %d %s: id %r reported present but its archive has digest %r' % (n, op, i, f[3]))
        if ntmp != 0:
            vs.append('op %d %s: %d temporary upload file(s) left behind' % (n, op, ntmp))
        if op is not None and op[0] == b'get' and res == b'ok':
            if len(ret) != 2 or ret[1] != op[1]:
                vs.append('op %d get %r: returned content with digest %r' % (n, op[1], ret[1] if len(ret) == 2 else None))
        if op is not None and op[0] == b'remove' and prev is not None:
            # removing an id touches that id only
            ppres = {p[0]: p[1] for p in prev[3]}
            for j, p in present:
                if j != op[1] and ppres.get(j) == 1 and p != 1:
                    vs.append('op %d remove %r: id %r is no longer present' % (n, op[1], j))
            pfd = {f[0]: f[3] for f in prev[7]}
            nfd = {f[0]: f[3] for f in files}
            tgt = kp(op[1]) if len(op[1]) >= 2 else None
            for path in set(pfd) | set(nfd):
                if path != tgt and pfd.get(path) != nfd.get(path):
                    vs.append('op %d remove %r: the archive at %r was removed / changed' % (n, op[1], path))
        if op is not None and op[0] == b'insert_file' and res == b'ok':
            if ret != [dig.get(expand(op[1]))]:
                vs.append('op %d insert_file: returned id %r for content with digest %r' % (n, ret, dig.get(expand(op[1]))))
        if op is not None and op[0] in (b'insert_with', b'crash_upload', b'insert_file', b'crash_insert_file') and prev is not None:
            if op[0] in (b'insert_file', b'crash_insert_file'):
                content = expand(op[1])
                i = dig.get(content, b'')
            else:
                i, content = op[1], expand(op[2])
            bad = dig.get(content) != i or not valid(i)
            if bad and op[0] == b'insert_with' and res == b'ok':
                vs.append('op %d: upload under id %r of content with digest %r was accepted' % (n, i, dig.get(content)))
            # an upload that was not accepted (mismatch, cut short, final rename / copy failed, too large ...)
            # leaves nothing new under the id: no index entry, no file
            unfinished = (op[0] == b'crash_insert_file' and ret != [b'done']) or \
                (op[0] in (b'insert_with', b'insert_file') and res != b'ok')
            if bad or unfinished:
                why = 'rejected' if bad else ('killed/failed' if op[0] == b'crash_insert_file' else 'failed (%s)' % res.decode())
                ppres = {p[0]: p[1] for p in prev[3]}
                pf = {f[0]: f for f in prev[7]}
                if pres.get(i) == 1 and ppres.get(i) != 1:
                    vs.append('op %d: %s upload left id %r present' % (n, why, i))
                if len(i) >= 2:
                    f = fmap.get(kp(i))
                    if f is not None and (pf.get(kp(i)) is None or pf[kp(i)][3] != f[3]):
                        vs.append('op %d: %s upload left a file under id %r (%s bytes)' % (n, why, i, f[1] if isinstance(f[1], int) else len(f[1])))
        prev = obs
    return vs


def nontrivial(case, out):
    # non-trivial: at least one upload was rejected / crashed, or an eviction happened
    try:
        prevn = None
        for op, obs in zip([None] + case[4], out):
            if obs[0] in (b'panic', b'rejected', b'io_err', b'too_large'):
                return True
            if op is not None and op[0] == b'crash_upload':
                return True
            if prevn is not None and obs[5] < prevn and op[0] != b'remove':
                return True
            prevn = obs[5]
    except Exception:
        return True
    return False


def stats(case, out):
    ks = ['cap=%d' % case[0], 'len=%d' % min(len(case[4]), 30), 'init=%d' % len(case[3])]
    dig = {expand(c): bytes(i) for c, i in case[1]}
    for op in case[4]:
        t = op[0].decode()
        if op[0] in (b'insert_with', b'crash_upload'):
            if not valid(op[1]):
                t += ':invalid_id'
            elif op[0] == b'insert_with' and op[3]:
                t += ':cut'
            elif dig.get(expand(op[2])) != op[1]:
                t += ':mismatch'
            else:
                t += ':match'
            if op[0] == b'insert_with' and len(op) > 4:
                t += ':rewind'
        if op[0] in (b'get', b'contains', b'remove', b'insert_with', b'crash_upload') and valid(op[1]) and len(op[1]) != 64:
            t += ':idlen<64' if len(op[1]) < 64 else (':idlen>255' if len(op[1]) > 255 else ':idlen>64')
        ks.append('op=' + t)
    try:
        for obs in out:
            ks.append('res=' + obs[0].decode())
    except Exception:
        pass
    return ks


def shrink(case):
    cap, table, ids, init, ops = case
    for i in range(len(ops)):
        yield rebuild(case, ops=ops[:i] + ops[i + 1:])
    for i in range(len(init)):
        yield rebuild(case, init=init[:i] + init[i + 1:])


def neighbours(case):
    cap, table, ids, init, ops = case
    # "also across Reopen": a restart after every prefix
    for i in range(1, len(ops) + 1):
        yield rebuild(case, ops=ops[:i] + [[b'reopen', cap]] + ops[i:])
    for i in range(1, len(ops)):
        yield rebuild(case, ops=ops[i:] + ops[:i])
    for i, op in enumerate(ops):
        if op[0] == b'insert_with':
            yield rebuild(case, ops=ops[:i] + [[b'insert_with', op[1], op[2], 1 - op[3]]] + ops[i + 1:])
            yield rebuild(case, ops=ops[:i] + [[b'crash_upload', op[1], op[2], cap]] + ops[i + 1:])
            for c, d in table:
                yield rebuild(case, ops=ops[:i] + [[b'insert_with', op[1], c, op[3]]] + ops[i + 1:])
            yield rebuild(case, ops=ops[:i + 1] + [[b'get', op[1]]] + ops[i + 1:])
        if op[0] == b'crash_upload':
            yield rebuild(case, ops=ops[:i + 1] + [[b'get', op[1]]] + ops[i + 1:])


# ---------------------------------------------------------------- shard directories that are mount points

_mount_state = {}


def mount_ok():
    """can the harness enter a private mount namespace and mount a tmpfs? (root; otherwise the leg is skipped)"""
    if 'ok' not in _mount_state:
        try:
            p = subprocess.run([pipeline.harness_bin(HARNESS_BIN), 'mountcheck'], stdout=subprocess.PIPE, timeout=60)
            _mount_state['ok'] = p.stdout.decode().strip() == '1'
        except Exception:
            _mount_state['ok'] = False
    return _mount_state['ok']


MSIZES = [10, 100, 4096, 4097, 5000, 8192, 9000]
MCONTENTS = [[b'rep', 65 + j, n] for n in MSIZES for j in (0, 1)]
MCAPS = [100000, 20000, 12000, 9000]


def mk_mount(cap, mounts, ops):
    contents = []
    for op in ops:
        if op[0] in (b'insert_with', b'crash_upload'):
            contents.append(op[2])
        elif op[0] in (b'insert_file', b'crash_insert_file'):
            contents.append(op[1])
    seen = []
    for c in contents:
        if ckey(c) not in [ckey(x) for x in seen]:
            seen.append(c)
    ids = real_ids(seen)
    alpha = set(ids)
    for op in ops:
        if op[0] in (b'insert_with', b'crash_upload', b'get', b'contains', b'remove'):
            alpha.add(op[1])
    return [cap, [[c, i] for c, i in zip(seen, ids)], sorted(alpha), mounts, ops]


def gen_mount(rng, n, maxlen):
    if not mount_ok():
        return []
    real_ids(MCONTENTS)
    out = []
    for _ in range(n):
        cap = rng.weighted([(100000, 5), (20000, 3), (12000, 2), (9000, 1)])
        pool = [rng.choice(MCONTENTS) for _ in range(rng.range(2, 5))]
        pid = [_hash_cache[ckey(c)] for c in pool]
        # one or two shard directories on a file system of their own: a/b/ or the whole a/
        mounts = []
        for i in rng.shuffle(sorted(set(pid)))[:rng.range(1, 2)]:
            pre = kp(i)[:4] if rng.chance(2, 3) else kp(i)[:2]
            if not any(m[0].startswith(pre[:2]) for m in mounts):
                mounts.append([pre, rng.weighted([(1, 3), (2, 3), (3, 1)])])
        ops = []
        for _ in range(rng.range(1, maxlen)):
            kind = rng.weighted([('good', 8), ('mismatch', 2), ('cut', 1), ('crash', 2), ('insert_file', 6), ('get', 5),
                                 ('contains', 1), ('remove', 2), ('reopen', 3), ('crash_file', 3)])
            j = rng.below(len(pool))
            c, i = pool[j], pid[j]
            if kind == 'good':
                ops.append([b'insert_with', i, c, 0])
            elif kind == 'mismatch':
                ops.append([b'insert_with', i, [b'rep', 90, c[2]], 0])
            elif kind == 'cut':
                ops.append([b'insert_with', i, [b'rep', c[1], rng.below(c[2] + 1)], 1])
            elif kind == 'crash':
                ops.append([b'crash_upload', i, [b'rep', c[1], c[2] if rng.chance(1, 2) else rng.below(c[2] + 1)], cap])
            elif kind == 'insert_file':
                ops.append([b'insert_file', c])
            elif kind == 'crash_file':
                # the client is killed while insert_file (its fall-back copy, in a mounted shard) has written k bytes
                ops.append([b'crash_insert_file', c, rng.below(c[2] + 1) if rng.chance(3, 4) else c[2] + 1, cap])
            elif kind == 'reopen':
                ops.append([b'reopen', cap if rng.chance(3, 4) else rng.choice(MCAPS)])
            else:
                ops.append([kind.encode(), i])
        # the fault only shows after a restart: always end with one, then ask for every id
        ops.append([b'reopen', cap])
        for i in sorted(set(pid)):
            ops.append([b'get', i])
        out.append(mk_mount(cap, mounts, ops))
    return out


def shrink_mount(case):
    cap, table, ids, mounts, ops = case
    for i in range(len(ops)):
        yield mk_mount(cap, mounts, ops[:i] + ops[i + 1:])
    for i in range(len(mounts)):
        yield mk_mount(cap, mounts[:i] + mounts[i + 1:], ops)


def neighbours_mount(case):
    cap, table, ids, mounts, ops = case
    for i in range(1, len(ops) + 1):
        yield mk_mount(cap, mounts, ops[:i] + [[b'reopen', cap]] + ops[i:])
    for pg in (1, 2, 3):
        yield mk_mount(cap, [[m[0], pg] for m in mounts], ops)
    for i, op in enumerate(ops):
        if op[0] == b'insert_with':
            for c in MCONTENTS:
                if _hash_cache.get(ckey(c)) == op[1]:
                    yield mk_mount(cap, mounts, ops[:i] + [[b'insert_file', c]] + ops[i + 1:])
            yield mk_mount(cap, mounts, ops[:i + 1] + [[b'reopen', cap], [b'get', op[1]]] + ops[i + 1:])


def under_mount(case, i):
    return len(i) >= 2 and any(kp(i).startswith(m[0]) for m in case[3])


def nontrivial_mount(case, out):
    # non-trivial: an upload into a mounted shard met the failing rename (or its fall-back copy)
    try:
        dig = {expand(c): bytes(i) for c, i in case[1]}
        for op, obs in zip(case[4], out[1:]):
            if op[0] == b'insert_with' and not op[3] and under_mount(case, op[1]) and dig.get(expand(op[2])) == op[1]:
                return True
            if op[0] in (b'insert_file', b'crash_insert_file') and under_mount(case, dig.get(expand(op[1]), b'')):
                return True
    except Exception:
        return True
    return False


def stats_mount(case, out):
    ks = ['cap=%d' % case[0], 'mounts=%d' % len(case[3])] + ['pages=%d' % m[1] for m in case[3]]
    try:
        dig = {expand(c): bytes(i) for c, i in case[1]}
        for op, obs in zip(case[4], out[1:]):
            t = op[0].decode()
            if op[0] in (b'insert_with', b'crash_upload'):
                t += ':mounted' if under_mount(case, op[1]) else ':plain'
            elif op[0] in (b'insert_file', b'crash_insert_file'):
                t += ':mounted' if under_mount(case, dig.get(expand(op[1]), b'')) else ':plain'
            if op[0] == b'crash_insert_file' and obs[1]:
                t += ':' + obs[1][0].decode()
            ks.append('op=' + t + '->' + obs[0].decode())
    except Exception:
        pass
    return ks


def extra(rep, known):
    if server_ok():
        rep.notes.append('server leg: sccache-dist hook leg `tc` present; the real Server was driven')
    else:
        rep.notes.append('server leg SKIPPED: the tree under test has no `sccache-dist __verif_paths tc` leg (hook patch '
                         '/tmp/strengthen/C17-hook.diff not merged) or sccache-dist did not build; the server-level statement '
                         'C17_server_ready_means_present is then covered by the theorem and the model only')
    if mount_ok():
        rep.notes.append('mount leg: private mount namespace + tmpfs available; failing-rename cases were run on the real code')
    else:
        rep.notes.append('mount leg SKIPPED: unshare(CLONE_NEWNS)/mount(tmpfs) not permitted here; the failing final rename '
                         'is then covered by the theorems and the model only, not replayed on the real code')


# ---------------------------------------------------------------- the build server in front of the cache

_server_state = {}


def server_hook_in_source():
    """does the sccache-dist hook of the tree under test have the `tc` leg? (feature detection: the leg is skipped,
    with a note in the evidence, on a tree without it)"""
    try:
        src = open(os.path.join(pipeline.REPO, 'src/bin/sccache-dist/verif_paths.rs'), encoding='utf-8', errors='replace').read()
        return '"tc_probe"' in src
    except OSError:
        return False


def prebuild(rep):
    if not server_hook_in_source():
        _server_state['ok'] = False
        # a sccache-dist binary left in the build directory by another tree must not be used
        os.environ['VERIF_C17_DIST_DISABLED'] = '1'
        return
    os.environ.pop('VERIF_C17_DIST_DISABLED', None)
    ok, out = pipeline.build_repo_bins(['sccache-dist'], features='dist-server')
    rep.oblige('build:sccache-dist', ok, out[-2000:] if not ok else 'cargo build --offline --features dist-server, --cfg sccache_verif')
    _server_state['ok'] = ok


def server_ok():
    return bool(_server_state.get('ok'))


def server_env():
    return {'VERIF_C17_DIST': pipeline.repo_bin('sccache-dist')}


SCONTENTS = [bytes([65 + j]) * n for n in (1, 5, 10, 12, 13, 20, 26) for j in (0, 1)] + [b'not a tar.gz']


def mk_server(cap, ops):
    contents = list(dict.fromkeys(op[2] for op in ops if op[0] in (b'submit', b'stall')))
    ids = real_ids(contents)
    alpha = set(ids) | set(op[1] for op in ops if op[0] == b'assign')
    return [cap, [[c, i] for c, i in zip(contents, ids)], sorted(alpha), ops]


def gen_server(rng, n, maxlen):
    if not server_ok():
        return []
    real_ids(SCONTENTS)
    out = []
    for _ in range(n):
        cap = rng.weighted([(25, 4), (40, 4), (100, 3), (10, 1)])
        pool = [rng.choice(SCONTENTS) for _ in range(rng.range(2, 3))]
        pid = [_hash_cache[c] for c in pool]
        ops = []
        njob = 0
        last = {}          # id -> the latest job assigned for it
        if rng.chance(1, 2):
            # the history the answers must survive: an archive is uploaded, found un-unpackable by a job and thrown
            # out of the cache; then the question is asked again while another upload holds the cache
            k, j = pid[0], pid[-1]
            ops += [[b'assign', k], [b'submit', 1, pool[0]], [b'assign', k], [b'run', 2], [b'assign', j],
                    [b'stall', 3, pool[-1], rng.below(len(pool[-1]) + 1)], [b'assign', k]]
            njob = 4
            last = {k: 4, j: 3}
        for _ in range(rng.range(1, maxlen)):
            kind = rng.weighted([('assign', 6), ('submit', 5), ('run', 4), ('stall', 3), ('release', 3)])
            x = rng.below(len(pool))
            c, i = pool[x], pid[x]
            if kind == 'assign':
                tgt = i if rng.chance(5, 6) else rng.choice([i + b'0', i[:-1], b'ab', b'', b'../x'])
                ops.append([b'assign', tgt])
                njob += 1
                if valid(tgt):
                    last[tgt] = njob
            elif kind in ('submit', 'stall'):
                job = last.get(i, njob) if rng.chance(5, 6) else rng.range(0, njob + 1)
                body = c if rng.chance(4, 5) else rng.choice(pool)
                if kind == 'submit':
                    ops.append([b'submit', job, body])
                else:
                    ops.append([b'stall', job, body, rng.below(len(body) + 1)])
            elif kind == 'run':
                ops.append([b'run', last.get(i, njob) if rng.chance(5, 6) else rng.range(0, njob + 1)])
            else:
                ops.append([b'release'])
        ops.append([b'release'])
        for i in sorted(set(pid)):
            ops.append([b'assign', i])
        out.append(mk_server(cap, ops))
    return out


def monitor_server(case, out):
    """The server's answers, on the REAL Server: whenever it says it does not need a toolchain (need_toolchain=false,
    at once or after having waited for an upload), an archive with that id and that digest is in its cache directory
    at that moment; every archive in the cache sits under its digest; nothing panics or hangs."""
    cap, table, ids, ops = case
    if out in ([b'skipped'], [b'bad_table']) or (out and out[0] == b'env_unsupported'):
        return []
    if not isinstance(out, list) or len(out) != len(ops):
        return ['malformed implementation output']
    vs = []
    waiting = []
    stalled = False
    for n, (op, obs) in enumerate(zip(ops, out)):
        res, answers, present, files, ntmp = obs
        fmap = {f[0]: f[1] for f in files}
        if res in (b'panic', b'hung') or b'hung' in answers or b'panic' in answers:
            vs.append('op %d %s: the server %s' % (n, op, res.decode()))
        for path, d in files:
            if path != kp(d):
                vs.append('op %d %s: file %r holds content whose digest is %r' % (n, op, path, d))
        if res == b'stalled':
            stalled = True

        def has(i):
            return len(i) >= 2 and fmap.get(kp(i)) == i
        if op[0] == b'assign':
            if res == b'blocked':
                waiting.append(op[1])
            elif res == b'ready' and not has(op[1]):
                vs.append('op %d: the server answered need_toolchain=false for id %r%s, but its toolchain cache holds '
                          'no archive with that digest under the id' % (n, op[1], ' while an upload held the cache' if stalled else ''))
        if op[0] == b'release' and res != b'idle':
            stalled = False
            for i, a in zip(waiting, answers):
                if a == b'ready' and not has(i):
                    vs.append('op %d: the assignment for id %r that waited for the upload was answered need_toolchain=false, '
                              'but the cache holds no archive with that digest under the id' % (n, i))
            waiting = []
        for i, p in present:
            if p == 1 and not has(i):
                vs.append('op %d %s: id %r reported present but no archive with that digest is under it' % (n, op, i))
        if ntmp != (1 if stalled else 0):
            vs.append('op %d %s: %d temporary upload file(s) in the cache' % (n, op, ntmp))
    return vs


def shrink_server(case):
    cap, table, ids, ops = case
    for i in range(len(ops)):
        yield mk_server(cap, ops[:i] + ops[i + 1:])


def stats_server(case, out):
    ks = ['cap=%d' % case[0]]
    try:
        for op, obs in zip(case[3], out):
            ks.append('op=' + op[0].decode() + '->' + obs[0].decode())
            for a in obs[1]:
                ks.append('waited=' + a.decode())
    except Exception:
        pass
    return ks


def nontrivial_server(case, out):
    try:
        return any(o[0] in (b'blocked', b'failed', b'cannot_cache') or o[1] for o in out)
    except Exception:
        return True


# ---------------------------------------------------------------- the client side (ClientToolchains)

WEAK = [b'w1', b'w2', b'w3', b'w4']


def mk_client(cap, ops):
    contents = list(dict.fromkeys(op[2] for op in ops if op[0] == b'put'))
    ids = real_ids(contents)
    return [cap, [[c, i] for c, i in zip(contents, ids)], ops]


def gen_client(rng, n, maxlen):
    real_ids(CONTENTS)
    out = []
    for _ in range(n):
        cap = rng.weighted([(25, 5), (40, 4), (100, 3), (10, 1), (0, 1)])
        pool = [rng.choice(CONTENTS) for _ in range(rng.range(2, 5))]
        ops = []
        for _ in range(rng.range(1, maxlen)):
            kind = rng.weighted([('put', 8), ('get', 8), ('reopen', 2)])
            c = rng.choice(pool)
            if kind == 'put':
                ops.append([b'put', rng.choice(WEAK), c, 1 if rng.chance(1, 6) else 0])
            elif kind == 'get':
                ops.append([b'get', _hash_cache[c] if rng.chance(7, 8) else rng.choice(UNKNOWN_IDS + INVALID_IDS)])
            else:
                ops.append([b'reopen', cap if rng.chance(3, 4) else rng.choice(CAPS)])
        out.append(mk_client(cap, ops))
    return out


def monitor_client(case, out):
    """Client side: whatever get_toolchain returns for an id hashes to that id; every archive in the client's cache
    sits under the digest of its content; put_toolchain answers with the digest of what it packaged (or with the id
    recorded earlier for that weak key); nothing is left in toolchain_tmp; nothing panics."""
    cap, table, ops = case
    dig = {bytes(c): bytes(i) for c, i in table}
    if out == [b'bad_table']:
        return []
    if not isinstance(out, list) or len(out) != len(ops) + 1:
        return ['malformed implementation output']
    vs = []
    weak = {}
    for n, obs in enumerate(out):
        op = ops[n - 1] if n > 0 else None
        if obs and obs[0] == b'panic':
            vs.append('op %d %s: the client toolchain store panicked' % (n, op))
            break
        res, ret, touched, files, ntmp = obs
        for path, content, mt, d in files:
            if path != kp(d):
                vs.append('op %d %s: file %r holds content whose digest is %r' % (n, op, path, d))
        if ntmp != 0:
            vs.append('op %d %s: %d temporary file(s) left behind' % (n, op, ntmp))
        if op is not None and op[0] == b'get' and res == b'ok':
            if len(ret) != 2 or ret[1] != op[1]:
                vs.append('op %d get %r: returned content with digest %r' % (n, op[1], ret[1] if len(ret) == 2 else None))
        if op is not None and op[0] == b'put' and res == b'ok':
            w, c = op[1], op[2]
            if w in weak:
                if ret != [weak[w]]:
                    vs.append('op %d put: weak key %r answered %r, recorded %r' % (n, w, ret, weak[w]))
            else:
                if ret != [dig.get(c)]:
                    vs.append('op %d put: packaged content with digest %r stored as %r' % (n, dig.get(c), ret))
                if op[3]:
                    vs.append('op %d put: a failed packaging was stored' % n)
                weak[w] = ret[0] if ret else None
    return vs


def shrink_client(case):
    cap, table, ops = case
    for i in range(len(ops)):
        yield mk_client(cap, ops[:i] + ops[i + 1:])


def neighbours_client(case):
    cap, table, ops = case
    for i in range(1, len(ops) + 1):
        yield mk_client(cap, ops[:i] + [[b'reopen', cap]] + ops[i:])
    for i, op in enumerate(ops):
        if op[0] == b'put':
            yield mk_client(cap, ops[:i + 1] + [[b'get', _hash_cache.get(op[2], b'ab')]] + ops[i + 1:])


def stats_client(case, out):
    ks = ['cap=%d' % case[0]]
    for op in case[2]:
        ks.append('op=' + op[0].decode() + (':fail' if op[0] == b'put' and op[3] else ''))
    try:
        for obs in out:
            ks.append('res=' + obs[0].decode())
    except Exception:
        pass
    return ks


def legs(tier):
    def gen(rng, tier):
        if tier == 'thorough':
            return gen_exhaustive(4) + gen_random(rng, 40000, 25)
        return gen_exhaustive(3) + gen_random(rng, 2500, 25)
    return [Leg('tccache', gen, monitor=monitor, nontrivial=nontrivial, shrink=shrink, neighbours=neighbours, stats=stats,
                rule='exhaustive op sequences over an 11-op alphabet (depth 3 quick / 4 thorough) + PRNG sequences of '
                     'length<=25: uploads with matching / non-matching / unknown / invalid declared ids, uploads cut short '
                     '(writer error) and cut by a server crash + restart, insert_file, get, contains, remove, reopen over '
                     '19 contents x 5 capacities, incl. pre-populated directories with temp leftovers; ids are real BLAKE3 '
                     'ids computed by the code under test; non-trivial = some upload rejected / crashed or an eviction; '
                     'distinct by full case text'),
            Leg('mount', lambda rng, tier: gen_mount(rng, 4000 if tier == 'thorough' else 400, 14),
                monitor=monitor, shrink=shrink_mount, neighbours=neighbours_mount, stats=stats_mount,
                nontrivial=nontrivial_mount, compare=lambda m, i: i.strip() == '(skipped)' or m == i,
                rule='shard directories of the cache that are mount points of their own (tmpfs of 1-3 pages mounted in a '
                     'private mount namespace of the harness): the final rename of a verified upload fails (EXDEV), '
                     'insert_file falls back to a copy that fits, hits ENOSPC part-way, or is cut by a kill of the process (forked child '
                     'with RLIMIT_FSIZE) followed by a restart; PRNG sequences of length<=14 + '
                     'restart + get of every id, 14 contents of 10..9000 bytes, 4 capacities; non-trivial = a matching '
                     'upload / insert_file went into a mounted shard; skipped (noted in the evidence) without CAP_SYS_ADMIN'),
            Leg('server', lambda rng, tier: gen_server(rng, 2500 if tier == 'thorough' else 250, 10),
                monitor=monitor_server, shrink=shrink_server, stats=stats_server, nontrivial=nontrivial_server,
                impl_env=server_env(), compare=lambda m, i: i.strip() == '(skipped)' or m == i,
                rule='the real `Server` of the sccache-dist binary (hook leg tc: real TcCache, real OverlayBuilder) asked whether '
                     'it needs a toolchain while archives are uploaded (also by an upload stalled mid-body that holds the cache), '
                     'rejected, evicted, and thrown out again by a job that cannot unpack them; PRNG sequences of <=10 ops '
                     'after a fixed prelude in half the cases, 15 contents, 4 capacities; non-trivial = an assignment had to '
                     'wait, a job failed or an upload was refused; skipped (noted) when the tree has no tc leg'),
            Leg('client', lambda rng, tier: gen_client(rng, 20000 if tier == 'thorough' else 1500, 25),
                monitor=monitor_client, shrink=shrink_client, neighbours=neighbours_client, stats=stats_client,
                nontrivial=lambda case, out: any(o and o[0] in (b'too_large', b'rejected', b'not_in_cache', b'panic') for o in out),
                rule='PRNG sequences of length<=25 of put_toolchain (4 weak keys, 19 contents, packaging failures), '
                     'get_toolchain (known / unknown / invalid ids) and restarts over 5 capacities on the real '
                     'ClientToolchains; non-trivial = some put refused / failed or some lookup missed')]
