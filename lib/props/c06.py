"""C06 — disk cache entries appear atomically and survive crashes intact.

The real DiskCache — BOTH of its stores: the result store (put / get) and the nested preprocessor-entry store
over <root>/preprocessor (put_preprocessor_cache_entry / get_preprocessor_cache_entry) — is stepped through
explicit interleavings (result store: hook H2 sync points; nested store: before the call and at its first
write(2) to its temp file, interposed in the harness binary), the server is then "killed" (calls in flight
never resume) and a fresh DiskCache is opened on the directory.  Every distinct prefix of every interleaving
of the listed call sets is a case, so every crash point of every interleaving is covered.  After the run and
after the restart the observation covers the WHOLE tree: lookups in both stores, temp files anywhere under the
root, current_size, and what each of the two stores indexes (hook DiskCache::verif_indexes).
"""
from .. import pipeline, sx
from ..pipeline import Leg

ID = 'C06'
HARNESS_BIN = 'c06'
RUN_MODULE = 'Run.C06'
THEOREMS = ['C06_get_complete', 'C06_no_errors', 'C06_crash_safe', 'C06_crash_then_get',
            'C06_uncommitted_invisible', 'C06_lookup_visible', 'C06_hex_keys_not_temp',
            'C06_crash_safe_tree', 'C06_crash_leaves_temps', 'C06_tree_refines_main',
            'C06_indexed_is_served', 'C06_split_lookup_refuted', 'C06_restart_indexes_all']
ASSUMPTIONS = [
    'atomic steps are the lock sections of DiskCache::put/get (Reserve, each chunk of the unlocked write, Commit or '
    'Abandon; Open, Read); rename(2) switches a directory entry atomically and an open descriptor keeps reading the '
    'inode it was opened on (POSIX; validated by the stepped runs of the real code)',
    'the server dies, the machine does not: there is no fsync in the code, so after a power loss a renamed entry may be '
    'empty — not modelled, the property speaks of the server dying',
    'key paths never collide with temp-file names: make_key_path of a hex key never has a file name starting with '
    'TEMPFILE_PREFIX (proved: C06_hex_keys_not_temp), so temp files live in their own name space in the model',
    'the only injected I/O failure is a failing write_all (EFBIG via RLIMIT_FSIZE, exercising the Abandon path); '
    'LruDiskCache::new failing (cache root not creatable) and failing flush/metadata/rename are not modelled',
    'a crash in the middle of the unlocked write is imitated by the harness writing that prefix of the entry into the '
    'call\'s temp file (the real write_all cannot be parked half way); recovery never looks at temp file contents',
    'restart uses LruDiskCache::new on the surviving directory; file mtimes are assumed distinct and not in the future '
    '(Lru dir_ok) for the no-error and size statements',
    'two stores, one tree (Model/DiskTree.v): C06_crash_safe_tree (no temp-named file left anywhere, none indexed '
    'or counted by either store after a restart, for every schedule of calls on both stores and every crash point) '
    'is proved for the two-store model; the atomicity theorems (C06_get_complete, C06_no_errors, '
    'C06_uncommitted_invisible, C06_crash_safe, C06_crash_then_get) are proved for the result store with no '
    'nested-store call in flight (C06_tree_refines_main: that world is the tree model step for step); content '
    'integrity of nested-store lookups under interleavings is covered by the stepped differential runs only',
    'the result store is opened lazily by its first request and scans the whole tree: a nested put in flight at '
    'that moment loses its temp file and then fails (modelled; nothing partial becomes visible); after a restart '
    'the result store indexes and may evict the nested store\'s entry files (S18, existing behaviour, modelled)',
    'the one injected rename failure is a shard directory <root>/x/y on another file system (a tiny tmpfs mounted in a '
    'private mount namespace; cases are skipped, and counted as such, where mounting is impossible): commit must fail '
    'cleanly (error, temp dropped, nothing at the final path, reservation released)',
    'lock scope: the model takes the index look-up + utimes + open of a lookup, and the index removal + unlink of an '
    'eviction, as single atomic steps (C06_no_errors / C06_indexed_is_served rest on it, C06_split_lookup_refuted shows '
    'it is needed); the harness probes it on the real code: a call is parked at its utimensat / unlink of an entry file '
    'and the next steps of the schedule are attempted inside that window (250 ms; on the unchanged tree they wait for '
    'the lock, so the outcome is that of the plain schedule — a slow machine can only make a probe miss, never fail)',
    'the name of the cache directory and dot-names inside the tree are part of the case space (roots .sccache / .c / '
    '..cache, leftover temp files and other files in hidden directories); in the model every path is relative to the '
    'cache root and init walks everything below it',
    'no other process touches the cache directory',
]
TRUSTED = ['hook H2: verif_hooks::sync at put.before_reserve / put.reserved / put.written / put.committed / '
           'get.before_lock / get.opened in src/cache/disk.rs (no-ops unless a controller is installed)',
           'hook DiskCache::verif_indexes (read-only view of what the two stores index)',
           'the harness binary defines `write`, `utimensat` and `unlink` (the plain system calls, plus a park of a nested-store put before '
           'its first write to its temp file); file mtimes of touched entry files are rewritten to a logical clock '
           'after every step (as in C07)']

K1, K2, K3 = b'a1b2c3', b'0f0e0d', b'a1ffee'
P1, P2 = b'abcdef', b'ab0123'          # keys of the nested (preprocessor-entry) store: preprocessor/a/b/c/abcdef ...
PAYLOADS = {'A': (1, 100), 'B': (2, 200), 'C': (3, 50), 'D': (4, 300), 'E': (5, 0)}
PP_PAYLOADS = {'p': (11, 20), 'q': (12, 40), 'r': (13, 90)}
_ELEN = {}


def elens():
    """real entry lengths of the payloads, from the harness (CacheWrite::finish().len() / serialize_to)"""
    if not _ELEN:
        names = sorted(PAYLOADS)
        pnames = sorted(PP_PAYLOADS)
        lines = [sx.dumps(list(PAYLOADS[n])) for n in names] + [sx.dumps([b'pp'] + list(PP_PAYLOADS[n])) for n in pnames]
        out = pipeline.run_sharded([pipeline.harness_bin(HARNESS_BIN), 'size'], lines, shards=1)
        for n, o in zip(names + pnames, out):
            _ELEN[n] = int(o)
    return _ELEN


def put(key, name, chunks=1, fail=0):
    pid, plen = PAYLOADS[name]
    return [b'put', key, pid, plen, elens()[name], chunks, fail]


def get(key):
    return [b'get', key]


def pp_put(key, name, chunks=1):
    pid, plen = PP_PAYLOADS[name]
    return [b'pp_put', key, pid, plen, elens()[name], chunks]


def pp_get(key):
    return [b'pp_get', key]


def ini(key, name, mtime):
    pid, plen = PAYLOADS[name]
    return [b'main', key, pid, plen, elens()[name], mtime]


def pp_ini(key, name, mtime):
    pid, plen = PP_PAYLOADS[name]
    return [b'pp', key, pid, plen, elens()[name], mtime]


def raw(path, name, mtime):
    """any other file in the tree (leftover temp files at any depth); the content is that of a result entry"""
    pid, plen = PAYLOADS[name]
    return [b'raw', path, pid, plen, elens()[name], mtime]


def is_put(t):
    return t[0] in (b'put', b'pp_put')


def is_pp(t):
    return t[0] in (b'pp_put', b'pp_get')


def nsteps(th):
    return th[5] + 2 if is_put(th) else 2


def prefixes(threads):
    """every distinct prefix of every interleaving (each is one crash point of one schedule)"""
    lim = [nsteps(t) for t in threads]
    out = []

    def rec(cnt, cur):
        out.append(list(cur))
        for i in range(len(lim)):
            if cnt[i] < lim[i]:
                cnt[i] += 1
                cur.append(i)
                rec(cnt, cur)
                cur.pop()
                cnt[i] -= 1
    rec([0] * len(lim), [])
    return out


def shapes(tier):
    e = elens()
    big = 100000
    sh = []
    # name, cap, init, threads
    sh.append(('put/put same key', big, [], [put(K1, 'A'), put(K1, 'B')]))
    sh.append(('put/put same key over an old entry', big, [ini(K1, 'C', 5)], [put(K1, 'A', 2), put(K1, 'B')]))
    sh.append(('put/get same key', big, [], [put(K1, 'A', 2), get(K1)]))
    sh.append(('put/get same key over an old entry', big, [ini(K1, 'C', 5)], [put(K1, 'A', 2), get(K1)]))
    sh.append(('put/put two keys, room for one', e['A'] + e['B'] - 1, [], [put(K1, 'A'), put(K2, 'B')]))
    sh.append(('put/put two keys, room for the larger only', e['B'], [], [put(K1, 'A'), put(K2, 'B')]))
    sh.append(('put/put two keys, old entries evicted', e['A'] + e['B'] + 10, [ini(K3, 'C', 5), ini(K2, 'D', 6)],
               [put(K1, 'A'), put(K2, 'B')]))
    sh.append(('put/put same directory', big, [], [put(K1, 'A'), put(K3, 'B', 2)]))
    sh.append(('get/get', big, [ini(K1, 'C', 5), ini(K2, 'D', 6)], [get(K1), get(K1)]))
    sh.append(('put evicts what a get holds open', e['A'] + e['C'] - 1, [ini(K2, 'C', 5)], [put(K1, 'A'), get(K2)]))
    sh.append(('put same key evicts itself', e['A'] + e['C'] - 1, [ini(K1, 'C', 5)], [put(K1, 'A', 2), get(K1)]))
    sh.append(('leftover temp files', big,
               [ini(K1, 'C', 5), raw(b'.sccachetmpOLD', 'A', 7), raw(b'.sccachetmpX2', 'E', 3),
                raw(b'a/1/.sccachetmpDEEP', 'C', 4), raw(b'preprocessor/.sccachetmpPP', 'C', 6),
                raw(b'preprocessor/a/b/.sccachetmpPPD', 'E', 8)],
               [put(K1, 'A'), get(K1)]))
    sh.append(('leftover temp files larger than the free space', e['C'] + e['A'] + 20,
               [ini(K1, 'C', 5), ini(K2, 'A', 6), raw(b'.sccachetmpBIG', 'D', 7), raw(b'preprocessor/.sccachetmpPB', 'B', 4)],
               [get(K1), get(K2)]))
    sh.append(('nested put dies mid-write in a nearly full cache', e['C'] + e['q'] + 10, [ini(K1, 'C', 5), pp_ini(P2, 'q', 6)],
               [pp_put(P1, 'r', 2), get(K1)]))
    sh.append(('empty entry', big, [], [put(K1, 'E'), get(K1)]))
    sh.append(('failing write/get over an old entry', big, [ini(K1, 'C', 5)], [put(K1, 'A', 2, 1), get(K1)]))
    sh.append(('failing write/put under pressure', e['A'] + e['B'] - 1, [], [put(K1, 'A', 1, 1), put(K2, 'B')]))
    sh.append(('one failing write', big, [], [put(K1, 'D', 2, 1)]))
    sh.append(('one put', big, [], [put(K1, 'A', 3)]))
    sh.append(('one put too large', e['D'] - 1, [ini(K2, 'C', 5)], [put(K1, 'D')]))
    sh.append(('one put fills the cache', e['D'], [ini(K2, 'C', 5)], [put(K1, 'D', 2)]))
    sh.append(('one get', big, [ini(K1, 'C', 5)], [get(K1)]))
    sh.append(('one get, oversized old entry', e['C'] - 1, [ini(K1, 'C', 5)], [get(K1)]))
    # the nested store
    sh.append(('one pp_put', big, [], [pp_put(P1, 'p', 2)]))
    sh.append(('one pp_put over an old entry and leftovers', big,
               [pp_ini(P1, 'q', 5), raw(b'preprocessor/.sccachetmpPP', 'C', 6), raw(b'.sccachetmpTOP', 'E', 7)],
               [pp_put(P1, 'p', 2)]))
    sh.append(('one pp_get', big, [pp_ini(P1, 'q', 5)], [pp_get(P1)]))
    sh.append(('pp_put/pp_get same key', big, [], [pp_put(P1, 'p', 2), pp_get(P1)]))
    sh.append(('pp_put/pp_get over an old entry', big, [pp_ini(P1, 'q', 5)], [pp_put(P1, 'p'), pp_get(P1)]))
    sh.append(('pp_put/pp_put same key', big, [], [pp_put(P1, 'p'), pp_put(P1, 'q', 2)]))
    sh.append(('pp_put/pp_put under pressure', e['r'] + e['q'] - 1, [pp_ini(P2, 'p', 4)], [pp_put(P1, 'r'), pp_put(P2, 'q')]))
    sh.append(('pp re-store that must evict its own old version', e['r'] + e['q'] - 10, [pp_ini(P1, 'r', 5)],
               [pp_put(P1, 'q', 2), pp_get(P1)]))
    sh.append(('pp re-store of the least recently used of two', e['r'] + e['q'] + e['p'] - 10,
               [pp_ini(P1, 'p', 5), pp_ini(P2, 'r', 6)], [pp_put(P1, 'q'), pp_get(P1)]))
    sh.append(('pp_put/put', big, [], [pp_put(P1, 'p'), put(K1, 'A')]))
    sh.append(('pp_put/get: the result store opens while the nested put is in flight', big, [ini(K1, 'C', 5)],
               [pp_put(P1, 'p', 2), get(K1)]))
    sh.append(('pp_put/put, room for the result entry only', e['A'] + e['p'] - 1, [pp_ini(P2, 'q', 4)],
               [pp_put(P1, 'p'), put(K1, 'A')]))
    sh.append(('pp_get/put', big, [pp_ini(P1, 'q', 5), ini(K1, 'C', 6)], [pp_get(P1), put(K1, 'A')]))
    three = [
        ('put/put/get same key', big, [], [put(K1, 'A'), put(K1, 'B'), get(K1)]),
        ('put/get/get over an old entry', big, [ini(K1, 'C', 5)], [put(K1, 'A'), get(K1), get(K1)]),
        ('put/put/put under pressure', e['A'] + e['B'] + 5, [], [put(K1, 'A'), put(K2, 'B'), put(K3, 'C')]),
        ('put/put/get under pressure', e['A'] + e['B'] - 1, [ini(K3, 'C', 5)], [put(K1, 'A'), put(K2, 'B'), get(K3)]),
        ('pp_put/put/pp_get', big, [pp_ini(P1, 'q', 5)], [pp_put(P1, 'p'), put(K1, 'A'), pp_get(P1)]),
    ]
    return sh, three


POOL_KEYS = [K1, K2, K3]
POOL_PP = [P1, P2]
RAW_TEMPS = [b'.sccachetmpZ0', b'.sccachetmpZ1', b'preprocessor/.sccachetmpZ2', b'preprocessor/a/.sccachetmpZ3',
             b'a/1/.sccachetmpZ4', b'0/.sccachetmpZ5', b'.git/.sccachetmpZ6', b'a/.1/.sccachetmpZ7']
ROOT_NAMES = [b'.sccache', b'.c', b'cache.d', b'..cache']


def gen_random(rng, n, maxthreads):
    """random call sets on both stores, capacities and initial trees; a random interleaving cut at a random point"""
    e = elens()
    names = sorted(PAYLOADS)
    pnames = sorted(PP_PAYLOADS)
    out = []
    for _ in range(n):
        nt = rng.range(2, maxthreads)
        ths = []
        for _ in range(nt):
            kind = rng.weighted([('put', 5), ('get', 3), ('pp_put', 4), ('pp_get', 2)])
            if kind == 'put':
                ths.append(put(rng.choice(POOL_KEYS), rng.choice(names), rng.range(1, 3), 1 if rng.chance(1, 8) else 0))
            elif kind == 'get':
                ths.append(get(rng.choice(POOL_KEYS)))
            elif kind == 'pp_put':
                ths.append(pp_put(rng.choice(POOL_PP), rng.choice(pnames), rng.range(1, 2)))
            else:
                ths.append(pp_get(rng.choice(POOL_PP)))
        init = []
        mt = 3
        for k in POOL_KEYS:
            if rng.chance(1, 2):
                init.append(ini(k, rng.choice(names), mt))
                mt += 1
        for k in POOL_PP:
            if rng.chance(1, 3):
                init.append(pp_ini(k, rng.choice(pnames), mt))
                mt += 1
        for path in RAW_TEMPS:
            if rng.chance(1, 8):
                init.append(raw(path, rng.choice(names), mt))
                mt += 1
        sizes = sorted(t[4] for t in ths if is_put(t)) or [100]
        cap = rng.choice([100000, sizes[-1], sizes[-1] + sizes[0] - 1, sum(sizes) - 1, sum(sizes) + 50, sizes[0]])
        left = [nsteps(t) for t in ths]
        sched = []
        while any(left):
            i = rng.below(len(ths))
            if left[i]:
                left[i] -= 1
                sched.append(i)
        cut = rng.below(len(sched) + 1) if rng.chance(2, 3) else len(sched)
        case = [cap, rng.below(2), init, ths, sched[:cut]]
        if rng.chance(1, 3):
            case += [[], [], rng.choice(ROOT_NAMES)]
        out.append(case)
    return out


def gen_cases(rng, tier):
    two, three = shapes(tier)
    out = []
    for name, cap, init, ths in two + three:
        order = 1 if any(is_pp(t) for t in ths) and len(name) % 2 else 0
        for p in prefixes(ths):
            out.append([cap, order, init, ths, p])
    # the other order of the thread list, other chunkings, the other order of the observations
    for name, cap, init, ths in two:
        if len(ths) == 2:
            alt = [list(t) for t in reversed(ths)]
            for t in alt:
                if is_put(t):
                    t[5] = 3
            for p in prefixes(alt):
                out.append([cap, 1, init, alt, p])
    # a shard directory on another file system (mount point): the final rename of every put into it fails
    e = elens()
    for cap, init, ths in [
            (100000, [ini(K1, 'C', 5)], [put(K1, 'A', 2), get(K1)]),
            (100000, [], [put(K1, 'A'), get(K1)]),
            (100000, [ini(K1, 'C', 5)], [put(K1, 'A'), put(K1, 'B')]),
            (100000, [ini(K3, 'C', 5)], [put(K1, 'A'), put(K2, 'B')]),
            (e['A'] + e['C'] - 1, [ini(K2, 'C', 5)], [put(K1, 'A'), get(K2)]),
            (100000, [ini(K1, 'C', 5)], [put(K1, 'A', 1, 1), get(K1)]),
            (100000, [ini(K1, 'C', 5)], [put(K3, 'A'), get(K1), get(K3)])]:
        for p in prefixes(ths):
            out.append([cap, 0, init, ths, p, [K1]])
    # the NAME of the cache directory, and dot-names inside the tree, belong to the case space: whatever the
    # directory is called (~/.sccache) and wherever a leftover temp file sits (in a hidden directory too), the
    # restarted server removes it, and every other file below the root is scanned
    dots = [raw(b'.hidden/.sccachetmpH', 'C', 7), raw(b'a/.dot/.sccachetmpD', 'E', 8), raw(b'.hidden/kept', 'E', 9),
            raw(b'preprocessor/.x/.sccachetmpE', 'C', 10)]
    for rootname in (b'.sccache', b'.cache.d', b'cache'):
        for cap, init, ths in [
                (100000, [ini(K1, 'C', 5)], [put(K1, 'A', 2), get(K1)]),
                (100000, [ini(K1, 'C', 5), pp_ini(P2, 'q', 6)] + dots, [put(K2, 'A'), get(K1)]),
                (100000, [ini(K1, 'C', 5), pp_ini(P2, 'q', 6)] + dots[:2], [pp_put(P1, 'p', 2), get(K1)]),
                (e['A'] + e['C'] + e['E'] + 5, [ini(K1, 'C', 5)] + dots[2:3], [put(K2, 'A'), get(K1)])]:
            for p in prefixes(ths):
                out.append([cap, len(p) % 2, init, ths, p, [], [], rootname])
    # lock-scope probes: the call stepped at position i is parked at its first utimensat / unlink of an entry file
    # and the following m steps are attempted inside that window (they just wait if the call holds the cache lock,
    # as every lookup and every eviction does on the unchanged tree: the model's steps are atomic)
    probes = [
        # a lookup found K2 in the index; a store of another key evicts K2 before the lookup has opened the file
        (e['A'] + e['C'] - 1, [ini(K2, 'C', 5)], [put(K1, 'A'), get(K2)], [1, 0, 0, 0, 1], [0, b'utimes', 1]),
        (e['A'] + e['C'] - 1, [ini(K2, 'C', 5)], [put(K1, 'A'), get(K2)], [1, 0, 0, 0, 1], [0, b'utimes', 3]),
        (e['A'] + e['C'] - 1, [ini(K2, 'C', 5)], [put(K1, 'A', 2), get(K2)], [0, 1, 0, 0, 0, 1], [1, b'utimes', 2]),
        (e['A'] + e['C'] - 1, [ini(K2, 'C', 5), ini(K3, 'E', 6)], [put(K1, 'A'), get(K2), get(K3)],
         [1, 0, 2, 0, 0, 1, 2], [0, b'utimes', 1]),
        (100000, [ini(K1, 'C', 5)], [put(K1, 'A'), get(K1)], [0, 0, 1, 0, 1], [2, b'utimes', 1]),
        # a store evicts K2; another store of K2 completes before the evicted file has been unlinked
        (e['A'] + e['C'] - 1, [ini(K2, 'C', 5)], [put(K1, 'A'), put(K2, 'E')], [0, 1, 1, 1, 0, 0], [0, b'unlink', 3]),
        (e['A'] + e['C'] - 1, [ini(K2, 'C', 5)], [put(K1, 'A'), put(K2, 'E'), get(K2)], [0, 1, 1, 1, 2, 2, 0, 0],
         [0, b'unlink', 5]),
        (e['A'] + e['C'] - 1, [ini(K2, 'C', 5)], [put(K1, 'A'), get(K2)], [0, 1, 1, 0, 0], [0, b'unlink', 2]),
        # commit-time eviction (the entry is larger than what was free when it was reserved)
        (e['A'] + e['C'] - 1, [ini(K2, 'C', 5)], [put(K2, 'A'), put(K1, 'E'), get(K2)], [0, 0, 0, 1, 1, 1, 2, 2],
         [0, b'unlink', 4]),
    ]
    for cap, init, ths, sched, pr in probes:
        for cut in range(pr[0] + 1, len(sched) + 1):
            out.append([cap, 0, init, ths, sched[:cut], [], pr])
    if tier == 'thorough':
        for name, cap, init, ths in three:
            alt = [list(t) for t in reversed(ths)]
            for t in alt:
                if is_put(t):
                    t[5] = 2
            for p in prefixes(alt):
                out.append([cap, 1, init, alt, p])
        out += gen_random(rng, 60000, 4)
    else:
        out += gen_random(rng, 4000, 4)
    return out


# ------------------------------------------------------------------ the property, on the real observations

TEMP = b'.sccachetmp'
PP_DIR = b'preprocessor/'


def main_path(k):
    return k[0:1] + b'/' + k[1:2] + b'/' + k


def pp_path(k):
    return PP_DIR + k[0:1] + b'/' + k[1:2] + b'/' + k[2:3] + b'/' + k


def is_temp_path(p):
    return p.split(b'/')[-1].startswith(TEMP)


def mounted(case):
    return case[5] if len(case) > 5 else []


def analyse(case):
    cap, order, init, ths, sched = case[:5]
    occ = [[] for _ in ths]
    for pos, t in enumerate(sched):
        if t < len(ths):
            occ[t].append(pos)
    return cap, init, ths, sched, occ


def monitor(case, out):
    cap, init, ths, sched, occ = analyse(case)
    vs = []
    if out == [b'skipped']:
        return []       # mount points cannot be made in this environment
    if not isinstance(out, list) or len(out) != 13 or not isinstance(out[0], list) or len(out[0]) != len(ths):
        return ['malformed implementation output: %r' % (out,)]
    rs = out[0]
    nr = [k[:2] for k in mounted(case)]     # shards whose final rename fails (mount points)
    mkeys = sorted(set([f[1] for f in init if f[0] == b'main'] + [t[1] for t in ths if not is_pp(t)]))
    pkeys = sorted(set([f[1] for f in init if f[0] == b'pp'] + [t[1] for t in ths if is_pp(t)]))
    # (store, key, pid) -> entry length;  store: False = result store, True = nested store
    elen_of = {}
    initial = set()
    for f in init:
        if f[0] in (b'main', b'pp'):
            elen_of[(f[0] == b'pp', f[1], f[2])] = f[4]
            initial.add((f[0] == b'pp', f[1], f[2]))
    for t in ths:
        if is_put(t):
            elen_of[(is_pp(t), t[1], t[2])] = t[4]
    main_steps = [occ[i][0] for i, t in enumerate(ths) if not is_pp(t) and occ[i]]
    main_opened_at = min(main_steps) if main_steps else None     # the result store is opened by its first request
    commits = []   # (store, key, pid, pos)
    main_inflight = 0
    pp_inflight = 0
    pp_inflight_kept = 0    # nested puts reserved after the result store was opened: their temp file stays
    reserved = 0
    for i, t in enumerate(ths):
        r = rs[i]
        what = '%s %d' % (t[0].decode(), i)
        if r == b'stuck':
            vs.append('%s never reached its next step (deadlock)' % what)
            continue
        if is_put(t):
            need = t[5] + 2
            fail = t[0] == b'put' and t[6]
            if r == b'err':
                if fail:
                    if len(occ[i]) < need:
                        vs.append('%s gave up before its write had failed' % what)
                    continue  # its own write failed: the call must end with an error and leave nothing behind
                if t[0] == b'put' and t[1][:2] in nr and len(occ[i]) >= need:
                    # the shard is on another file system: the rename cannot succeed, the store must fail cleanly
                    continue
                if is_pp(t) and main_opened_at is not None and len(occ[i]) >= need \
                        and occ[i][0] < main_opened_at < occ[i][need - 1]:
                    # the result store was opened while this nested put was in flight: its scan of the whole tree
                    # removes the put's temp file, the put then fails (nothing partial becomes visible)
                    continue
                vs.append('%s failed with an error' % what)
            elif r == b'ok' and fail:
                vs.append('%s reported success although its write failed' % what)
            elif r == b'ok':
                if len(occ[i]) < need:
                    vs.append('%s reported success before its commit step' % what)
                else:
                    commits.append((is_pp(t), t[1], t[2], occ[i][need - 1]))
            elif r == b'unfinished':
                if len(occ[i]) >= need:
                    vs.append('%s did not finish although all its steps were scheduled' % what)
                if len(occ[i]) >= 1:
                    if is_pp(t):
                        pp_inflight += 1
                        if main_opened_at is not None and main_opened_at < occ[i][0]:
                            pp_inflight_kept += 1
                    else:
                        main_inflight += 1
                        reserved += t[4]
            elif r == b'too_large':
                if t[4] <= cap and not any(is_put(u) and j != i for j, u in enumerate(ths)) and not is_pp(t):
                    vs.append('%s of %d bytes refused by an otherwise idle cache of %d' % (what, t[4], cap))
            else:
                vs.append('%s: unexpected result %r' % (what, r))
    for i, t in enumerate(ths):
        r = rs[i]
        what = '%s %d' % (t[0].decode(), i)
        if not is_put(t) and r != b'stuck':
            if r == b'err':
                vs.append('%s failed with an error' % what)
            elif r == b'unfinished':
                if len(occ[i]) >= 2:
                    vs.append('%s did not finish although all its steps were scheduled' % what)
            elif isinstance(r, list) and r and r[0] == b'hit':
                opened = occ[i][0] if occ[i] else -1
                ok = (is_pp(t), t[1], r[1]) in initial or \
                    any(st == is_pp(t) and k == t[1] and pid == r[1] and pos < opened for st, k, pid, pos in commits)
                if not ok:
                    vs.append('%s of %r returned entry %d, which no store had committed under that key before the lookup'
                              % (what, t[1], r[1]))
            elif r == b'torn' or (isinstance(r, list) and r and r[0] == b'foreign'):
                vs.append('%s of %r returned a partial, mixed or foreign entry: %r' % (what, t[1], r))
            elif r != b'miss':
                vs.append('%s: unexpected result %r' % (what, r))

    def complete(store, k, pid):
        return (store, k, pid) in initial or any(st == store and kk == k and p == pid for st, kk, p, _ in commits)

    def check_lookups(label, store, keys, obs):
        served = {}
        if not isinstance(obs, list) or len(obs) != len(keys):
            vs.append('%s: malformed observation' % label)
            return served
        for k, o in zip(keys, obs):
            if o == b'miss':
                continue
            if isinstance(o, list) and o and o[0] == b'hit':
                if complete(store, k, o[1]):
                    served[k] = elen_of[(store, k, o[1])]
                else:
                    vs.append('%s: key %r holds entry %d, which was never committed under that key' % (label, k, o[1]))
            else:
                vs.append('%s: key %r: %r (not a miss and not a complete entry stored under that key)' % (label, k, o))
        return served

    def check_index(label, which, idx, mserved, pserved, pending):
        """every indexed path is an entry file holding a complete value of the recorded size - never a temp file"""
        if idx == b'none':
            return None
        if not isinstance(idx, list):
            vs.append('%s: malformed index' % label)
            return None
        total = 0
        for e in idx:
            path, sz = e
            total += sz
            if is_temp_path(path):
                vs.append('%s: the %s indexes the temporary file %r (%d bytes)' % (label, which, path, sz))
                continue
            ok = False
            for k in mkeys:
                if path == main_path(k):
                    ok = any(st is False and kk == k and elen_of[(st, kk, pid)] == sz and complete(st, kk, pid)
                             for (st, kk, pid) in elen_of)
            for k in pkeys:
                if path == pp_path(k):
                    ok = any(st is True and kk == k and elen_of[(st, kk, pid)] == sz and complete(st, kk, pid)
                             for (st, kk, pid) in elen_of)
            if raw_files.get(path) == sz:
                ok = True
            if not ok:
                vs.append('%s: the %s indexes %r with %d bytes, which is no complete entry stored there' % (label, which, path, sz))
        return total

    raw_temps = [f[1] for f in init if f[0] == b'raw' and is_temp_path(f[1])]
    # any other file below the root is an entry to the store that scans it (existing behaviour), whatever its name
    raw_files = dict((f[1], f[4]) for f in init if f[0] == b'raw' and not is_temp_path(f[1]))
    top_temps = [q for q in raw_temps if not q.startswith(PP_DIR)]

    def check_obs(label, o, live):
        om, op, ntmp, size, mi, pi = o
        ms = check_lookups(label, False, mkeys, om)
        ps = check_lookups(label, True, pkeys, op)
        # Temp files in the WHOLE tree.  The lookups of the observation open the stores they address.  Opening the
        # result store scans the whole tree: every leftover temp file, at any depth, must go (and with it the temp
        # files of nested puts in flight); opening the nested store scans preprocessor/ only.
        if mkeys:
            want = main_inflight + pp_inflight_kept if live else 0
        else:
            want = len(top_temps) + (0 if pkeys else len(raw_temps) - len(top_temps)) + (pp_inflight if live else 0)
        if ntmp != want:
            if live:
                vs.append('%s: %d temp files in the cache directory with %d stores in flight' % (label, ntmp, want))
            else:
                vs.append('%s: %d temporary files are left in the cache directory (%d expected)' % (label, ntmp, want))
        mt = check_index(label, 'result store', mi, ms, ps, 0)
        check_index(label, 'preprocessor-entry store', pi, ms, ps, 0)
        if mkeys and mi == b'none':
            vs.append('%s: the result store was used but reports no index' % label)
        if mt is not None:
            want = mt + (reserved if live else 0)
            if size != want:
                vs.append('%s: current_size %r but the indexed entries add up to %d%s'
                          % (label, size, mt, (' + reservations %d' % reserved) if live else ''))
            for k, sz in ms.items():
                if [main_path(k), sz] not in mi:
                    vs.append('%s: key %r is served but not indexed with its size' % (label, k))
        if isinstance(pi, list):
            for k, sz in ps.items():
                if [pp_path(k), sz] not in pi:
                    vs.append('%s: nested key %r is served but not indexed with its size' % (label, k))
        # an indexed (and counted) entry is an entry that can be looked up: its file exists.  The result store's
        # own keys always; the nested store's when no result-store request was made (after one, the result store
        # has the nested entry files in its own index and may evict them under the nested store: S18)
        if isinstance(mi, list) and isinstance(om, list) and len(om) == len(mkeys):
            for k, o in zip(mkeys, om):
                if any(e[0] == main_path(k) for e in mi) and not (isinstance(o, list) and o and o[0] == b'hit'):
                    vs.append('%s: the result store indexes and counts key %r, but looking it up gives %r '
                              '(an indexed entry without its file: a successful store was lost)' % (label, k, o))
        if isinstance(pi, list) and not mkeys and isinstance(op, list) and len(op) == len(pkeys):
            for k, o in zip(pkeys, op):
                if any(e[0] == pp_path(k) for e in pi) and not (isinstance(o, list) and o and o[0] == b'hit'):
                    vs.append('%s: the preprocessor-entry store indexes and counts key %r, but looking it up gives %r '
                              '(an indexed entry without its file: a successful store was lost)' % (label, k, o))

    check_obs('before the crash', out[1:7], True)
    check_obs('after restart', out[7:13], False)

    # Leftover temp files are never COUNTED: if the complete entries that were served right before the crash fit
    # the capacity together (staged bytes of stores in flight and leftover temp files excluded), the restart has
    # no reason to delete any of them - each must still be served, unchanged.
    try:
        before = [(False, k, o) for k, o in zip(mkeys, out[1])] + [(True, k, o) for k, o in zip(pkeys, out[2])]
        after = dict(((False, k), o) for k, o in zip(mkeys, out[7]))
        after.update(((True, k), o) for k, o in zip(pkeys, out[8]))
        held = [(st, k, o) for st, k, o in before if isinstance(o, list) and o and o[0] == b'hit' and (st, k, o[1]) in elen_of]
        total = sum(elen_of[(st, k, o[1])] for st, k, o in held) + sum(raw_files.values())
        if total <= cap:
            for st, k, o in held:
                if after.get((st, k)) != o:
                    vs.append('after restart: %s key %r held the complete entry %d before the crash and all entries (%d bytes) '
                              'fit the limit %d, but the restarted cache answers %r (something other than entries was '
                              'charged against the limit)' % ('nested' if st else 'result', k, o[1], total, cap, after.get((st, k))))
    except Exception as ex:
        vs.append('malformed observation: %r' % (ex,))
    return vs


def nontrivial(case, out):
    return len(case[4]) > 0 and out != [b'skipped']


def stats(case, out):
    ks = ['threads=%d' % len(case[3]), 'sched_len=%d' % len(case[4]), 'order=%d' % case[1]]
    if len(case) > 6 and case[6]:
        ks.append('lock_scope_probe=%s' % case[6][1].decode())
    if len(case) > 7:
        ks.append('root_name=%s' % ('dot' if case[7].startswith(b'.') else 'plain'))
    if mounted(case):
        ks.append('shard_on_other_fs' + ('(skipped)' if out == [b'skipped'] else ''))
    try:
        for t, r in zip(case[3], out[0]):
            ks.append('%s=%s' % (t[0].decode(), r.decode() if isinstance(r, bytes) else r[0].decode()))
        for o in out[7] + out[8]:
            ks.append('after_restart=%s' % (o.decode() if isinstance(o, bytes) else o[0].decode()))
        if isinstance(out[11], list) and any(e[0].startswith(PP_DIR) for e in out[11]):
            ks.append('restart:result_store_indexes_nested_entries(S18)')
    except Exception:
        ks.append('malformed')
    return ks


def shrink(case):
    cap, order, init, ths, sched = case[:5]
    tail = case[5:]
    for i in range(len(sched)):
        yield [cap, order, init, ths, sched[:i] + sched[i + 1:]] + tail
    for i in range(len(init)):
        yield [cap, order, init[:i] + init[i + 1:], ths, sched] + tail


def neighbours(case):
    cap, order, init, ths, sched = case[:5]
    tail = case[5:]
    yield [cap, 1 - order, init, ths, sched] + tail
    for i in range(len(sched) - 1):
        if sched[i] != sched[i + 1]:
            s2 = list(sched)
            s2[i], s2[i + 1] = s2[i + 1], s2[i]
            yield [cap, order, init, ths, s2] + tail
    for p in prefixes(ths)[:300]:
        yield [cap, order, init, ths, p] + tail


def extra(rep, known):
    # every case of the disk leg is a trace of the real code stepped through the model's schedule
    rep.traces = rep.legs.get('disk', {}).get('cases', 0) - rep.legs.get('disk', {}).get('disagreements', 0)


def legs(tier):
    return [Leg('disk', gen_cases, compare=lambda m, i: m == i or i == '(skipped)', monitor=monitor, nontrivial=nontrivial, shrink=shrink, neighbours=neighbours,
                stats=stats,
                rule='EXHAUSTIVE: every distinct prefix (= crash point) of every interleaving of 32 one- and two-call '
                     'shapes on both stores (put/put same key, put/get, capacity pressure, get/get, eviction of an open '
                     'entry, leftover temp files at several depths of the tree, failing writes, pp_put/pp_get, '
                     'pp_put/pp_put, pp_put against put/get incl. the result store opening under a nested put, ...) in '
                     'both thread orders, several chunkings and both orders of opening the stores, and of 5 three-call '
                     'shapes; plus PRNG call sets of 2-4 calls on both stores over 5 keys x 8 payloads x 6 capacities '
                     'with random initial trees (entries of both stores, temp-named files in 6 places), a random '
                     'interleaving cut at a random point (4000 quick / 60000 thorough); shard-on-another-file-system '
                     'shapes (rename fails); lock-scope probes (a lookup parked at utimensat, a store parked at the unlink '
                     'of an evicted entry, the following steps attempted inside); non-trivial = at least one '
                     'step executed; distinct by full case text')]
