"""C06 — disk cache entries appear atomically and survive crashes intact.

The real DiskCache::put / DiskCache::get are stepped through explicit interleavings (hook H2: named sync
points), the server is then "killed" (calls in flight never resume) and a fresh DiskCache is opened on the
directory.  Every distinct prefix of every interleaving of the listed call sets is a case, so every crash
point of every interleaving is covered.
"""
from .. import pipeline, sx
from ..pipeline import Leg

ID = 'C06'
HARNESS_BIN = 'c06'
RUN_MODULE = 'Run.C06'
THEOREMS = ['C06_get_complete', 'C06_no_errors', 'C06_crash_safe', 'C06_crash_then_get',
            'C06_uncommitted_invisible', 'C06_lookup_visible', 'C06_hex_keys_not_temp']
ASSUMPTIONS = [
    'atomic steps are the lock sections of DiskCache::put/get (Reserve, each chunk of the unlocked write, Commit or '
    'Abandon; Open, Read); rename(2) switches a directory entry atomically and an open descriptor keeps reading the '
    'inode it was opened on (POSIX; validated by the stepped runs of the real code)',
    'the server dies, the machine does not: there is no fsync in the code, so after a power loss a renamed entry may be '
    'empty — not modelled, the property speaks of the server dying',
    'key paths never collide with temp-file names: make_key_path of a hex key never has a file name starting with '
    'TEMPFILE_PREFIX (proved: C06_hex_keys_not_temp), so temp files live in their own name space in the model',
    'the only injected I/O failure is a failing write_all (EFBIG via RLIMIT_FSIZE, exercising the Abandon path); '
    'LruDiskCache::new failing (cache root not creatable) and failing flush/metadata/rename are not modelled',
    'a crash in the middle of the unlocked write is imitated by the harness writing that prefix of the entry into the '
    'call\'s temp file (the real write_all cannot be parked half way); recovery never looks at temp file contents',
    'restart uses LruDiskCache::new on the surviving directory; file mtimes are assumed distinct and not in the future '
    '(Lru dir_ok) for the no-error and size statements',
    'no other process touches the cache directory',
]
TRUSTED = ['hook H2: verif_hooks::sync at put.before_reserve / put.reserved / put.written / put.committed / '
           'get.before_lock / get.opened in src/cache/disk.rs (no-ops unless a controller is installed)']

K1, K2, K3 = b'a1b2c3', b'0f0e0d', b'a1ffee'
PAYLOADS = {'A': (1, 100), 'B': (2, 200), 'C': (3, 50), 'D': (4, 300), 'E': (5, 0)}
_ELEN = {}


def elens():
    """real entry lengths of the payloads, from the harness (CacheWrite::finish().len())"""
    if not _ELEN:
        names = sorted(PAYLOADS)
        out = pipeline.run_sharded([pipeline.harness_bin(HARNESS_BIN), 'size'],
                                   [sx.dumps(list(PAYLOADS[n])) for n in names], shards=1)
        for n, o in zip(names, out):
            _ELEN[n] = int(o)
    return _ELEN


def put(key, name, chunks=1, fail=0):
    pid, plen = PAYLOADS[name]
    return [b'put', key, pid, plen, elens()[name], chunks, fail]


def get(key):
    return [b'get', key]


def ini(key, name, mtime):
    pid, plen = PAYLOADS[name]
    return [key, pid, plen, elens()[name], mtime]


def nsteps(th):
    return th[5] + 2 if th[0] == b'put' else 2


def prefixes(threads):
    """every distinct prefix of every interleaving (each is one crash point of one schedule)"""
    lim = [nsteps(t) for t in threads]
    out = []

    def rec(cnt, cur):
        out.append(list(cur))
        for i in range(len(lim)):
            if cnt[i] < lim[i]:
                cnt[i] += 1
                cur.append(i)
                rec(cnt, cur)
                cur.pop()
                cnt[i] -= 1
    rec([0] * len(lim), [])
    return out


def shapes(tier):
    e = elens()
    big = 100000
    sh = []
    # name, cap, init, threads
    sh.append(('put/put same key', big, [], [put(K1, 'A'), put(K1, 'B')]))
    sh.append(('put/put same key over an old entry', big, [ini(K1, 'C', 5)], [put(K1, 'A', 2), put(K1, 'B')]))
    sh.append(('put/get same key', big, [], [put(K1, 'A', 2), get(K1)]))
    sh.append(('put/get same key over an old entry', big, [ini(K1, 'C', 5)], [put(K1, 'A', 2), get(K1)]))
    sh.append(('put/put two keys, room for one', e['A'] + e['B'] - 1, [], [put(K1, 'A'), put(K2, 'B')]))
    sh.append(('put/put two keys, room for the larger only', e['B'], [], [put(K1, 'A'), put(K2, 'B')]))
    sh.append(('put/put two keys, old entries evicted', e['A'] + e['B'] + 10, [ini(K3, 'C', 5), ini(K2, 'D', 6)],
               [put(K1, 'A'), put(K2, 'B')]))
    sh.append(('put/put same directory', big, [], [put(K1, 'A'), put(K3, 'B', 2)]))
    sh.append(('get/get', big, [ini(K1, 'C', 5), ini(K2, 'D', 6)], [get(K1), get(K1)]))
    sh.append(('put evicts what a get holds open', e['A'] + e['C'] - 1, [ini(K2, 'C', 5)], [put(K1, 'A'), get(K2)]))
    sh.append(('put same key evicts itself', e['A'] + e['C'] - 1, [ini(K1, 'C', 5)], [put(K1, 'A', 2), get(K1)]))
    sh.append(('leftover temp files', big, [ini(K1, 'C', 5), ini(b'.sccachetmpOLD', 'A', 7), ini(b'.sccachetmpX2', 'E', 3)],
               [put(K1, 'A'), get(K1)]))
    sh.append(('empty entry', big, [], [put(K1, 'E'), get(K1)]))
    sh.append(('one put', big, [], [put(K1, 'A', 3)]))
    sh.append(('one put too large', e['D'] - 1, [ini(K2, 'C', 5)], [put(K1, 'D')]))
    sh.append(('one put fills the cache', e['D'], [ini(K2, 'C', 5)], [put(K1, 'D', 2)]))
    sh.append(('failing write/get over an old entry', big, [ini(K1, 'C', 5)], [put(K1, 'A', 2, 1), get(K1)]))
    sh.append(('failing write/put under pressure', e['A'] + e['B'] - 1, [], [put(K1, 'A', 1, 1), put(K2, 'B')]))
    sh.append(('one failing write', big, [], [put(K1, 'D', 2, 1)]))
    sh.append(('one get', big, [ini(K1, 'C', 5)], [get(K1)]))
    sh.append(('one get, oversized old entry', e['C'] - 1, [ini(K1, 'C', 5)], [get(K1)]))
    three = [
        ('put/put/get same key', big, [], [put(K1, 'A'), put(K1, 'B'), get(K1)]),
        ('put/get/get over an old entry', big, [ini(K1, 'C', 5)], [put(K1, 'A'), get(K1), get(K1)]),
        ('put/put/put under pressure', e['A'] + e['B'] + 5, [], [put(K1, 'A'), put(K2, 'B'), put(K3, 'C')]),
        ('put/put/get under pressure', e['A'] + e['B'] - 1, [ini(K3, 'C', 5)], [put(K1, 'A'), put(K2, 'B'), get(K3)]),
    ]
    return sh, three


POOL_KEYS = [K1, K2, K3]


def gen_random(rng, n, maxthreads):
    """random call sets, capacities and initial directories; a random interleaving cut at a random point"""
    e = elens()
    names = sorted(PAYLOADS)
    out = []
    for _ in range(n):
        nt = rng.range(2, maxthreads)
        ths = []
        for _ in range(nt):
            k = rng.choice(POOL_KEYS)
            if rng.chance(2, 3):
                ths.append(put(k, rng.choice(names), rng.range(1, 3), 1 if rng.chance(1, 8) else 0))
            else:
                ths.append(get(k))
        init = []
        for j, k in enumerate(POOL_KEYS):
            if rng.chance(1, 2):
                init.append(ini(k, rng.choice(names), 3 + j))
        if rng.chance(1, 6):
            init.append(ini(b'.sccachetmpZ%d' % rng.below(3), rng.choice(names), 9))
        sizes = sorted(t[4] for t in ths if t[0] == b'put') or [100]
        cap = rng.choice([100000, sizes[-1], sizes[-1] + sizes[0] - 1, sum(sizes) - 1, sum(sizes) + 50, sizes[0]])
        left = [nsteps(t) for t in ths]
        sched = []
        while any(left):
            i = rng.below(len(ths))
            if left[i]:
                left[i] -= 1
                sched.append(i)
        cut = rng.below(len(sched) + 1) if rng.chance(2, 3) else len(sched)
        out.append([cap, init, ths, sched[:cut]])
    return out


def gen_cases(rng, tier):
    two, three = shapes(tier)
    out = []
    for name, cap, init, ths in two + three:
        for p in prefixes(ths):
            out.append([cap, init, ths, p])
    # the other order of the thread list, other chunkings
    for name, cap, init, ths in two:
        if len(ths) == 2:
            alt = [list(t) for t in reversed(ths)]
            for t in alt:
                if t[0] == b'put':
                    t[5] = 3
            for p in prefixes(alt):
                out.append([cap, init, alt, p])
    if tier == 'thorough':
        for name, cap, init, ths in three:
            alt = [list(t) for t in reversed(ths)]
            for t in alt:
                if t[0] == b'put':
                    t[5] = 2
            for p in prefixes(alt):
                out.append([cap, init, alt, p])
        out += gen_random(rng, 60000, 4)
    else:
        out += gen_random(rng, 4000, 4)
    return out


# ------------------------------------------------------------------ the property, on the real observations

def analyse(case):
    cap, init, ths, sched = case
    occ = [[] for _ in ths]
    for pos, t in enumerate(sched):
        if t < len(ths):
            occ[t].append(pos)
    return cap, init, ths, sched, occ


def monitor(case, out):
    cap, init, ths, sched, occ = analyse(case)
    vs = []
    if not isinstance(out, list) or len(out) != 7 or not isinstance(out[0], list) or len(out[0]) != len(ths):
        return ['malformed implementation output: %r' % (out,)]
    rs, o1, ntmp1, size1, o2, ntmp2, size2 = out
    keys = sorted(set([f[0] for f in init if not f[0].startswith(b'.')] + [t[1] for t in ths]))
    elen_of = {}
    for f in init:
        elen_of[(f[0], f[1])] = f[3]
    for t in ths:
        if t[0] == b'put':
            elen_of[(t[1], t[2])] = t[4]
    initial = set((f[0], f[1]) for f in init)
    # commit position of every store that completed
    commits = []   # (key, pid, pos)
    inflight = 0
    reserved = 0
    for i, t in enumerate(ths):
        r = rs[i]
        if r == b'stuck':
            vs.append('call %d %s never reached its next step (deadlock)' % (i, t[:2]))
            continue
        if r == b'err':
            if t[0] == b'put' and t[6]:
                if len(occ[i]) < t[5] + 2:
                    vs.append('store %d gave up before its write had failed' % i)
                continue  # its own write failed: the call must end with an error and leave nothing behind
            vs.append('call %d %s failed with an error' % (i, t[:2]))
            continue
        if t[0] == b'put':
            need = t[5] + 2
            if r == b'ok' and t[6]:
                vs.append('store %d reported success although its write failed' % i)
            elif r == b'ok':
                if len(occ[i]) < need:
                    vs.append('store %d reported success before its commit step' % i)
                else:
                    commits.append((t[1], t[2], occ[i][need - 1]))
            elif r == b'unfinished':
                if len(occ[i]) >= need:
                    vs.append('store %d did not finish although all its steps were scheduled' % i)
                if len(occ[i]) >= 1:
                    inflight += 1
                    reserved += t[4]
            elif r == b'too_large':
                if t[4] <= cap and not any(u[0] == b'put' and j != i for j, u in enumerate(ths)):
                    vs.append('store %d of %d bytes refused by an otherwise idle cache of %d' % (i, t[4], cap))
            else:
                vs.append('store %d: unexpected result %r' % (i, r))
        else:
            if r == b'unfinished':
                if len(occ[i]) >= 2:
                    vs.append('lookup %d did not finish although all its steps were scheduled' % i)
                continue
    for i, t in enumerate(ths):
        if t[0] != b'get':
            continue
        r = rs[i]
        if isinstance(r, list) and r and r[0] == b'hit':
            opened = occ[i][0] if occ[i] else -1
            ok = (t[1], r[1]) in initial or any(k == t[1] and pid == r[1] and pos < opened for k, pid, pos in commits)
            if not ok:
                vs.append('lookup %d of %r returned entry %d, which no store had committed under that key before the lookup'
                          % (i, t[1], r[1]))
        elif r == b'torn' or (isinstance(r, list) and r and r[0] == b'foreign'):
            vs.append('lookup %d of %r returned a partial, mixed or foreign entry: %r' % (i, t[1], r))
        elif r not in (b'miss', b'unfinished', b'stuck', b'err'):
            vs.append('lookup %d: unexpected result %r' % (i, r))

    def check_obs(label, obs, committed_only):
        total = 0
        if not isinstance(obs, list) or len(obs) != len(keys):
            vs.append('%s: malformed observation' % label)
            return 0
        for k, o in zip(keys, obs):
            if o == b'miss':
                continue
            if isinstance(o, list) and o and o[0] == b'hit':
                if (k, o[1]) in initial or any(kk == k and pid == o[1] for kk, pid, _ in commits):
                    total += elen_of[(k, o[1])]
                else:
                    vs.append('%s: key %r holds entry %d, which was never committed under that key' % (label, k, o[1]))
            else:
                vs.append('%s: key %r: %r (not a miss and not a complete entry stored under that key)' % (label, k, o))
        return total

    t1 = check_obs('before the crash', o1, True)
    t2 = check_obs('after restart', o2, True)
    if keys:
        if ntmp1 != inflight:
            vs.append('%d temp files on disk with %d stores in flight' % (ntmp1, inflight))
        if size1 != t1 + reserved:
            vs.append('current_size %r but served entries %d + reservations %d' % (size1, t1, reserved))
        if ntmp2 != 0:
            vs.append('%d temp files left after restart' % ntmp2)
        if size2 != t2:
            vs.append('after restart current_size %r but the entries served add up to %d (something else is counted)' % (size2, t2))
    return vs


def nontrivial(case, out):
    return len(case[3]) > 0


def stats(case, out):
    ks = ['threads=%d' % len(case[2]), 'sched_len=%d' % len(case[3])]
    try:
        for t, r in zip(case[2], out[0]):
            ks.append('%s=%s' % (t[0].decode(), r.decode() if isinstance(r, bytes) else r[0].decode()))
        for o in out[4]:
            ks.append('after_restart=%s' % (o.decode() if isinstance(o, bytes) else o[0].decode()))
    except Exception:
        ks.append('malformed')
    return ks


def shrink(case):
    cap, init, ths, sched = case
    for i in range(len(sched)):
        yield [cap, init, ths, sched[:i] + sched[i + 1:]]
    for i in range(len(init)):
        yield [cap, init[:i] + init[i + 1:], ths, sched]


def neighbours(case):
    cap, init, ths, sched = case
    for i in range(len(sched) - 1):
        if sched[i] != sched[i + 1]:
            s2 = list(sched)
            s2[i], s2[i + 1] = s2[i + 1], s2[i]
            yield [cap, init, ths, s2]
    for p in prefixes(ths)[:300]:
        yield [cap, init, ths, p]


def extra(rep, known):
    # every case of the disk leg is a trace of the real code stepped through the model's schedule
    rep.traces = rep.legs.get('disk', {}).get('cases', 0) - rep.legs.get('disk', {}).get('disagreements', 0)


def legs(tier):
    return [Leg('disk', gen_cases, monitor=monitor, nontrivial=nontrivial, shrink=shrink, neighbours=neighbours,
                stats=stats,
                rule='EXHAUSTIVE: every distinct prefix (= crash point) of every interleaving of 21 one- and two-call '
                     'shapes (put/put same key, put/get, put/put under capacity pressure, get/get, eviction of an open '
                     'entry, leftover temp files, failing writes, ...) in both thread orders and several chunkings, and '
                     'of 4 three-call shapes; plus PRNG call sets of 2-4 calls over 3 keys x 5 payloads x 6 capacities '
                     'with random initial directories, a random interleaving cut at a random point (4000 quick / 60000 '
                     'thorough); the real put/get are stepped through the schedule at the H2 sync points; '
                     'non-trivial = at least one step executed; distinct by full case text')]
