"""C18 — scheduler job bookkeeping stays consistent under every message interleaving.

Implementation side: the real `Scheduler` of the sccache-dist binary, driven by its `__verif_sched` hook (the
harness binary `c18` only execs it).  `begin` starts a real handle_alloc_job on its own thread and stops it
inside do_assign_job (no lock held); everything up to the matching `end_ok` / `end_fail` therefore happens
inside that call's unlocked window, in any nesting or order."""
import itertools
import os
import subprocess

from .. import pipeline, sx
from ..pipeline import Leg

ID = 'C18'
HARNESS_BIN = 'c18'
RUN_MODULE = 'Run.C18'
REPO_BINS = ['sccache-dist']
COQ_EXTRA = []
# the deadlock-freedom half ("never stops serving" under truly concurrent requests): its own file of pinned
# statements, so that a broken lock order does not stop the model from being built and the legs from running
EXTRA_PROPERTY_FILES = ['theories/Properties/C18Locks.v']
EXTRA_THEOREMS = {'theories/Properties/C18Locks.v': ['C18_lock_order', 'C18_lock_pieces', 'C18_no_deadlock',
                                                     'C18_lock_discipline_sound']}
# real-thread runs (stress SECS CLIENTS OBSERVERS): a short smoke run in every check, a long one as the search for
# a "stopped serving" run when a proof-side obligation (in particular the lock order) no longer checks
STRESS_SMOKE = {'quick': [b'stress', 2, 3, 2], 'thorough': [b'stress', 8, 4, 3]}
STRESS_SEARCH = [[b'stress', 12, 4, 3], [b'stress', 6, 8, 4]]
THEOREMS = ['C18_consts_ok', 'C18_attribution', 'C18_capacity', 'C18_transitions', 'C18_update_result',
            'C18_in_progress', 'C18_never_panics', 'C18_no_leak', 'C18_unfixed_refuted', 'C18_unfixed_leak_refuted']
ASSUMPTIONS = [
    'deadlock freedom is proved for the handlers\' mutex events (std::sync::Mutex: blocking, not re-entrant, released at scope end); do_assign_job is assumed to return eventually; fairness of the OS scheduler is not modelled',
    'time-outs excluded, as the property says: prune_servers (no heartbeat for 90 s), stale unclaimed jobs (60 s / 300 s) and forgetting a server error (300 s) never fire; the hook refuses any case that took longer than 20 s',
    'each handler piece between two lock acquisitions is atomic (it runs under the mutexes the code takes for it); the model\'s messages are exactly those pieces, so "all message sequences" = all interleavings of request threads',
    'the iteration order of the servers HashMap is arbitrary: a parameter of alloc_begin in the model (theorems quantify over it), forced in the hook by rebuilding the map until it iterates as scripted',
    'load_weight\'s f64 quotient orders like the exact rational (true for core counts below 2^25); whether generate_token fails is a fixed attribute of a registration (scripted through the JobAuthorizer the hook registers)',
]
TRUSTED = [
    'translator/c18_consts.py read_locks: mutex acquisitions are recognised only in the block-scoped form `let g = self.<mutex>.lock().unwrap();` (anything else raises), closures are taken to run where they are written, helper methods called by a handler must not lock',
    'hook: src/bin/sccache-dist/verif_sched.rs (cfg sccache_verif) — scripted SchedulerOutgoing on synchronised threads, read-only dump of the private maps, re-hashing of the servers map to force its iteration order',
    'translator/c18_consts.py (JobState, MAX_PER_CORE_LOAD, load_weight slack formula, transition arms -> Gen/C18Consts.v)',
]

STATES = [b'pending', b'ready', b'started', b'complete']
NEXT = {b'pending': b'ready', b'ready': b'started', b'started': b'complete'}


def cap_of(cpus):
    """the property's capacity: cores + 1 + cores/8"""
    return cpus + 1 + cpus // 8


# ---------------------------------------------------------------- generators

def alphabet(servers, nonces, jobs, cpus_of, states_ok, prefs, zero_cpu=True):
    a = []
    for s in servers:
        for n in nonces:
            a.append([b'hb', s, n, cpus_of[s]])
    if zero_cpu:
        a.append([b'hb', servers[0], nonces[0], 0])
        # a registration whose JobAuthorizer cannot create tokens
        a.append([b'hb', servers[-1], nonces[-1], cpus_of[servers[-1]], 1])
    for p in prefs:
        a.append([b'begin', list(p)])
    for j in jobs:
        for st in states_ok:
            a.append([b'end_ok', j, st])
        a.append([b'end_fail', j])
    for j in jobs:
        for s in servers:
            for st in STATES:
                a.append([b'upd', j, s, st])
    a.append([b'status'])
    return a


FULL = alphabet([0, 1], [1, 2], [0, 1], {0: 1, 1: 2}, [b'pending', b'ready'], [[], [1]])
# the messages that move the bookkeeping (every kind, both servers, both jobs; owner and non-owner updates)
CORE = [[b'hb', 0, 1, 1], [b'hb', 0, 2, 1], [b'hb', 1, 1, 2], [b'begin', []], [b'begin', [1]],
        [b'end_ok', 0, b'ready'], [b'end_ok', 1, b'pending'], [b'end_fail', 0], [b'end_fail', 1],
        [b'upd', 0, 0, b'started'], [b'upd', 0, 0, b'complete'], [b'upd', 1, 1, b'ready'], [b'upd', 0, 1, b'started'],
        [b'status']]


def gen_exhaustive(alpha, depth):
    """every sequence of exactly `depth` messages; shorter sequences are their prefixes and every prefix is observed"""
    return [[list(m) for m in seq] for seq in itertools.product(alpha, repeat=depth)]


def state_key(obs):
    return sx.dumps(obs[1:])


def gen_tour(depth, alpha, limit):
    """Transition tour: breadth-first over the MODEL's reachable states (deduplicated by the full printed state),
    one shortest path per state, each extended by every message of the alphabet.  Every (state reachable within
    `depth` messages, message) pair is then executed on the real code along the representative path."""
    exe = os.path.join(pipeline.BUILD, 'modelrun-' + ID)
    seen = {}
    frontier = [[]]
    cases = []
    for _ in range(depth):
        batch = [p + [m] for p in frontier for m in alpha]
        cases += batch
        if len(cases) > limit:
            break
        outs = pipeline.run_sharded([exe, 'sched'], [sx.dumps(c) for c in batch])
        nxt = []
        for c, o in zip(batch, outs):
            obs = sx.loads(o)
            k = state_key(obs[-1])
            if k not in seen:
                seen[k] = c
                nxt.append(c)
        frontier = nxt
    return cases


def gen_random(rng, n, maxlen, style):
    out = []
    for _ in range(n):
        if style == 'capacity':
            servers = [0, 1] if rng.chance(1, 2) else [0]
            cpus = {s: rng.choice([1, 1, 2, 3]) for s in servers}
        elif style == 'wide':
            servers = [0, 1, 2]
            cpus = {s: rng.choice([1, 2, 7, 8, 9, 16]) for s in servers}
        else:
            servers = [0, 1, 2] if rng.chance(1, 3) else [0, 1]
            cpus = {s: rng.choice([1, 1, 2, 2, 3, 8]) for s in servers}
        ops = []
        begun = 0
        for s in servers:
            if not rng.chance(1, 6):
                ops.append([b'hb', s, 1, cpus[s]])
        for _ in range(rng.range(1, maxlen)):
            if style == 'capacity':
                kind = rng.weighted([('begin', 10), ('end_ok', 9), ('end_fail', 2), ('upd_next', 4), ('upd', 1),
                                     ('hb', 1), ('hb_fresh', 1), ('status', 1)])
            elif style == 'window':
                kind = rng.weighted([('begin', 6), ('end_ok', 5), ('end_fail', 2), ('upd_next', 5), ('upd', 2),
                                     ('hb', 2), ('hb_fresh', 5), ('status', 1)])
            else:
                kind = rng.weighted([('begin', 6), ('end_ok', 5), ('end_fail', 3), ('upd_next', 6), ('upd', 4),
                                     ('hb', 3), ('hb_fresh', 2), ('status', 2), ('hb_zero', 1)])
            j = rng.below(begun + 1) if rng.chance(9, 10) else rng.below(begun + 3)
            if begun and rng.chance(1, 2):
                j = max(0, begun - 1 - rng.below(3))
            s = rng.choice(servers)
            if kind == 'begin':
                ops.append([b'begin', rng.shuffle(servers)[:rng.below(len(servers) + 1)]])
                begun += 1
            elif kind == 'end_ok':
                st = rng.weighted([(b'ready', 6), (b'pending', 4), (b'started', 1), (b'complete', 1)])
                ops.append([b'end_ok', j, st])
            elif kind == 'end_fail':
                ops.append([b'end_fail', j])
            elif kind == 'upd_next':
                # a plausible walk along the chain: guess the owner from a round-robin, states in order
                ops.append([b'upd', j, s, rng.choice(STATES)])
                if rng.chance(2, 3):
                    ops.append([b'upd', j, s, rng.choice(STATES[1:])])
            elif kind == 'upd':
                ops.append([b'upd', j, s, rng.choice(STATES)])
            elif kind == 'hb':
                ops.append([b'hb', s, 1, cpus[s]])
            elif kind == 'hb_fresh':
                ops.append([b'hb', s, rng.range(1, 4), rng.choice([cpus[s], cpus[s], rng.range(1, 9)])]
                           + ([1] if rng.chance(1, 8) else []))
            elif kind == 'hb_zero':
                ops.append([b'hb', s, 1, 0])
            else:
                ops.append([b'status'])
        out.append(ops)
    return out


def gen_guided(rng, n, maxlen):
    """Sequences that follow the life of jobs: python keeps a loose guess of who owns what so that the legal chain
    pending->ready->started->complete is actually walked, with disturbances (fresh nonces, foreign updates) mixed in."""
    out = []
    for _ in range(n):
        servers = [0, 1]
        cpus = {0: rng.choice([1, 2]), 1: rng.choice([1, 2, 3])}
        ops = [[b'hb', 0, 1, cpus[0]], [b'hb', 1, 1, cpus[1]]]
        nonce = {0: 1, 1: 1}
        begun = 0
        window = []      # guessed job ids in their window
        live = {}        # guessed job -> state (owner unknown: both servers are tried)
        for _ in range(rng.range(3, maxlen)):
            k = rng.weighted([('begin', 5), ('end', 6), ('walk', 8), ('fresh', 2), ('same', 1), ('status', 1), ('foreign', 1)])
            if k == 'begin':
                ops.append([b'begin', [1] if rng.chance(1, 2) else []])
                window.append(begun)
                begun += 1
            elif k == 'end' and window:
                j = window.pop(rng.below(len(window)))
                if rng.chance(1, 5):
                    ops.append([b'end_fail', j])
                else:
                    st = rng.choice([b'pending', b'ready'])
                    ops.append([b'end_ok', j, st])
                    live[j] = st
            elif k == 'walk' and live:
                j = rng.choice(sorted(live))
                nx = NEXT.get(live[j])
                if nx is None:
                    del live[j]
                    continue
                for s in rng.shuffle(servers):
                    ops.append([b'upd', j, s, nx])
                if nx == b'complete':
                    del live[j]
                else:
                    live[j] = nx
            elif k == 'fresh':
                s = rng.choice(servers)
                nonce[s] += 1
                ops.append([b'hb', s, nonce[s], cpus[s]] + ([1] if rng.chance(1, 6) else []))
            elif k == 'same':
                s = rng.choice(servers)
                ops.append([b'hb', s, nonce[s], cpus[s]])
            elif k == 'foreign' and live:
                ops.append([b'upd', rng.choice(sorted(live)), rng.choice(servers), rng.choice(STATES)])
            else:
                ops.append([b'status'])
        out.append(ops)
    return out


# ---------------------------------------------------------------- the property, on the REAL maps

def monitor(case, out):
    """The five predicates of the property, evaluated on the real scheduler's maps after every message."""
    vs = []
    if case and case[0] == b'stress':
        if out == [b'stress_ok']:
            return []
        if isinstance(out, list) and out and out[0] == b'stress_stalled':
            return ['the scheduler stopped serving: %d concurrent request threads (%d clients, %d heartbeat/status), '
                    '%d of them finished, %d request rounds done, then no request completed for 5 s (deadlock)'
                    % (out[2], case[2], case[3], out[1], out[3])]
        return ['concurrent run: %s' % sx.dumps(out)[:200]]
    if not isinstance(out, list) or len(out) != len(case) or (out and not isinstance(out[0], list)):
        return ['malformed implementation output: %s' % sx.dumps(out)[:200]]
    prev_jobs = {}
    prev_srv = {}
    inflight_prev = {}
    for i, (m, obs) in enumerate(zip(case, out)):
        if len(obs) != 7:
            return vs + ['message %d: malformed observation' % i]
        res, pj, ps, count, jobs_l, srv_l, fl_l = obs
        jobs = {e[0]: (e[1], e[2]) for e in jobs_l}
        srv = {e[0]: dict(nonce=e[1], cpus=e[2], tokfail=e[3], assigned=e[5], unclaimed=e[6]) for e in srv_l}
        # -- never panics / keeps serving
        if res and res[0] == b'panic':
            vs.append('message %d %s: the scheduler panicked' % (i, sx.dumps(m)))
        if pj or ps:
            vs.append('message %d %s: a scheduler mutex is poisoned (jobs=%d servers=%d): every later request panics'
                      % (i, sx.dumps(m), pj, ps))
        # -- attribution: every live job belongs to exactly one registered server whose assigned set holds it
        for j, (s, st) in jobs.items():
            holders = [k for k, d in srv.items() if j in d['assigned']]
            if s not in srv:
                vs.append('message %d %s: live job %d is attributed to unregistered server %d' % (i, sx.dumps(m), j, s))
            elif holders != [s]:
                vs.append('message %d %s: live job %d of server %d is in the assigned sets of %s'
                          % (i, sx.dumps(m), j, s, holders))
        # -- capacity
        for k, d in srv.items():
            live_here = sum(1 for j, (s, _) in jobs.items() if s == k)
            c = cap_of(d['cpus'])
            if len(d['assigned']) > c or live_here > c or len(set(d['assigned'])) != len(d['assigned']):
                vs.append('message %d %s: server %d (%d cpus, capacity %d) has %d assigned / %d live jobs'
                          % (i, sx.dumps(m), k, d['cpus'], c, len(d['assigned']), live_here))
        # -- no leaked reservation: an assigned id is a live job of that server or a call in its window for it
        fl = {e[0]: e[1] for e in fl_l}
        for k, d in srv.items():
            for j in d['assigned']:
                if not ((j in jobs and jobs[j][0] == k) or fl.get(j) == k):
                    vs.append('message %d %s: server %d keeps job %d assigned although it is neither live nor being assigned '
                              '(leaked reservation: the capacity is used up for good)' % (i, sx.dumps(m), k, j))
        # -- transitions
        t = m[0]
        for j in set(prev_jobs) | set(jobs):
            a, b = prev_jobs.get(j), jobs.get(j)
            if a == b:
                continue
            if a is None:
                ok = (t == b'end_ok' and m[1] == j and b[1] == m[2] and res == [b'alloc_ok', j, b[0]]
                      and inflight_prev.get(j) == b[0])
                if not ok:
                    vs.append('message %d %s: job %d appeared as %s without a successful assignment to that server'
                              % (i, sx.dumps(m), j, sx.dumps(list(b))))
            elif b is None:
                done = (t == b'upd' and m[1] == j and m[2] == a[0] and m[3] == b'complete' and a[1] == b'started'
                        and res == [b'upd', b'ok'])
                rereg = (t == b'hb' and m[1] == a[0] and res == [b'hb', 1])
                if not (done or rereg):
                    vs.append('message %d %s: job %d (%s) vanished without completing on its owner'
                              % (i, sx.dumps(m), j, sx.dumps(list(a))))
            else:
                legal = (t == b'upd' and m[1] == j and m[2] == a[0] and b[0] == a[0] and m[3] == b[1]
                         and NEXT.get(a[1]) == b[1] and res == [b'upd', b'ok'])
                if not legal:
                    vs.append('message %d %s: job %d changed %s -> %s: not a legal transition from its owner'
                              % (i, sx.dumps(m), j, sx.dumps(list(a)), sx.dumps(list(b))))
        if t == b'upd' and res and res[0] == b'upd':
            a = prev_jobs.get(m[1])
            should = a is not None and a[0] == m[2] and NEXT.get(a[1]) == m[3]
            if (res[1] == b'ok') != should:
                vs.append('message %d %s: update answered %s but job was %s'
                          % (i, sx.dumps(m), res[1].decode(), sx.dumps(list(a)) if a else 'unknown'))
        # -- in-progress count
        if t == b'status' and res and res[0] == b'status':
            if res[3] != len(jobs) or res[1] != len(srv) or res[2] != sum(d['cpus'] for d in srv.values()):
                vs.append('message %d: status %s but %d live jobs on %d servers' % (i, sx.dumps(res), len(jobs), len(srv)))
        if len(vs) > 6:
            break
        prev_jobs, prev_srv = jobs, srv
        inflight_prev = {e[0]: e[1] for e in fl_l}
    return vs


def nontrivial(case, out):
    """non-trivial: at least one job was recorded, or a message arrived inside an assignment window"""
    if case and case[0] == b'stress':
        return True
    try:
        for obs in out:
            if obs[4]:
                return True
        for m, obs in zip(case[1:], out):
            if obs[6] and m[0] != b'begin':
                return True
    except Exception:
        return True
    return False


def stats(case, out):
    if case and case[0] == b'stress':
        return ['real_thread_run']
    ks = ['len=%d' % min(len(case), 40)]
    try:
        win = False
        for m, obs in zip(case, out):
            ks.append('res=' + b'_'.join(x for x in obs[0][:2] if isinstance(x, bytes)).decode())
            if win and m[0] == b'hb' and obs[0] == [b'hb', 1]:
                ks.append('registration_inside_window')
            if win and m[0] == b'begin':
                ks.append('nested_window')
            win = bool(obs[6])
        ks.append('max_live=%d' % max(len(o[4]) for o in out))
    except Exception:
        pass
    return ks


def shrink(case):
    if case and case[0] == b'stress':
        return
    for i in range(len(case)):
        yield case[:i] + case[i + 1:]


def neighbours(case):
    if case and case[0] == b'stress':
        for c in STRESS_SEARCH:
            yield c
        return
    for i in range(1, len(case)):
        yield case[i:] + case[:i]
    for i, m in enumerate(case):
        if m[0] == b'upd':
            for st in STATES:
                yield case[:i] + [[b'upd', m[1], m[2], st]] + case[i + 1:]
            yield case[:i] + [[b'upd', m[1], 1 - m[2] if m[2] < 2 else 0, m[3]]] + case[i + 1:]
        if m[0] == b'hb':
            yield case[:i] + [[b'hb', m[1], m[2] + 1, m[3]]] + case[i + 1:]
        if m[0] == b'begin':
            yield case[:i + 1] + [[b'hb', 0, 9, 1], [b'hb', 1, 9, 1]] + case[i + 1:]
    # walk every job through its whole life at the end
    tail = []
    for j in range(4):
        for s in range(2):
            for st in STATES[1:]:
                tail.append([b'upd', j, s, st])
    yield case + tail + [[b'status']]


def classify(case, out, v):
    return None


def legs(tier):
    def gen(rng, tier):
        if tier == 'thorough':
            return ([STRESS_SMOKE['thorough']] + gen_exhaustive(FULL, 3) + gen_exhaustive(CORE[:-1], 5) + gen_tour(9, FULL, 10 ** 7)
                    + gen_random(rng, 30000, 40, 'mixed') + gen_random(rng, 15000, 60, 'capacity')
                    + gen_random(rng, 15000, 40, 'window') + gen_random(rng, 10000, 40, 'wide') + gen_guided(rng, 30000, 40))
        return ([STRESS_SMOKE['quick']] + gen_exhaustive(FULL, 3) + gen_exhaustive(CORE, 4) + gen_tour(7, FULL, 10 ** 7)
                + gen_random(rng, 8000, 30, 'mixed') + gen_random(rng, 4000, 50, 'capacity')
                + gen_random(rng, 4000, 30, 'window') + gen_random(rng, 2000, 30, 'wide') + gen_guided(rng, 6000, 30))
    return [Leg('sched', gen, monitor=monitor, nontrivial=nontrivial, shrink=shrink, neighbours=neighbours,
                classify=classify, stats=stats, impl_bin='c18', impl_args=['sched'],
                rule='EXHAUSTIVE: every sequence of 3 messages over the 31-message alphabet FULL (heartbeats of 2 servers '
                     'x 2 nonces, a zero-cpu one and one whose authorizer cannot create tokens, begin with both iteration orders, end_ok / end_fail for 2 jobs, '
                     'updates of 2 jobs from 2 servers with all 4 states, status), every sequence of 4 (thorough: 5) '
                     'messages over the 14 (13) message alphabet CORE; TRANSITION TOUR: every message of FULL from every '
                     'model state reachable within 7 (thorough 9) messages, along a shortest path, all intermediate '
                     'observations compared; PRNG sequences up to 60 messages on up to 3 servers (mixed, '
                     'capacity-saturating, registration-inside-window, many-core) and guided job-life walks; one REAL-THREAD '
                     'run (3-4 client threads allocating / failing / being overtaken by a re-registration and walking '
                     'their jobs to completion, 2-3 heartbeat+status threads, one scheduler, 2 s quick / 8 s thorough, '
                     'watchdog: no request completed for 5 s).  '
                     'non-trivial = a job was recorded or a message arrived inside an assignment window; '
                     'distinct by full case text')]


def extra(rep, known):
    """When the proof side no longer checks (a constant or table read by the translator changed, the model does not
    build, a theorem fails) the differential legs cannot run.  The property itself can still be evaluated on the
    real scheduler: run the implementation alone on the corpus and the generated cases and report the first input
    on which one of the five predicates fails."""
    broken = [o for o in rep.obligations if not o[1] and o[0].split(':')[0] in ('coq', 'translate', 'theorem', 'extract', 'pinned-theorems-present')]
    if not broken or not os.path.exists(pipeline.repo_bin('sccache-dist')):
        return
    from ..prng import Rng
    rng = Rng(rep.seed).fork(ID + ':impl-only')
    cases = (STRESS_SEARCH + pipeline.corpus_cases(ID, 'sched') + gen_exhaustive(CORE, 4)
             + gen_random(rng, 6000, 60, 'capacity') + gen_random(rng, 3000, 40, 'wide') + gen_random(rng, 4000, 30, 'mixed')
             + gen_random(rng, 3000, 30, 'window') + gen_guided(rng, 4000, 30))
    outs = pipeline.run_sharded([pipeline.repo_bin('sccache-dist'), '__verif_sched'], [sx.dumps(c) for c in cases])
    n = 0
    for c, o in zip(cases, outs):
        rep.evaluations += 1
        vs = monitor(c, pipeline.parse_out(o))
        if vs:
            n += 1
            if n <= 3:
                small = c
                # greedy shrink on the implementation alone
                for _ in range(60):
                    cands = list(shrink(small))
                    os_ = pipeline.run_sharded([pipeline.repo_bin('sccache-dist'), '__verif_sched'], [sx.dumps(x) for x in cands])
                    nxt = next((x for x, y in zip(cands, os_) if monitor(x, pipeline.parse_out(y))), None)
                    if nxt is None:
                        break
                    small = nxt
                o2 = pipeline.run_sharded([pipeline.repo_bin('sccache-dist'), '__verif_sched'], [sx.dumps(small)])
                rep.violation('property', 'sched', small,
                              monitor(small, pipeline.parse_out(o2[0]))[0] + ' (found on the implementation alone after: %s)' % broken[0][0])
    rep.legs['impl-only'] = dict(cases=len(cases), violations=n)
    pipeline.log('impl-only search after a broken proof obligation: %d cases, %d violate the property' % (len(cases), n))


def prebuild(rep):
    ok, out = pipeline.build_repo_bins(REPO_BINS, features='dist-server')
    rep.oblige('build:sccache-dist (hooked, --features dist-server)', ok, out[-3000:] if not ok else 'cargo build --offline --cfg sccache_verif')


def translate(rep):
    from translator import c18_consts
    try:
        d = c18_consts.write(pipeline.REPO, pipeline.COQ)
        rep.oblige('translate:c18_consts', True, repr(d))
    except Exception as e:  # unrecognisable source = broken obligation (the stale Gen file is kept)
        rep.oblige('translate:c18_consts', False, repr(e))
    try:
        d = c18_consts.write_locks(pipeline.REPO, pipeline.COQ)
        rep.oblige('translate:c18_locks', True, repr(d)[:600])
    except Exception as e:
        rep.oblige('translate:c18_locks', False, repr(e))
