"""C05 — wrapped rustc compiles are identical to direct ones and keyed on all inputs (partial: rustc unmodelled)."""
import importlib.util
import os
import subprocess

from .. import pipeline, sx
from ..pipeline import Leg

ID = 'C05'
HARNESS_BIN = 'c05'
RUN_MODULE = 'Run.C05'
REPO_BINS = ['sccache']
THEOREMS = ['C05_spec_ok', 'C05_depinfo_roundtrip', 'C05_depinfo_lossless', 'C05_envdep_roundtrip', 'C05_envdep_determines',
            'C05_envdep_old_refuted', 'C05_key_injective_modulo_arg_concat', 'C05_arg_concat_refuted', 'C05_arg_string_is_concat',
            'C05_args_injective_guarded',
            'C05_order_insensitive', 'C05_excluded_args_unhashed', 'C05_shape_table', 'C05_shape_table_ok_iff',
            'C05_accepted_shape', 'C05_staticlibs_lookup', 'C05_staticlib_search_order', 'C05_staticlib_alt_spelling_refuted',
            'C05_staticlib_modifier_hashed', 'C05_compile_command_colour', 'C05_sysroot_libs_complete',
            'C05_depinfo_every_listed_source', 'C05_depinfo_run_sees_request', 'C05_archive_members_all_hashed', 'C05_extern_order_insensitive']
ASSUMPTIONS = [
    'sccache is REQUIRED to re-read every input file (sources, included files, --extern rlibs, static libraries, target json) on every request: a replacement with the same path, size and modification time must still be seen (monitored in-process by keypair same_stamp and end to end by the sm_* steps; no theorem depends on file metadata)',
    'named assumption about rustc (observed with rustc 1.95, unix target): for `-l static[:modifiers]=NAME` the archive bundled is libNAME.a from the FIRST of the `-L native=DIR` / `-L all=DIR` / `-L DIR` directories, in command-line order, that contains it (Model/RustArgs.v rustc_static_pick)',
    'rustc itself is not modelled: that equal inputs give equal rustc outputs is sampled by the e2e leg with rustc 1.95, not proved',
    'BLAKE3 is collision-free on the pre-images compared (the theorems are about the pre-image, the byte string fed to the digest)',
    'file digests are 64 lower-case hex characters (util::hex of a BLAKE3 output); lengths are < 2^56; arguments, variable names and values contain no NUL byte (argv / envp are C strings)',
    'dep-info text and arguments are valid UTF-8 (read_to_string / to_string_lossy are the identity there)',
    'the last two components (working directory through std Hash for Path, `rustc -vV` through Hash for str) are treated as one opaque tail: Hash for Path is not an injective encoding',
    '`--target X` with X.json present in the SERVER\'s working directory (ArgTarget::Unsure) is not modelled',
    'the hashed arguments are concatenated without a delimiter (finding C05-S22, open): the key determines their concatenation only; per-argument injectivity is proved under the guard "same piece lengths"',
]
TRUSTED = [
    'hooks: compiler::rust::{verif_parse_dep_info, verif_parse_env_dep_info, verif_parse_arguments, Rust::verif_new, VERIF_CACHE_VERSION}; util::VERIF_DIGEST_TRACE (thread-local copy of every Digest::update input: the key pre-image of the REAL generate_hash_key)',
    'translator/c05_hashspec.py (order and constants of the hashed components) and translator/c05_argtable.py (rustc ARGS table); both raise on unrecognised syntax',
    'std semantics relied on by rust.rs (str::lines, PathBuf::join, Ord/Hash for Path, Hash for OsStr/str through a write-only Hasher) are modelled in Model/RustPath.v and compared with the real std by the stdhash/depinfo legs',
    'e2e: real sccache server + rustc 1.95 from the installed toolchain; e2e/c05_rustc.py',
]

VCWD = b'/@'

# ------------------------------------------------------------------------------------------------ std paths in python
# (an independent re-implementation used only by the monitors)


def components(p):
    if not p:
        return []
    out = []
    if p[:1] == b'/':
        out.append((1, b''))
        segs = p[1:].split(b'/')
    else:
        segs = p.split(b'/')
        if segs[0] == b'.':
            out.append((2, b''))
            segs = segs[1:]
    for s in segs:
        if s in (b'', b'.'):
            continue
        out.append((3, b'') if s == b'..' else (4, s))
    return out


def path_join(base, p):
    if p[:1] == b'/':
        return p
    if not base:
        return p
    return base + p if base.endswith(b'/') else base + b'/' + p


# ------------------------------------------------------------------------------------------------ rustc's dep-info text

def esc_name(s):
    return s.replace(b' ', b'\\ ')


def esc_env(s):
    return s.replace(b'\\', b'\\\\').replace(b'\n', b'\\n').replace(b'\r', b'\\r')


def print_dep_info(targets, fs, envs):
    out = b''
    for t in targets:
        out += esc_name(t) + b': ' + b' '.join(esc_name(f) for f in fs) + b'\n\n'
    for f in fs:
        out += esc_name(f) + b':\n'
    if envs:
        out += b'\n'
        for k, v in envs:
            out += b'# env-dep:' + esc_env(k) + (b'=' + esc_env(v) if v is not None else b'') + b'\n'
    return out


NAMES = [b'src/lib.rs', b'src/a.rs', b'a b.rs', b'dir with space/x y.rs', b'b\\c.rs', b'x\\ y', b'\xc3\xa9.rs', b'/abs/p.rs',
         b'./x.rs', b'x//y.rs', b'a/./b.rs', b'../up.rs', b'a:b', b'c: d', b'z', b'a.b', b'a/b', b'a', b'#', b'# env-dep:X',
         b'src/m/inner.rs', b'/@/q.rs', b'tab\there', b'end:', b'.', b'..hidden', b'dot.', b'-dash',
         b'assets/plugin.so', b'deps/libx.rlib', b'deps/libx.rmeta', b'a.dll', b'a.dylib', b'noext', b'so', b'x.so.1', b'.so']
BAD_NAMES = [b'', b'trailing\\', b'cr\r', b'nl\nx']
CWDS = [b'/cwd', b'/c/d/', b'/', b'', b'rel', b'/@']
ENVS = [(b'VV', None), (b'VV', b''), (b'VV', b'x'), (b'CARGO_PKG_VERSION', b'0.1.0'), (b'A', b'b=c'), (b'W', b'line1\nline2'),
        (b'BS', b'a\\b'), (b'CRV', b'x\r'), (b'U', None), (b'E', b'='), (b'\xc3\xa9', b'\xc3\xa9'), (b'V', None), (b'V', b'')]


def gen_depinfo(rng, n):
    out = []
    # structured, as rustc prints them
    for _ in range(n):
        k = rng.weighted([(0, 1), (1, 4), (2, 4), (3, 4), (6, 2)])
        fs = [rng.choice(NAMES) for _ in range(k)]
        if rng.chance(1, 8):
            fs.insert(rng.below(len(fs) + 1), rng.choice(BAD_NAMES))
        targets = [rng.choice([b'out/foo.d', b'/t/de ps/libfoo.rlib', b'out/lib: x.rmeta', b'o:ut/x'])
                   for _ in range(rng.range(1, 3))]
        envs = [rng.choice(ENVS) for _ in range(rng.weighted([(0, 3), (1, 3), (2, 2), (4, 1)]))]
        text = print_dep_info(targets, fs, envs)
        wf = all(f not in BAD_NAMES for f in fs)
        mut = rng.weighted([('none', 8), ('crlf', 1), ('nonl', 1), ('junk', 2)])
        if mut == 'crlf':
            text = text.replace(b'\n', b'\r\n')
            wf = False
        elif mut == 'nonl':
            text = text.rstrip(b'\n')
            wf = wf and len(targets) == 1 and not fs and not envs and False
        elif mut == 'junk':
            pos = rng.below(len(text) + 1)
            text = text[:pos] + rng.choice([b':', b' ', b'\\', b'\n', b': ', b'\\ ', b'\r', b'#', b'=']) + text[pos:]
            wf = False
        out.append([text, rng.choice(CWDS), [b'wf', fs] if wf else []])
    # byte soup over the delimiter alphabet
    alpha = [b'a', b'b', b' ', b':', b'\\', b'\n', b'\r', b'/', b'.', b': ', b'\\ ']
    for _ in range(n // 2):
        text = b''.join(rng.choice(alpha) for _ in range(rng.range(0, 24)))
        out.append([text, rng.choice(CWDS), []])
    return out


def mon_depinfo(case, out):
    text, cwd, meta = case
    vs = []
    if not isinstance(out, list):
        return ['malformed output']
    if out and out[0] == b'panic':
        return ['parse_dep_info panicked']
    # sorted by Ord for Path
    keys = [components(p) for p in out]
    if any(keys[i] > keys[i + 1] for i in range(len(keys) - 1)):
        vs.append('result is not sorted by path')
    if meta:
        fs = meta[1]
        want = sorted(path_join(cwd, f) for f in fs)
        if sorted(out) != want:
            vs.append('dep-info as rustc prints it is not read back losslessly: files %r, parsed %r' % (fs, out))
    return vs


def gen_envdep(rng, n):
    out = []
    pre_pool = [b'out/foo.d: src/lib.rs a\\ b.rs\n\n', b'src/lib.rs:\n', b'#\\ env-dep:X: y\n\n', b'', b'# not-env\n', b'#env-dep:Q\n']
    for _ in range(n):
        envs = [rng.choice(ENVS) for _ in range(rng.weighted([(0, 1), (1, 4), (2, 4), (3, 2), (5, 1)]))]
        pre = b''.join(rng.choice(pre_pool) for _ in range(rng.range(0, 3)))
        text = pre + b''.join(b'# env-dep:' + esc_env(k) + (b'=' + esc_env(v) if v is not None else b'') + b'\n' for k, v in envs)
        meta = [b'wf', [[k, [v] if v is not None else []] for k, v in envs]]
        mut = rng.weighted([('none', 8), ('crlf', 1), ('nonl', 1), ('junk', 2)])
        if mut == 'crlf':
            text = text.replace(b'\n', b'\r\n')
        elif mut == 'nonl':
            text = text.rstrip(b'\n')
            if envs and envs[-1][1] is not None and envs[-1][1].endswith(b'\r'):
                meta = []
        elif mut == 'junk':
            pos = rng.below(len(text) + 1)
            text = text[:pos] + rng.choice([b'=', b'\n', b'#', b' ', b'\r', b'# env-dep:', b':']) + text[pos:]
            meta = []
        out.append([text, meta])
    return out


def mon_envdep(case, out):
    text, meta = case
    if not isinstance(out, list):
        return ['malformed output']
    if out and out[0] == b'panic':
        return ['parse_env_dep_info panicked']
    vs = []
    if meta:
        want = [[esc_env(k), [esc_env(v[0])] if v else []] for k, v in meta[1]]
        if out != want:
            vs.append('env-deps as rustc prints them are not read back exactly (unset must stay different from empty): '
                      'printed %r, parsed %r' % (meta[1], out))
    return vs


# ------------------------------------------------------------------------------------------------ stdhash

PATHS = [b'', b'/', b'.', b'..', b'/tmp/wt', b'/tmp//wt/', b'/tmp/./wt/.', b'./a', b'a/./b', b'a/../b', b'a/b/', b'//a', b'a',
         b'ab/c', b'a/bc', b'/a.b', b'/a/b', b'/dev/shm/vh-c05-xyz', b'\xc3\xa9/\xff', b'a/.', b'./', b'/.', b'/..', b'.a', b'a.',
         b'/./a', b'.//a', b'././a']


def gen_stdhash(rng, n):
    out = []
    for p in PATHS:
        out.append([b'path', p])
        for q in PATHS:
            out.append([b'pathcmp', p, q])
    for s in [b'', b'a', b'abc', b'rustc 1.95.0 (59807616e 2026-04-14)\nbinary: rustc\n', b'x' * 300]:
        out.append([b'os', s])
        out.append([b'str', s])
    seg = [b'a', b'b', b'.', b'..', b'', b'ab', b'x.y', b'long-component-name']
    for _ in range(n):
        p = (b'/' if rng.chance(1, 2) else b'') + b'/'.join(rng.choice(seg) for _ in range(rng.range(0, 6)))
        q = (b'/' if rng.chance(1, 2) else b'') + b'/'.join(rng.choice(seg) for _ in range(rng.range(0, 6)))
        out.append([b'path', p])
        out.append([b'pathcmp', p, q])
        out.append([b'os', rng.bytes(rng.range(0, 40))])
    return out


# ------------------------------------------------------------------------------------------------ args

BASE_ARGV = [b'--crate-name', b'foo', b'--edition=2021', b'src/lib.rs', b'--crate-type', b'lib',
             b'--emit=dep-info,metadata,link', b'-C', b'opt-level=3', b'-C', b'metadata=abc', b'-C', b'extra-filename=-abc',
             b'--out-dir', b'/t/deps', b'-L', b'dependency=/t/deps', b'--extern', b'bar=/t/deps/libbar.rlib',
             b'--cfg', b'feature="a"', b'--cap-lints', b'allow']

ARG_SNIPPETS = [
    [b'--crate-type', b'bin'], [b'--crate-type', b'dylib'], [b'--crate-type', b'cdylib,rlib'], [b'--crate-type', b'proc-macro'],
    [b'--crate-type', b'staticlib'], [b'--crate-type=rlib,lib,staticlib'], [b'--crate-type', b'rlib,bin,dylib'], [b'--crate-type', b''],
    [b'--emit', b'link'], [b'--emit=metadata'], [b'--emit=dep-info'], [b'--emit', b'asm'], [b'--emit=link,llvm-ir'], [b'--emit='],
    [b'--emit=link,link'], [b'-o', b'x'], [b'-ofoo'], [b'-'], [b'--sysroot', b'/s'], [b'--sysroot=/s'], [b'--help'], [b'-V'], [b'--version'],
    [b'--print', b'cfg'], [b'--print=sysroot'], [b'--explain', b'E0001'], [b'--pretty=expanded'], [b'--unpretty', b'hir'],
    [b'-C', b'incremental=/t/inc'], [b'-Cincremental=x'], [b'--codegen', b'incremental=y'], [b'--codegen=incremental'],
    [b'-C', b'extra-filename'], [b'-C', b'extra-filename=-x'], [b'-C', b'profile-use=p.profdata'], [b'-C', b'profile-use'],
    [b'-C'], [b'-Z', b'profile'], [b'-Zprofile=yes'], [b'-Z', b'profile=no'], [b'-Zunstable-options'],
    [b'other.rs'], [b'--color=always'], [b'--color', b'never'], [b'--color=weird'], [b'--json=diagnostic-rendered-ansi'],
    [b'--error-format=json'], [b'-l', b'static=foo'], [b'-lstatic=bar'], [b'-l', b'foo'], [b'-l', b'dylib=z'], [b'-L', b'native=libs'],
    [b'-Lall=libs2'], [b'-L', b'libs3'], [b'-L', b'crate=c'], [b'-L', b'framework=f'], [b'--target', b'x86_64-unknown-linux-gnu'],
    [b'--target=spec.json'], [b'--target', b'dir/.json'], [b'--target', b't.json/'], [b'--extern', b'noeq'], [b'--extern=q=libs/libq.rlib'],
    [b'--externfoo'], [b'--cfg=x'], [b'--cfgx'], [b'--cfg', b'y'], [b'-A', b'warnings'], [b'-Awarnings'], [b'-W', b'x'], [b'-D', b'x'],
    [b'-F', b'x'], [b'--warn=x'], [b'--allow', b'x'], [b'--deny=x'], [b'--forbid', b'x'], [b'--check-cfg', b'cfg(a)'],
    [b'--remap-path-prefix', b'/a=/b'], [b'--unknown'], [b'--edition', b'2018'], [b'-g'], [b'-O'], [b'--test'], [b'--cap-lints=warn'],
    [b'--crate-name=bar'], [b'--out-dir=rel/out'], [b'--extern'], [b'--emit'], [b'--crate-name'], [b'-L'], [b'-l'], [b'--cfg'],
    [b'\xc3\xa9.rs'], [b'--cfg', b'feature="\xc3\xa9"'], [b'-C', b'metadata=a-Cmetadata=b'], [b'--json', b'artifacts'],
]
ARG_FILES = [[b'libs/libfoo.a', b''], [b'libs/foo.lib', b''], [b'libs2/foo.a', b''], [b'libs2/libbar.a', b''], [b'libs3/bar.lib', b''],
             [b'spec.json', b'{}']]


def gen_argv(rng):
    argv = list(BASE_ARGV)
    mode = rng.weighted([('base', 1), ('mut', 8), ('small', 2)])
    if mode == 'small':
        argv = []
        for _ in range(rng.range(0, 5)):
            argv += rng.choice(ARG_SNIPPETS + [[b'--crate-name', b'foo'], [b'src/lib.rs'], [b'--crate-type', b'lib'],
                                               [b'--emit=link'], [b'--out-dir', b'out']])
        return argv
    if mode == 'mut':
        for _ in range(rng.range(1, 4)):
            k = rng.weighted([('add', 6), ('drop', 3), ('swap', 1), ('dup', 1)])
            if k == 'add':
                pos = rng.below(len(argv) + 1)
                argv[pos:pos] = rng.choice(ARG_SNIPPETS)
            elif k == 'drop' and argv:
                # drop a flag together with its value where that is the shape
                i = rng.below(len(argv))
                if argv[i] in (b'--crate-name', b'--crate-type', b'-C', b'--out-dir', b'-L', b'--extern', b'--cfg', b'--cap-lints') and rng.chance(3, 4):
                    del argv[i:i + 2]
                else:
                    del argv[i]
            elif k == 'swap' and len(argv) > 1:
                i, j = rng.below(len(argv)), rng.below(len(argv))
                argv[i], argv[j] = argv[j], argv[i]
            elif k == 'dup' and argv:
                i = rng.below(len(argv))
                argv.insert(i, argv[i])
    return argv


def gen_args(rng, n):
    out = [[list(BASE_ARGV), []]]
    for e in ([b'--extern', b'ua=pkg_b/libutil.rlib', b'--extern', b'ub=pkg_a/libutil.rlib'], [b'--extern', b'ub=pkg_a/libutil.rlib', b'--extern', b'ua=pkg_b/libutil.rlib'],
              [b'--extern=x=z/libq.rlib', b'--extern', b'y=a/b/libq.rlib', b'--extern', b'w=a/libq.rlib']):
        out.append([list(BASE_ARGV) + e, []])
    for s in ARG_SNIPPETS:
        out.append([list(BASE_ARGV) + s, ARG_FILES])
        out.append([s + list(BASE_ARGV), ARG_FILES])
    for _ in range(n):
        files = [f for f in ARG_FILES if rng.chance(2, 3)]
        out.append([gen_argv(rng), files])
    return out


def pairs_of(out):
    return [(p[0], p[1][0] if p[1] else None) for p in out[1]]


def mon_args(case, out):
    """C05_shape_table on the real parse_arguments: a request is accepted for caching only in the cacheable shape."""
    if not isinstance(out, list) or not out:
        return ['malformed output']
    if out[0] == b'panic':
        return ['parse_arguments panicked: %r' % out[1][:200]]
    vs = []
    if out[0] == b'ok':
        pairs = pairs_of(out)
        emit = out[11]
        rlib, static = out[7]
        ctypes = []
        for a, v in pairs:
            if a == b'--crate-type' and v is not None:
                ctypes += v.split(b',')
        if not (rlib or static):
            vs.append('accepted without a library crate type')
        if any(t not in (b'rlib', b'staticlib') for t in ctypes):
            vs.append('accepted with a crate type other than rlib/staticlib: %r' % ctypes)
        if not emit or any(e not in (b'link', b'metadata', b'dep-info') for e in emit):
            vs.append('accepted with --emit %r' % emit)
        if b'link' not in emit and b'metadata' not in emit:
            vs.append('accepted although neither link nor metadata is emitted')
        if not any(a == b'--out-dir' for a, _ in pairs):
            vs.append('accepted without --out-dir')
        if not any(a == b'--crate-name' for a, _ in pairs):
            vs.append('accepted without --crate-name')
        for a, v in pairs:
            if a in (b'-C', b'--codegen') and v is not None and v.split(b'=')[0] == b'incremental':
                vs.append('accepted with incremental compilation')
            if a in (b'-o', b'--sysroot', b'-'):
                vs.append('accepted with %r' % a)
            if a == b'--color':
                vs.append('--color kept in the argument list')
        raws = [a for a, v in pairs if v is None and not a.startswith(b'-')]
        if len(raws) != 1:
            vs.append('accepted with %d input files' % len(raws))
        # externs sorted
        ek = [components(e) for e in out[3]]
        if any(ek[i] > ek[i + 1] for i in range(len(ek) - 1)):
            vs.append('externs not sorted')
    return vs


def stats_args(case, out):
    try:
        if out[0] == b'ok':
            return ['ok']
        if out[0] == b'cannot_cache':
            return ['cannot_cache:' + out[1].decode('utf-8', 'replace')]
        return [out[0].decode()]
    except Exception:
        return ['malformed']


# ------------------------------------------------------------------------------------------------ staticlib
# which archive is hashed for `-l static=NAME`, against rustc's search order (first -L native=/all=/plain directory in
# COMMAND-LINE order that holds libNAME.a; observed with rustc 1.95, see Model/RustArgs.v rustc_static_pick)

SL_DIRS = [b'zz_own', b'aa_fallback', b'mm/third', b'own', b'fallback', b'Zcap', b'a']
SL_NAMES = [b'foo', b'bar']
SL_MIN_ARGV = [b'--crate-name', b'usesfoo', b'--edition=2021', b'src/lib.rs', b'--crate-type', b'lib',
               b'--emit=dep-info,metadata,link', b'--out-dir', b'out']


def gen_staticlib(rng, n):
    out = []
    for _ in range(n):
        mode = rng.weighted([('plain', 8), ('alt', 1), ('modifier', 1)])
        dirs = rng.shuffle(SL_DIRS)[:rng.range(1, 4)]
        if rng.chance(1, 6):
            dirs.append(rng.choice(dirs))            # the same directory twice
        files = []
        dir_specs = []
        for d in dirs:
            kind = rng.weighted([(b'native', 6), (b'all', 2), (None, 2), (b'dependency', 1), (b'crate', 1), (b'framework', 1)])
            dir_specs.append([d, kind if kind is not None else b'-'])
            for nm in SL_NAMES:
                if rng.chance(3, 5):
                    files.append(d + b'/lib' + nm + b'.a')
                if mode == 'alt' and rng.chance(1, 3):
                    files.append(d + b'/' + nm + rng.choice([b'.lib', b'.a']))
        libs = []
        for _ in range(rng.range(1, 3)):
            kind = rng.weighted([(b'static', 7), (b'dylib', 1), (None, 1)])
            if mode == 'modifier' and rng.chance(1, 2):
                kind = rng.choice([b'static:+whole-archive', b'static:-bundle', b'static:+whole-archive,-bundle'])
            libs.append([kind if kind is not None else b'-', rng.choice(SL_NAMES)])
        extra = []
        for d, kind in dir_specs:
            v = d if kind == b'-' else kind + b'=' + d
            extra.append([b'-L' + v] if rng.chance(1, 4) else [b'-L', v])
        for kind, nm in libs:
            v = nm if kind == b'-' else kind + b'=' + nm
            extra.append([b'-l' + v] if rng.chance(1, 4) else [b'-l', v])
        # -l before/after -L in any interleaving, but the -L among themselves stay in the generated order
        ls = [e for e in extra if e[0].startswith(b'-l')]
        Ls = [e for e in extra if e[0].startswith(b'-L')]
        merged = []
        while ls or Ls:
            src = ls if (ls and (not Ls or rng.chance(1, 2))) else Ls
            merged += src.pop(0)
        pos = rng.below(len(SL_MIN_ARGV) + 1)
        if pos in (1, 5, 8):           # never between a flag and its value
            pos += 1
        argv = SL_MIN_ARGV[:pos] + merged + SL_MIN_ARGV[pos:]
        out.append([argv, [[f, b''] for f in sorted(set(files))], [dir_specs, libs]])
    return out


def rustc_pick(dir_specs, files, name):
    for i, (d, kind) in enumerate(dir_specs):
        if kind in (b'native', b'all', b'-') and (d + b'/lib' + name + b'.a') in files:
            return i
    return None


def staticlib_problems(case, out):
    """(class, text) for every `-l static[:modifiers]=NAME` whose archive (rustc's pick) is not among the hashed files"""
    res = []
    if not isinstance(out, list) or not out or out[0] != b'ok':
        return res
    dir_specs, libs = case[2]
    files = set(f[0] for f in case[1])
    hashed = [components(p) for p in out[5]]
    for kind, nm in libs:
        if not (kind == b'static' or kind.startswith(b'static:')):
            continue
        idx = rustc_pick(dir_specs, files, nm)
        if idx is None:
            continue
        d = dir_specs[idx][0]
        want = components(VCWD + b'/' + d + b'/lib' + nm + b'.a')
        if want in hashed:
            continue
        # (a kind with modifiers, `static:+whole-archive`, is looked up like `static` since the fix of C05-S24)
        # a directory at or before rustc's pick holds NAME.lib / NAME.a and THAT file was hashed instead
        alts = [components(VCWD + b'/' + dd + b'/' + nm + ext) for dd, kk in dir_specs[:idx + 1]
                if kk in (b'native', b'all', b'-') for ext in (b'.lib', b'.a') if (dd + b'/' + nm + ext) in files]
        cls = 'C05-S23' if any(a in hashed for a in alts) else None
        res.append((cls, 'rustc bundles %s/lib%s.a for `-l %s=%s` (first -L native/all directory in command-line order %r) but the files hashed '
                         'are %r' % (d.decode(), nm.decode(), kind.decode(), nm.decode(), [x[0] for x in dir_specs], out[5])))
    return res


def mon_staticlib(case, out):
    return mon_args(case[:2], out) + [t for _, t in staticlib_problems(case, out)]


def classify_staticlib(case, out, v):
    for cls, t in staticlib_problems(case, out):
        if t == v:
            return cls
    return None


# ------------------------------------------------------------------------------------------------ key / keypair

CONTENTS = [b'', b'pub fn f() {}\n', b'pub fn f() { }\n', b'mod a;\n', b'x', b'{"llvm-target": "x"}', b'{"llvm-target": "y"}',
            b'rlib-v1', b'rlib-v2', b'data1', b'data2', b'pub fn g() {}\n', b'mod b;\n',
            b'line1\nline2\n', b'line1\r\nline2\r\n', b'line1\r\nline2\n', b'pub fn f() {}\r\n']
_DIGESTS = {}


def ar_archive(members):
    out = b'!<arch>\n'
    for name, data in members:
        hdr = (name + b'/').ljust(16) + b'0'.ljust(12) + b'0'.ljust(6) + b'0'.ljust(6) + b'644'.ljust(8) + str(len(data)).encode().ljust(10) + b'`\n'
        out += hdr + data + (b'\n' if len(data) % 2 else b'')
    return out


ARCHIVES = [ar_archive([(b'a.o', b'AAAA')]), ar_archive([(b'a.o', b'AAAB')]), ar_archive([(b'a.o', b'AAAA'), (b'b.o', b'B')]),
            ar_archive([(b'util.o', b'AAAA'), (b'util.o', b'BBBB'), (b'z.o', b'Z')]),
            ar_archive([(b'util.o', b'AAAC'), (b'util.o', b'BBBB'), (b'z.o', b'Z')]),
            ar_archive([(b'util.o', b'BBBB'), (b'util.o', b'AAAA'), (b'z.o', b'Z')])]


def digests():
    """content -> (digest, archive digest or None), computed by the REAL hashing functions (harness leg `digest`)"""
    if _DIGESTS:
        return _DIGESTS
    exe = pipeline.harness_bin(HARNESS_BIN)
    items = [(c, False) for c in CONTENTS + ARCHIVES] + [(c, True) for c in ARCHIVES]
    lines = '\n'.join(sx.dumps([c, 1 if a else 0]) for c, a in items) + '\n'
    p = subprocess.run([exe, 'digest'], input=lines.encode(), stdout=subprocess.PIPE, timeout=300)
    outs = p.stdout.decode().split('\n')
    for (c, a), o in zip(items, outs):
        r = sx.loads(o)
        d = r[0] if r else None
        cur = _DIGESTS.get(c, (None, None))
        _DIGESTS[c] = (cur[0], d) if a else (d, cur[1])
    return _DIGESTS


def vfile(rel, content):
    d, ad = digests()[content]
    return [rel, content, d, [ad] if ad else []]


ENVDEP_NAMES = [b'VV', b'OUT_DIR', b'CARGO_PKG_NAME', b'CARGO_MANIFEST_DIR', b'CARGO_REGISTRIES_MIRROR_INDEX', b'CARGO_REGISTRIES_X_TOKEN',
                b'CARGO_MAKEFLAGS', b'CARGO_MAKEFLAGS_X', b'CARGO_', b'CARGO', b'RUSTC_COLOR', b'cargo_lower']

# (class, first, second, may the key stay the same when they are swapped?)
ARG_PERMS = [
    ('lint-short', [b'-D', b'unused_variables'], [b'-A', b'unused_variables'], False),
    ('lint-short', [b'-W', b'unused'], [b'-A', b'unused_variables'], False),
    ('lint-short', [b'-F', b'x'], [b'-W', b'y'], False),
    ('lint-joined', [b'-Dwarnings'], [b'-Awarnings'], False),
    ('lint-long', [b'--deny', b'unused_variables'], [b'--allow', b'unused_variables'], False),
    ('lint-long', [b'--warn=unused'], [b'--forbid=unsafe_code'], False),
    ('lint-mixed', [b'--deny', b'x'], [b'-A', b'x'], False),
    ('cap-lints', [b'--cap-lints', b'allow'], [b'--cap-lints', b'warn'], False),
    ('codegen', [b'-C', b'debuginfo=1'], [b'-C', b'debuginfo=2'], False),
    ('codegen', [b'-C', b'panic=abort'], [b'-C', b'codegen-units=1'], False),
    ('codegen-long', [b'--codegen', b'lto=off'], [b'-C', b'lto=thin'], False),
    ('unstable', [b'-Z', b'a'], [b'-Z', b'b'], False),
    ('unknown-flag', [b'--edition=2018'], [b'--edition=2021'], False),
    ('error-format', [b'--error-format=json'], [b'--json=artifacts'], False),
    ('remap', [b'--remap-path-prefix', b'/a=/b'], [b'--remap-path-prefix', b'/a=/c'], False),
    ('check-cfg', [b'--check-cfg', b'cfg(a)'], [b'--check-cfg', b'cfg(b)'], False),
    ('link-lib', [b'-l', b'dylib=z'], [b'-l', b'dylib=y'], False),
    ('cfg-vs-lint', [b'--cfg', b'q'], [b'-A', b'q'], True),
    ('cfg', [b'--cfg', b'p'], [b'--cfg', b'q'], True),
    ('cfg', [b'--cfg=p'], [b'--cfg', b'feature="z"'], True),
    ('L', [b'-L', b'dependency=d1'], [b'-L', b'dependency=d2'], True),
]


# partner content of the SAME byte length, per file class
SAME_SIZE = {} if len(CONTENTS) < 13 else {CONTENTS[1]: CONTENTS[11], CONTENTS[11]: CONTENTS[1], CONTENTS[3]: CONTENTS[12], CONTENTS[12]: CONTENTS[3],
             b'rlib-v1': b'rlib-v2', b'rlib-v2': b'rlib-v1', b'data1': b'data2', b'data2': b'data1',
             CONTENTS[5]: CONTENTS[6], CONTENTS[6]: CONTENTS[5]}


def base_request(rng):
    """a cacheable request: (argv, files, depinfo, env, shlibs, version, filenames) as python data"""
    src = [b'src/lib.rs', b'src/a.rs', b'src/sp ace.rs', b'data/d.txt']
    nsrc = rng.range(1, 4)
    srcs = src[:nsrc]
    files = {s: rng.choice(CONTENTS[:5]) for s in srcs}
    if rng.chance(1, 3):
        emb = rng.choice([b'assets/plugin.so', b'assets/blob.rlib', b'assets/meta.rmeta', b'assets/noext'])
        srcs = srcs + [emb]
        files[emb] = rng.choice([b'data1', b'data2'])
    argv = [b'--crate-name', b'foo', b'--edition=2021', b'src/lib.rs', b'--crate-type', rng.choice([b'lib', b'rlib', b'lib,staticlib']),
            b'--emit=' + rng.choice([b'dep-info,metadata,link', b'link', b'metadata,dep-info', b'dep-info,link']),
            b'-C', b'opt-level=3', b'--out-dir', rng.choice([b'out', b'/t/deps', b'out/']), b'--cfg', b'feature="b"', b'--cfg', b'zed',
            b'--cfg', b'feature="a"']
    if rng.chance(2, 3):
        argv += [b'-C', b'extra-filename=-abc']
    if rng.chance(2, 3):
        files[b'deps/libbar.rlib'] = b'rlib-v1'
        argv += [b'-L', b'dependency=deps', b'--extern', b'bar=deps/libbar.rlib']
        if rng.chance(1, 2):
            files[b'deps/libbaz.rlib'] = b'rlib-v2'
            argv += [b'--extern', b'baz=deps/libbaz.rlib']
    two_dirs = False
    if rng.chance(1, 3):
        files[b'libs/libnat.a'] = ARCHIVES[0]
        argv += [b'-L', b'native=libs', b'-l', b'static=nat']
    elif rng.chance(1, 2):
        # the same library in two search directories, named in an order that is not the sorted one
        two_dirs = True
        files[b'zz_own/libnat.a'] = ARCHIVES[0]
        files[b'aa_fallback/libnat.a'] = ARCHIVES[2]
        argv += [b'-l', b'static=nat', b'-L', b'native=zz_own', b'-L', rng.choice([b'native=aa_fallback', b'aa_fallback', b'all=aa_fallback'])]
    if rng.chance(1, 4):
        files[b'spec.json'] = CONTENTS[5]
        argv += [b'--target', b'spec.json']
    elif rng.chance(1, 3):
        argv += [b'--target', b'x86_64-unknown-linux-gnu']
    envdeps = []
    if rng.chance(2, 3):
        envdeps.append((b'VV', rng.choice([None, b'', b'x'])))
    if rng.chance(1, 2):
        envdeps.append((b'CARGO_PKG_VERSION', b'0.1.0'))
    env = [[b'CARGO_PKG_VERSION', b'0.1.0'], [b'PATH', b'/usr/bin'], [b'CARGO_PKG_NAME', b'foo'], [b'CARGO_MAKEFLAGS', b'-j --jobserver-fds=3,4'],
           [b'CARGO_REGISTRIES_X_TOKEN', b'secret'], [b'RUSTC_COLOR', b'1'], [b'CARGO', b'/c/cargo'], [b'HOME', b'/root']]
    env = rng.shuffle(env)[:rng.range(2, len(env))]
    return {'argv': argv, 'files': files, 'srcs': rng.shuffle(srcs), 'envdeps': envdeps, 'env': env,
            'shlibs': [digests()[b'x'][0]] if rng.chance(2, 3) else [digests()[b'x'][0], digests()[b''][0]],
            'version': b'rustc 1.95.0 (59807616e 2026-04-14)\nbinary: rustc\nhost: x86_64-unknown-linux-gnu\n',
            'filenames': [b'libfoo-abc.rlib'] if b'-C' in argv and b'extra-filename=-abc' in argv else [b'libfoo.rlib'],
            'depfail': False, 'two_dirs': two_dirs}


def encode_request(r):
    dep = [] if r['depfail'] else [print_dep_info([b'/tmp/sccacheXXXX/deps.d'], r['srcs'], r['envdeps'])]
    return [r['argv'], [vfile(k, v) for k, v in sorted(r['files'].items())], dep, r['env'], r['shlibs'], r['version'], r['filenames']]


def clone(r):
    return {k: (dict(v) if isinstance(v, dict) else list(v) if isinstance(v, list) else v) for k, v in r.items()}


def mutate(rng, r):
    """(label, expectation, mutated request); expectation 'diff' = one hashed input changed, 'same' = only unhashed /
    order-insensitive things changed, None = no claim"""
    m = clone(r)
    argv = m['argv']
    kinds = ['src_content', 'cfg_perm', 'add_cfg', 'opt_level', 'env_cargo', 'env_other', 'env_makeflags', 'version', 'shlib',
             'out_dir', 'envdep_unset_empty', 'envdep_value', 'add_source', 'arg_split', 'crate_name', 'env_perm', 'color', 'rustc_color']
    if b'--extern' in argv:
        kinds += ['extern_content', 'extern_perm', 'l_path']
    if b'static=nat' in argv and not r.get('two_dirs'):
        kinds += ['static_content']
    if r.get('two_dirs'):
        kinds += ['static_picked_content', 'static_picked_content', 'static_shadowed_content', 'static_dirs_swap', 'static_dirs_swap']
    kinds += ['envdep_class'] * 4 + ['arg_perm'] * 4 + ['same_stamp'] * 5 + ['content_swap'] * 4
    kinds += ['line_endings'] * 3 + ['colour'] * 3
    kinds += ['extern_same_name'] * 3 + ['archive_same_name_member'] * 3
    kinds += ['source_any_extension'] * 4
    if b'spec.json' in argv:
        kinds += ['target_content']
    k = rng.choice(kinds)
    exp = 'diff'
    if k == 'src_content':
        s = rng.choice(sorted(x for x in m['files'] if x in m['srcs']))
        m['files'][s] = rng.choice([c for c in CONTENTS[:5] if c != m['files'][s]])
    elif k == 'cfg_perm':
        idx = [i for i, a in enumerate(argv) if a == b'--cfg']
        vals = [argv[i + 1] for i in idx]
        vals = rng.shuffle(vals)
        for i, v in zip(idx, vals):
            argv[i + 1] = v
        exp = 'same'
    elif k == 'add_cfg':
        argv += [b'--cfg', b'extra']
    elif k == 'opt_level':
        i = argv.index(b'opt-level=3')
        argv[i] = b'opt-level=2'
    elif k == 'env_cargo':
        m['env'] = [kv for kv in m['env'] if kv[0] != b'CARGO_PKG_AUTHORS'] + [[b'CARGO_PKG_AUTHORS', b'me']]
    elif k == 'env_other':
        m['env'] = [kv for kv in m['env'] if kv[0] != b'LANG'] + [[b'LANG', b'C']]
        exp = 'same'
    elif k == 'env_makeflags':
        m['env'] = [kv for kv in m['env'] if kv[0] not in (b'CARGO_MAKEFLAGS', b'CARGO_REGISTRIES_Y_INDEX')] + \
                   [[b'CARGO_MAKEFLAGS', b'-j2'], [b'CARGO_REGISTRIES_Y_INDEX', b'u']]
        exp = 'same'
    elif k == 'rustc_color':
        m['env'] = [kv for kv in m['env'] if kv[0] != b'RUSTC_COLOR'] + [[b'RUSTC_COLOR', b'0']]
        exp = 'same'
    elif k == 'env_perm':
        m['env'] = rng.shuffle(m['env'])
        exp = 'same'
    elif k == 'version':
        m['version'] = m['version'].replace(b'1.95.0', b'1.96.0')
    elif k == 'shlib':
        m['shlibs'] = m['shlibs'] + [digests()[b'data1'][0]]
    elif k == 'out_dir':
        i = argv.index(b'--out-dir')
        argv[i + 1] = b'other/out'
        exp = 'same'
    elif k == 'color':
        argv += [b'--color=always']
        exp = 'same'
    elif k == 'envdep_unset_empty':
        r0 = clone(r)
        r0['envdeps'] = [(b'VV', None)] + [e for e in r0['envdeps'] if e[0] != b'VV']
        m['envdeps'] = [(b'VV', b'')] + [e for e in m['envdeps'] if e[0] != b'VV']
        return k, exp, r0, m
    elif k == 'envdep_value':
        m['envdeps'] = [e for e in m['envdeps'] if e[0] != b'W'] + [(b'W', b'1')]
        r0 = clone(r)
        r0['envdeps'] = [e for e in r0['envdeps'] if e[0] != b'W'] + [(b'W', b'2')]
        return k, exp, r0, m
    elif k == 'add_source':
        m['files'][b'src/extra.rs'] = CONTENTS[1]
        m['srcs'] = m['srcs'] + [b'src/extra.rs']
    elif k == 'arg_split':
        r0 = clone(r)
        r0['argv'] = r0['argv'] + [b'-C', b'metadata=a', b'-C', b'metadata=b']
        m['argv'] = argv + [b'-C', b'metadata=a-Cmetadata=b']
        return k, exp, r0, m
    elif k == 'crate_name':
        i = argv.index(b'--crate-name')
        argv[i + 1] = b'foo2'
    elif k == 'extern_content':
        m['files'][b'deps/libbar.rlib'] = b'rlib-v2' if m['files'][b'deps/libbar.rlib'] == b'rlib-v1' else b'data1'
    elif k == 'extern_perm':
        ext = [i for i, a in enumerate(argv) if a == b'--extern']
        if len(ext) == 2:
            argv[ext[0] + 1], argv[ext[1] + 1] = argv[ext[1] + 1], argv[ext[0] + 1]
        exp = 'same'
    elif k == 'l_path':
        argv += [b'-L', b'dependency=elsewhere']
        exp = 'same'
    elif k == 'static_content':
        m['files'][b'libs/libnat.a'] = ARCHIVES[1]
    elif k == 'static_picked_content':
        # the archive in the directory named FIRST on the command line is the one rustc bundles
        m['files'][b'zz_own/libnat.a'] = ARCHIVES[1]
    elif k == 'static_shadowed_content':
        m['files'][b'aa_fallback/libnat.a'] = ARCHIVES[1]
        exp = None                      # rustc does not read it: no claim
    elif k == 'static_dirs_swap':
        i = argv.index(b'native=zz_own')
        argv[i], argv[i + 2] = argv[i + 2], argv[i]
    elif k == 'source_any_extension':
        # a file rustc lists in dep-info (include_bytes!/include_str!) whose NAME looks like a library, an object, nothing:
        # it is a source of the crate like any other, an edit must change the key
        r0 = clone(r)
        f = rng.choice([b'assets/plugin.so', b'assets/blob.rlib', b'assets/meta.rmeta', b'assets/w.dll', b'assets/m.dylib', b'assets/noext',
                        b'assets/lib.a', b'assets/o.o', b'assets/x.so.1', b'assets/.so', b'assets/data.json'])
        r0['files'][f] = b'data1'
        r0['srcs'] = [x for x in r0['srcs'] if x != f] + [f]
        m = clone(r0)
        m['files'][f] = rng.choice([b'data2', CONTENTS[1]])
        return 'source_any_extension:' + f.rsplit(b'/', 1)[1].decode(), exp, r0, m
    elif k == 'extern_same_name':
        # two --extern files with the SAME file name in different directories, given in either order: one key
        r0 = clone(r)
        d1, d2 = rng.choice([(b'pkg_b', b'pkg_a'), (b'host/deps', b'deps'), (b'z', b'a/b')])
        r0['files'][d1 + b'/libutil.rlib'] = b'rlib-v1'
        r0['files'][d2 + b'/libutil.rlib'] = b'rlib-v2'
        e1, e2 = [b'--extern', b'ua=' + d1 + b'/libutil.rlib'], [b'--extern', b'ub=' + d2 + b'/libutil.rlib']
        m = clone(r0)
        r0['argv'] = argv + e1 + e2
        m['argv'] = argv + e2 + e1
        return 'extern_same_name', 'same', r0, m
    elif k == 'archive_same_name_member':
        # a static library with two members of one name (`ar q` of a/util.o and b/util.o): the earlier one is edited,
        # or the two are exchanged (the linker takes the first definition)
        r0 = clone(r)
        r0['files'][b'dup/libdupm.a'] = ARCHIVES[3]
        r0['argv'] = argv + [b'-L', b'native=dup', b'-l', b'static=dupm']
        m = clone(r0)
        m['files'][b'dup/libdupm.a'] = rng.choice([ARCHIVES[4], ARCHIVES[5]])
        return 'archive_same_name_member', exp, r0, m
    elif k == 'line_endings':
        # a file of the dep-info list changes ONLY in its line endings (LF <-> CRLF, all or some lines): other bytes, other key
        r0 = clone(r)
        f = rng.choice([b'data/notice.txt', b'src/a.rs'])
        lf, crlf = (CONTENTS[13], rng.choice([CONTENTS[14], CONTENTS[15]])) if f.endswith(b'.txt') else (CONTENTS[1], CONTENTS[16])
        r0['files'][f] = lf
        r0['srcs'] = [x for x in r0['srcs'] if x != f] + [f]
        m = clone(r0)
        m['files'][f] = crlf
        if rng.chance(1, 2):
            r0, m = m, r0
        return 'line_endings:' + ('included' if f.endswith(b'.txt') else 'module'), exp, r0, m
    elif k == 'colour':
        # --color is not part of the key (parse_arguments drops it), so it must not change what a miss compiles and stores
        r0 = clone(r)
        a, b = rng.choice([([], [b'--color', b'never']), ([b'--color=always'], [b'--color=never']), ([b'--color', b'never'], [b'--color', b'auto']),
                           ([], [b'--color=always']), ([b'--color=never'], [])])
        pos = argv.index(b'--out-dir')
        r0['argv'] = argv[:pos] + a + argv[pos:]
        m['argv'] = argv[:pos] + b + argv[pos:]
        return 'colour', 'same', r0, m
    elif k == 'same_stamp':
        # one input file of some class replaced by other content of the SAME size, with the SAME (old) mtime and path,
        # inside one process: the inputs must be re-read on every request
        r0 = clone(r)
        r0['files'][b'src/a.rs'] = CONTENTS[1]
        r0['files'][b'data/d.txt'] = b'data1'
        r0['srcs'] = [b'src/lib.rs', b'src/a.rs', b'data/d.txt']
        r0['files'].setdefault(b'src/lib.rs', CONTENTS[3])
        a0 = [x for x in r0['argv']]
        if b'--extern' not in a0:
            r0['files'][b'deps/libbar.rlib'] = b'rlib-v1'
            a0 += [b'-L', b'dependency=deps', b'--extern', b'bar=deps/libbar.rlib']
        if b'static=nat' not in a0:
            r0['files'][b'libs/libnat.a'] = ARCHIVES[0]
            a0 += [b'-L', b'native=libs', b'-l', b'static=nat']
        if not any(a.endswith(b'.json') for a in a0):
            if b'--target' in a0:
                i = a0.index(b'--target')
                del a0[i:i + 2]
            r0['files'][b'spec.json'] = CONTENTS[5]
            a0 += [b'--target', b'spec.json']
        r0['argv'] = a0
        m = clone(r0)
        cls = rng.choice(['source', 'included', 'extern', 'staticlib', 'target_json'])
        if cls == 'source':
            m['files'][b'src/a.rs'] = SAME_SIZE[r0['files'][b'src/a.rs']]
        elif cls == 'included':
            m['files'][b'data/d.txt'] = b'data2'
        elif cls == 'extern':
            ext = sorted(x for x in m['files'] if x.endswith(b'.rlib') and x.startswith(b'deps/'))[0]
            m['files'][ext] = SAME_SIZE.get(m['files'][ext], b'rlib-v2')
        elif cls == 'staticlib':
            lib = sorted(x for x in m['files'] if x.endswith(b'libnat.a'))
            if b'zz_own/libnat.a' in lib:
                lib = [b'zz_own/libnat.a']
            m['files'][lib[0]] = ARCHIVES[1] if m['files'][lib[0]] == ARCHIVES[0] else ARCHIVES[0]
        else:
            js = [a for a in m['argv'] if a.endswith(b'.json')][0]
            m['files'][js] = SAME_SIZE[m['files'][js]]
        return 'same_stamp:' + cls, exp, r0, m, b'keep_mtime'
    elif k == 'content_swap':
        # the contents of two files of one hashed group are EXCHANGED: same multiset of contents, other assignment
        r0 = clone(r)
        cls = rng.choice(['sources', 'externs'])
        if cls == 'sources':
            r0['files'][b'src/lib.rs'] = CONTENTS[3]
            r0['files'][b'src/a.rs'] = CONTENTS[1]
            r0['files'][b'src/b.rs'] = CONTENTS[2]
            r0['srcs'] = rng.shuffle([b'src/lib.rs', b'src/a.rs', b'src/b.rs'])
            m = clone(r0)
            x, y = rng.choice([(b'src/a.rs', b'src/b.rs'), (b'src/lib.rs', b'src/b.rs'), (b'src/lib.rs', b'src/a.rs')])
        else:
            a0 = [a for a in r0['argv']]
            for nm, c in ((b'bar', b'rlib-v1'), (b'baz', b'rlib-v2')):
                f = b'deps/lib' + nm + b'.rlib'
                r0['files'][f] = c
                if nm + b'=' + f not in a0:
                    a0 += [b'--extern', nm + b'=' + f]
            r0['argv'] = a0
            m = clone(r0)
            x, y = b'deps/libbar.rlib', b'deps/libbaz.rlib'
        m['files'][x], m['files'][y] = r0['files'][y], r0['files'][x]
        return 'content_swap:' + cls, exp, r0, m
    elif k == 'envdep_class':
        # a variable the crate reads through env!/option_env!, of every name class, changes: unset / empty / value
        name = rng.choice(ENVDEP_NAMES)
        v0, v1 = rng.choice([(None, b''), (None, b'v'), (b'', b'v'), (b'v', b'w'), (b'v', None), (b'', None)])
        r0 = clone(r)
        for req, val in ((r0, v0), (m, v1)):
            req['envdeps'] = [e for e in req['envdeps'] if e[0] != name] + [(name, val)]
            req['env'] = [kv for kv in req['env'] if kv[0] != name] + ([[name, val]] if val is not None else [])
        return 'envdep_class:' + name.decode(), exp, r0, m
    elif k == 'arg_perm':
        # two hashed arguments in swapped order: only --cfg (and the unhashed --extern / -L) may keep the key
        cls, a, b, same = rng.choice(ARG_PERMS)
        r0 = clone(r)
        pos = rng.choice([len(argv), argv.index(b'--out-dir')])
        r0['argv'] = argv[:pos] + a + b + argv[pos:]
        m['argv'] = argv[:pos] + b + a + argv[pos:]
        return 'arg_perm:' + cls, ('same' if same else 'diff'), r0, m
    elif k == 'target_content':
        m['files'][b'spec.json'] = CONTENTS[6]
    return k, exp, r, m


def gen_key(rng, n):
    out = []
    for _ in range(n):
        r = base_request(rng)
        w = rng.weighted([('ok', 10), ('depfail', 1), ('missing_src', 1), ('argmut', 4)])
        if w == 'depfail':
            r['depfail'] = True
        elif w == 'missing_src':
            r['srcs'] = r['srcs'] + [b'src/not_there.rs']
        elif w == 'argmut':
            pos = rng.below(len(r['argv']) + 1)
            r['argv'][pos:pos] = rng.choice(ARG_SNIPPETS)
        if rng.chance(1, 5):
            r['filenames'] = rng.choice([[b'libfoo.rlib', b'foo'], [b'libfoo.rlib', b'libfoo.a'], [], [b'libfoo.rmeta', b'libfoo.rlib'],
                                         [b'lib.rlib.rlib']])
        out.append(encode_request(r))
    return out


def gen_keypair(rng, n):
    out = []
    for _ in range(n):
        r = base_request(rng)
        res = mutate(rng, r)
        k, exp, a, b = res[:4]
        meta = [k.encode(), exp.encode() if exp else b'none'] + list(res[4:])
        out.append([encode_request(a), encode_request(b), meta])
    return out


CWD_SUBS = [b'one', b'two', b'a/b', b'a/c', b'one/.', b'one/', b'a//b', b'deep/er/dir', b'']


def gen_cwdpair(rng, n):
    out = []
    for _ in range(n):
        r = base_request(rng)
        r['argv'] = [a for a in r['argv']]
        remap = rng.choice([None, b'@P@=/x', b'@P@=/x', b'@P@/=/ws', b'@P@/one=/x', b'/unrelated=/y', b'@P@/a=/x'])
        if remap is not None:
            r['argv'] += ([b'--remap-path-prefix', remap] if rng.chance(1, 2) else [b'--remap-path-prefix=' + remap])
        a, b = rng.choice(CWD_SUBS), rng.choice(CWD_SUBS)
        if rng.chance(1, 6):
            b = a
        out.append([encode_request(r), a, b, [b'remap' if remap else b'plain']])
    return out


def mon_cwdpair(case, out):
    """the same request in two different directories (with or without --remap-path-prefix of a common ancestor) must
    get two keys; in one and the same directory one key"""
    if not isinstance(out, list) or len(out) != 3:
        return ['malformed output']
    if out[1] != 1 or out[2] != 1:
        return []
    same_dir = components(b'/p/' + case[1]) == components(b'/p/' + case[2])
    if out[0] == 1 and not same_dir:
        return ['one request compiled in the directories %r and %r under one parent (%s) got the same key'
                % (case[1], case[2], case[3][0].decode())]
    if out[0] != 1 and same_dir:
        return ['one request compiled twice in the same directory got two keys']
    return []


def appended_options(res):
    """what sccache itself appends to the compile command: the arguments after the request's own (flag, value) pairs"""
    pairs, cargs = res[5], res[6]
    flat = []
    for p in pairs:
        flat.append(p[0])
        if p[1]:
            flat.append(p[1][0])
    if cargs[:len(flat)] == flat:
        return cargs[len(flat):]
    # (a trailing `-C` prints as one token) fall back to the colour options anywhere in the command
    out = []
    for i, a in enumerate(cargs):
        if a == b'--color' and i + 1 < len(cargs):
            out += [a, cargs[i + 1]]
        elif a.startswith(b'--color='):
            out.append(a)
    return out


def gen_archive(rng, n):
    out = []
    names = [b'a.o', b'util.o', b'util.o', b'b.o', b'lib.rmeta', b'x', b'util.o']
    for _ in range(n):
        ms = [[rng.choice(names), rng.choice([b'', b'A', b'AAAA', b'BBBB', b'AAAC', b'0123456789', b'xy'])] for _ in range(rng.range(0, 6))]
        out.append([ms, ar_archive([(a, b) for a, b in ms])])
    return out


def mon_archive(case, out):
    if not isinstance(out, list) or out[:1] != [b'ok']:
        return [] if not case[0] else ['hash_all_archives failed on a well-formed archive']
    if out[2] != 1:
        return ['the digest of a static library is not the digest of all its members in archive order (names %r): an edit of some member, '
                'or an exchange of two, would keep the key' % ([m[0] for m in case[0]],)]
    return []


SO_NAMES = [b'librustc_driver-6108105cd7e839cf.so', b'libstd-1.so', b'libLLVM.so.22.1-rust-1.95.0-stable', b'libLLVM-22-rust.so', b'notes.txt',
            b'rustlib', b'libtest-9.so', b'x.so', b'.so', b'a.SO', b'lib.so.so', b'so']


def gen_sysroot(rng, n):
    out = []
    for _ in range(n):
        names = rng.shuffle(SO_NAMES)[:rng.range(1, 7)]
        es = []
        for nm in names:
            kind = rng.weighted([(b'file', 4), (b'symfile', 4), (b'dir', 1), (b'symdir', 1), (b'dangling', 1)])
            if kind in (b'file', b'symfile'):
                c = rng.choice(CONTENTS[:13])
                es.append([nm, kind, digests()[c][0], c])
            else:
                es.append([nm, kind, b'', b''])
        out.append([es])
    return out


def mon_sysroot(case, out):
    """every *.so entry of <sysroot>/lib that is a file or a symbolic link to a file is part of "the compiler itself" """
    if not isinstance(out, list) or out[:1] != [b'ok']:
        return ['Rust::new / the pre-image could not be read: %r' % (out[:1],)]
    want = sorted(e[2] for e in case[0] if e[1] in (b'file', b'symfile') and os.path.splitext(e[0])[1] == b'.so' and not (e[0].startswith(b'.') and e[0].count(b'.') == 1))
    got = sorted(out[1])
    vs = []
    for e in case[0]:
        if e[1] in (b'file', b'symfile') and e[2] in want and e[2] not in got:
            vs.append('the compiler library %s (%s) in <sysroot>/lib is not hashed: another build of it would keep every key' % (e[0].decode(), e[1].decode()))
    if not vs and got != want:
        vs.append('digests hashed for the compiler %r differ from the shared libraries present %r' % (got, want))
    return vs


def mon_key_one(res):
    vs = []
    if not isinstance(res, list) or not res:
        return ['malformed output']
    if res[0] == b'panic':
        return ['generate_hash_key panicked: %r' % res[1][:200]]
    if res[0] == b'ok':
        if res[3] != 1:
            vs.append('the recorded pre-image does not hash to the returned key')
        if res[2] != 1:
            vs.append('the pre-image does not end with hash(cwd) ++ hash(rustc -vV)')
        if len(res) > 7:
            want = []
            for p in res[5]:
                if p[0] in (b'--emit', b'--out-dir'):
                    continue
                want.append(p[0])
                if p[1]:
                    want.append(p[1][0])
            if res[7] != want:
                missing = [x for x in want if x not in res[7]]
                vs.append('the preliminary dep-info run (which decides the source files and env-deps of the key) is not given the request\'s '
                          'arguments: missing %r (it would expand the crate under another configuration)' % (missing or res[7],))
        if len(res) > 6:
            has_json = any(p[0] == b'--json' for p in res[5])
            want = [] if has_json else [b'--color', b'always']
            if appended_options(res) != want:
                vs.append('the compile command ends with %r, not the constant %r: a colour option that is not in the key' % (appended_options(res), want))
    return vs


def mon_key(case, out):
    return mon_key_one(out)


def mon_keypair(case, out):
    """pairs of requests differing in one hashed input get different keys; reorderings of --cfg/--extern/-L and changes
    of unhashed inputs get equal keys — evaluated on the keys the REAL generate_hash_key returned"""
    if not isinstance(out, list) or len(out) != 3:
        return ['malformed output']
    vs = mon_key_one(out[1]) + mon_key_one(out[2])
    label, exp = case[2][0].decode(), case[2][1]
    both_ok = out[1][:1] == [b'ok'] and out[2][:1] == [b'ok']
    if both_ok and out[0] == 1 and len(out[1]) > 6 and len(out[2]) > 6:
        sa, sb_ = appended_options(out[1]), appended_options(out[2])
        if sa != sb_:
            vs.append('two requests with ONE key would compile (and store diagnostics) with different options appended by sccache: '
                      '%r vs %r (%s)' % (sa, sb_, label))
    if both_ok:
        if exp == b'diff' and out[0] == 1:
            vs.append('two requests that differ in a hashed input (%s) got the same key' % label)
        if exp == b'same' and out[0] != 1:
            vs.append('two requests that differ only in %s got different keys' % label)
    return vs


def stats_keypair(case, out):
    ks = ['mut=' + case[2][0].decode().split(':')[0]]
    try:
        ks.append('a=' + out[1][0].decode())
        ks.append('same=%d' % out[0])
    except Exception:
        pass
    return ks


def stats_key(case, out):
    try:
        if out[0] == b'cannot_cache':
            return ['cannot_cache:' + out[1].decode('utf-8', 'replace')]
        return [out[0].decode()]
    except Exception:
        return ['malformed']


ARG_EXCLUDED = (b'--extern', b'-L', b'--out-dir')


def hashed_pieces(pairs):
    """the pieces generate_hash_key concatenates, from the (flag, value) pairs the REAL parse_arguments produced"""
    ps = [(p[0], p[1][0] if p[1] else None) for p in pairs]
    target_json = any(a == b'--target' and v is not None and os.path.splitext(v.rstrip(b'/'))[1] == b'.json' for a, v in ps)
    ps = [(a, v) for a, v in ps if a not in ARG_EXCLUDED and not (target_json and a == b'--target')]
    rest = [(a, v) for a, v in ps if a != b'--cfg']
    cfgs = sorted(((a, v) for a, v in ps if a == b'--cfg'), key=lambda p: (p[0], (0, b'') if p[1] is None else (1, p[1])))
    out = []
    for a, v in rest + cfgs:
        out.append(a)
        if v is not None:
            out.append(v)
    return out


def is_s22(pairs_a, pairs_b):
    """finding C05-S22, exactly: the hashed-argument lists differ but their concatenations are equal"""
    pa, pb = hashed_pieces(pairs_a), hashed_pieces(pairs_b)
    return pa != pb and b''.join(pa) == b''.join(pb)


def classify(case, out, v):
    """keypair: two requests with one key whose hashed arguments differ only in where the boundaries are"""
    try:
        if 'got the same key' in v and out[0] == 1 and out[1][0] == b'ok' and out[2][0] == b'ok' \
                and out[1][1] == out[2][1] and is_s22(out[1][5], out[2][5]):
            return 'C05-S22'
    except Exception:
        pass
    return None


def check(tier, seed, replay=None):
    """standard pipeline; known/C05.json is honoured even before the coordinator merged it into KNOWN_FINDINGS.json"""
    import json
    import sys
    orig = pipeline.load_known

    def load_known(pid):
        ks = orig(pid)
        p = os.path.join(pipeline.VERIF, 'known', 'C05.json')
        if pid == ID and os.path.exists(p):
            for e in json.load(open(p)).get('findings', []):
                if e.get('status') == 'open' and not any(k['id'] == e['id'] for k in ks):
                    ks.append(e)
        return ks
    pipeline.load_known = load_known
    try:
        if replay:
            data = json.load(open(replay))
            if str(data.get('leg', '')).startswith('e2e'):
                # an e2e finding is replayed by re-running the (seed-determined) histories on the current binaries
                rep = pipeline.Report(ID, tier, int(data.get('seed', seed)))
                ok, out = pipeline.build_harness([HARNESS_BIN])
                extra(rep, load_known(ID))
                bad = [v for v in rep.violations if v['kind'] == 'property'] or [o for o in rep.obligations if not o[1]]
                for v in rep.violations:
                    print('e2e:', v['detail'][:1500])
                for l in rep.known_lines:
                    print(l)
                if bad:
                    print('VIOLATION property=%s replay=%s' % (ID, replay))
                    return 1
                print('e2e histories replayed: no violation')
                return 0
        return pipeline.standard_check(sys.modules[__name__], tier, seed, replay)
    finally:
        pipeline.load_known = orig


def translate(rep):
    from translator import c05_hashspec, c05_argtable
    spec = c05_hashspec.generate(pipeline.REPO, pipeline.COQ)
    entries, allowed = c05_argtable.generate(pipeline.REPO, pipeline.COQ)
    rep.oblige('translate:c05_hashspec', True, 'components %s; CACHE_VERSION %r' % (spec['hash_spec'], bytes(spec['cache_version'])))
    rep.oblige('translate:c05_argtable', True, '%d ARGS entries' % len(entries))


def legs(tier):
    big = tier == 'thorough'
    return [
        Leg('depinfo', lambda rng, t: gen_depinfo(rng, 60000 if big else 1500), monitor=mon_depinfo,
            nontrivial=lambda c, o: isinstance(o, list) and len(o) >= 2,
            stats=lambda c, o: ['wf' if c[2] else 'mutated', 'n=%d' % min(len(o), 6) if isinstance(o, list) else 'bad'],
            rule='dep-info texts printed the way rustc prints them over 28 names (spaces, backslashes, colons, UTF-8, absolute, dotted) '
                 'x targets x env-deps, their CRLF / no-final-newline / one-byte-insertion mutants, and byte soup over the delimiter '
                 'alphabet; non-trivial = at least two paths returned'),
        Leg('envdep', lambda rng, t: gen_envdep(rng, 40000 if big else 1000), monitor=mon_envdep,
            nontrivial=lambda c, o: isinstance(o, list) and len(o) >= 1,
            stats=lambda c, o: ['wf' if c[1] else 'mutated'],
            rule='env-dep lines as rustc prints them (unset / empty / values with =, newline, backslash, CR) after arbitrary rule lines, '
                 'and mutants; non-trivial = at least one env-dep returned'),
        Leg('stdhash', lambda rng, t: gen_stdhash(rng, 20000 if big else 400),
            rule='Hash for Path / OsStr / str and Ord for Path of std versus Model/RustPath.v on a path alphabet (all pairs) and random paths'),
        Leg('args', lambda rng, t: gen_args(rng, 120000 if big else 2500), monitor=mon_args, stats=stats_args,
            nontrivial=lambda c, o: True,
            rule='a cargo-style command line, every snippet of a 100-entry list appended / prepended, and random add/drop/swap/dup '
                 'mutants and short random command lines; static-library lookup against generated directories'),
        Leg('staticlib', lambda rng, t: gen_staticlib(rng, 40000 if big else 2500), monitor=mon_staticlib, classify=classify_staticlib,
            model_leg='args', impl_args=['args'], stats=stats_args,
            nontrivial=lambda c, o: isinstance(o, list) and o[:1] == [b'ok'] and len(o[5]) >= 1,
            rule='the real parse_arguments on real directories: 1-4 -L directories (kinds native/all/plain/dependency/crate/framework, '
                 'names whose command-line order differs from their sorted order, repeats) holding libNAME.a (and NAME.lib / NAME.a) for two '
                 'names in random subsets, -l static= / static:+modifiers= / dylib in any interleaving; the monitor demands that the archive '
                 'rustc bundles (first native/all directory in command-line order) is among the hashed files; non-trivial = a library was found'),
        Leg('key', lambda rng, t: gen_key(rng, 20000 if big else 500), monitor=mon_key, stats=stats_key,
            nontrivial=lambda c, o: isinstance(o, list) and o[:1] == [b'ok'],
            rule='requests through the real Rust::parse_arguments + generate_hash_key with a mocked rustc (dep-info text, file names) and real '
                 'files; the compared observable is the byte string fed to the digest; non-trivial = a key was produced'),
        Leg('keypair', lambda rng, t: gen_keypair(rng, 40000 if big else 1200), monitor=mon_keypair, stats=stats_keypair, classify=classify,
            nontrivial=lambda c, o: isinstance(o, list) and len(o) == 3 and o[1][:1] == [b'ok'] and o[2][:1] == [b'ok'],
            rule='pairs of requests in one working directory that differ by one mutation out of 24 classes; the monitor demands '
                 'different keys for a changed hashed input and equal keys for reorderings / unhashed inputs'),
        Leg('archive', lambda rng, t: gen_archive(rng, 5000 if big else 400), monitor=mon_archive,
            nontrivial=lambda c, o: len(c[0]) >= 2,
            stats=lambda c, o: ['dupnames' if len(set(m[0] for m in c[0])) < len(c[0]) else 'unique'],
            rule='ar archives of 0-5 members (repeated member names, empty / equal-length data): the real hash_all_archives against the '
                 'digest of the model pre-image (every member in archive order, name then data)'),
        Leg('sysroot', lambda rng, t: gen_sysroot(rng, 4000 if big else 300), monitor=mon_sysroot,
            nontrivial=lambda c, o: isinstance(o, list) and o[:1] == [b'ok'] and len(o[1]) >= 1,
            stats=lambda c, o: ['kinds=' + '+'.join(sorted(set(e[1].decode() for e in c[0])))],
            rule='the real Rust::new on a scratch <sysroot>/lib with 1-6 entries (regular file / symlink to file / directory / '
                 'symlink to directory / dangling link; names with and without the .so extension); the digests recorded for the '
                 'compiler are read off the pre-image; every *.so that resolves to a file must be among them'),
        Leg('cwdpair', lambda rng, t: gen_cwdpair(rng, 6000 if big else 400), monitor=mon_cwdpair,
            nontrivial=lambda c, o: isinstance(o, list) and len(o) == 3 and o[1] == 1,
            stats=lambda c, o: [c[3][0].decode()],
            rule='one request through the real hasher in two directories under a common parent, with / without '
                 '--remap-path-prefix=<parent or sub-directory or unrelated>=...; keys must differ iff the directories differ'),
    ]


# ------------------------------------------------------------------------------------------------ e2e

def load_e2e():
    p = os.path.join(pipeline.VERIF, 'e2e', 'c05_rustc.py')
    spec = importlib.util.spec_from_file_location('c05_rustc', p)
    mod = importlib.util.module_from_spec(spec)
    spec.loader.exec_module(mod)
    return mod


def search_on_impl(rep, known):
    """a proof obligation, the translator or a correspondence broke and no failing input is known yet: evaluate the
    property monitors on the REAL implementation alone (no model needed) over the corpus and the generators"""
    from ..prng import Rng
    exe = pipeline.harness_bin(HARNESS_BIN)
    for leg in legs(rep.tier):
        if leg.name not in ('envdep', 'depinfo', 'keypair', 'args', 'key', 'staticlib', 'cwdpair', 'sysroot', 'archive'):
            continue
        rng = Rng(rep.seed).fork(ID + ':' + leg.name)
        cases = pipeline.corpus_cases(ID, leg.name) + list(leg.gen(rng, rep.tier))
        try:
            outs = pipeline.run_sharded([exe] + leg.impl_args, [sx.dumps(c) for c in cases])
        except Exception as e:
            rep.notes.append('search on the implementation failed for leg %s: %r' % (leg.name, e))
            continue
        n = 0
        for c, o in zip(cases, outs):
            for v in leg.monitor(c, pipeline.parse_out(o)):
                fid = leg.classify(c, pipeline.parse_out(o), v)
                if fid and any(k['id'] == fid for k in known):
                    continue
                n += 1
                if n <= 2:
                    rep.violation('property', leg.name, c, v + ' (monitor search on the real implementation after a broken obligation)')
        rep.legs['search:' + leg.name] = dict(cases=len(cases), violations=n)


def extra(rep, known):
    from ..prng import Rng
    e2e = load_e2e()
    if any(not o[1] for o in rep.obligations) and not any(v['kind'] == 'property' for v in rep.violations):
        search_on_impl(rep, known)
    ok, out = pipeline.build_repo_bins(REPO_BINS)
    rep.oblige('build:sccache', ok, out[-2000:] if not ok else 'cargo build --offline --bin sccache (hooks cfg on)')
    if not ok:
        return
    sccache = pipeline.repo_bin('sccache')
    rustc = e2e.real_rustc()
    if not rustc:
        rep.oblige('e2e:rustc-present', False, 'no rustc found')
        return
    rng = Rng(rep.seed).fork('C05:e2e')
    results = e2e.run_all(sccache, rustc, rng, rep.tier)
    nsteps = 0
    fatal = [r for r in results if r['fatal']]
    viol = []
    known_ids = {k['id'] for k in known}
    s21 = 0
    s22 = 0
    labels = {}
    for r in results:
        for st in r['steps']:
            nsteps += 1
            rep.evaluations += 1
            rep.count('e2e.step=' + st['label'])
            rep.count('e2e.observed=' + st['observed'].split(':')[0])
            labels[st['label']] = labels.get(st['label'], 0) + 1
            rep.distinct.add('e2e:%d:%s:%d' % (r['idx'], st['label'], nsteps))
            for kind, text in e2e.judge(st):
                # finding C05-S21: a result stored for another --out-dir is reused; the dep-info file names the old directory
                if (kind == 'outputs' and st['observed'] == 'hit' and st['entry_out_dir'] not in (None, st['out_dir'])
                        and all(n.endswith('.d') for n in st['diff_files']) and 'C05-S21' in known_ids):
                    s21 += 1
                    rep.known_hits['C05-S21'] = rep.known_hits.get('C05-S21', 0) + 1
                    continue
                # finding C05-S22: a hit on an entry stored by a command line whose hashed arguments concatenate alike
                if (kind in ('outputs', 'false_hit') and st['observed'] == 'hit' and st.get('s22_with') is not None
                        and 'C05-S22' in known_ids):
                    s22 += 1
                    rep.known_hits['C05-S22'] = rep.known_hits.get('C05-S22', 0) + 1
                    continue
                viol.append((r, st, kind, text))
    rep.traces += len(results)
    rep.legs['e2e'] = dict(histories=len(results), steps=nsteps, violations=len(viol), fatal=len(fatal), known_S21=s21, known_S22=s22)
    rep.rule.append('e2e: %d histories (4 fixed + PRNG) of 8-17 compiles each on generated crates (module tree, nested module, file name with a '
                    'space, include_str!, env!, option_env!, cfg features, extern rlib); every compile is run directly and through sccache '
                    'with identical command line, environment and working directory; compared: exit status, stdout, stderr, every file in '
                    '--out-dir; hit/miss from the server statistics against the oracle "some input changed since an identical earlier compile"' % len(results))
    for r in fatal:
        rep.oblige('e2e:history-%d' % r['idx'], False, r['fatal'])
    if s21:
        k = [x for x in known if x['id'] == 'C05-S21'][0]
        rep.known_lines.append('KNOWN-FINDING: property=C05 %s [C05-S21] (%d e2e steps)' % (k['what'], s21))
    if s22:
        k = [x for x in known if x['id'] == 'C05-S22'][0]
        rep.known_lines.append('KNOWN-FINDING: property=C05 %s [C05-S22] (%d e2e observations with the real rustc)' % (k['what'], s22))
    for r, st, kind, text in viol[:5]:
        rep.violation('property', 'e2e', sx.dumps([('history %d' % r['idx']).encode(), ' '.join(r['labels']).encode(), st['label'].encode()]),
                      'e2e history %d (%s), step %s: %s; argv=%s env=%s' % (r['idx'], ' '.join(r['labels']), st['label'], text,
                                                                            ' '.join(st['argv']), st['env']))
    rep.oblige('e2e:rustc-histories', not viol and not fatal, '%d histories, %d compiles compared with direct rustc' % (len(results), nsteps))
    # ---- the real dep-info files through the depinfo / envdep legs, and the model's hit/miss prediction
    real_depinfo(rep, results)
    model_prediction(rep, results)


def real_depinfo(rep, results):
    """leg "depinfo"/"envdep" on REAL rustc dep-info files: model == real parser, and the parsed file list is exactly
    the crate's source files (module tree + included file), the env-deps exactly what the crate reads"""
    cases_d, cases_e, metas = [], [], []
    for r in results:
        for st in r['steps']:
            for text in (st['depinfo'], st['direct_dep_file']):
                if text:
                    cases_d.append([text, VCWD, []])
                    cases_e.append([text, []])
                    metas.append(st)
    if not cases_d:
        rep.oblige('e2e:real-depinfo', False, 'no dep-info file was produced')
        return
    leg_d = Leg('depinfo', None)
    leg_e = Leg('envdep', None)
    md, idd = pipeline.run_pair(rep, ID, leg_d, cases_d, HARNESS_BIN)
    me, ide = pipeline.run_pair(rep, ID, leg_e, cases_e, HARNESS_BIN)
    bad = []
    for st, m1, i1, m2, i2 in zip(metas, md, idd, me, ide):
        rep.evaluations += 2
        if m1 != i1 or m2 != i2:
            bad.append('model and real parser disagree on a real dep-info file: %s / %s vs %s / %s' % (m1[:200], m2[:200], i1[:200], i2[:200]))
            continue
        paths = sx.loads(i1)
        want = sorted(path_join(VCWD, f.encode()) for f in st['sources'])
        if sorted(os.path.normpath(p) for p in paths) != want:
            bad.append('step %s: dep-info lists %r, the crate consists of %r' % (st['label'], paths, want))
        envs = {e[0]: (e[1][0] if e[1] else None) for e in sx.loads(i2)}
        vv = st['vv'].encode() if st['vv'] is not None else None
        if envs.get(b'VV', b'<absent>') != vv:
            bad.append('step %s: option_env!("VV") with VV=%r parsed as %r' % (st['label'], st['vv'], envs.get(b'VV', b'<absent>')))
        if envs.get(b'CARGO_PKG_VERSION') != st['env'].get('CARGO_PKG_VERSION', '').encode():
            bad.append('step %s: env!("CARGO_PKG_VERSION") parsed as %r' % (st['label'], envs.get(b'CARGO_PKG_VERSION')))
    rep.legs['e2e-depinfo'] = dict(files=len(cases_d), problems=len(bad))
    rep.oblige('e2e:real-depinfo', not bad, '; '.join(bad[:3]) if bad else '%d real dep-info files parsed identically by model and code, file list and env-deps exact' % len(cases_d))
    if bad:
        rep.violation('correspondence', 'e2e-depinfo', sx.dumps(cases_d[0]), bad[0])


def model_prediction(rep, results):
    """the extracted model's key pre-image for every e2e step (real dep-info text, real file digests) predicts hit/miss"""
    contents = {}
    ardig = {}
    for r in results:
        for st in r['steps']:
            for k, v in st['files'].items():
                contents[v.encode()] = None
            contents[st['dep_bytes']] = None
            for k, v in st.get('archives', {}).items():
                contents[v] = None
                ardig[v] = None
    exe = pipeline.harness_bin(HARNESS_BIN)
    items = list(contents)
    p = subprocess.run([exe, 'digest'], input=('\n'.join(sx.dumps([c, 0]) for c in items) + '\n').encode(), stdout=subprocess.PIPE, timeout=600)
    for c, o in zip(items, p.stdout.decode().split('\n')):
        r0 = sx.loads(o)
        contents[c] = r0[0] if r0 else b''
    items = list(ardig)
    if items:
        p = subprocess.run([exe, 'digest'], input=('\n'.join(sx.dumps([c, 1]) for c in items) + '\n').encode(), stdout=subprocess.PIPE, timeout=600)
        for c, o in zip(items, p.stdout.decode().split('\n')):
            r0 = sx.loads(o)
            ardig[c] = r0[0] if r0 else b''
    cases, idx = [], []
    for hi, r in enumerate(results):
        for si, st in enumerate(r['steps']):
            files = [[k.encode(), b'', contents[v.encode()], []] for k, v in sorted(st['files'].items())]
            files.append([b'deps/libdep.rlib', b'', contents[st['dep_bytes']], []])
            for k, v in sorted(st.get('archives', {}).items()):
                files.append([k.encode(), b'', contents[v], [ardig[v]]])
            env = [[k.encode(), v.encode()] for k, v in sorted(st['env'].items())]
            cases.append([[a.encode() for a in st['argv']], files, [st['depinfo']] if st['depinfo'] else [], env, [], b'rustc', []])
            idx.append((hi, si))
    lines = [sx.dumps(c) for c in cases]
    outs = pipeline.run_sharded([os.path.join(pipeline.BUILD, 'modelrun-' + ID), 'key'], lines)
    bad = []
    seen = {}
    n = 0
    for (hi, si), o in zip(idx, outs):
        st = results[hi]['steps'][si]
        m = sx.loads(o)
        n += 1
        if m[:1] == [b'ok']:
            pre = m[1]
            pred = 'hit' if (hi, st['cwd'], pre) in seen else 'miss'
            if st['compiled_ok']:
                seen[(hi, st['cwd'], pre)] = True
        elif m[:1] == [b'err']:
            pred = 'miss' if False else None      # rustc refused the dep-info run: sccache falls back, no claim
        else:
            pred = 'not_cacheable'
        if pred is not None and st['observed'] != pred:
            bad.append('history %d step %s: model predicts %s, server counted %s' % (results[hi]['idx'], st['label'], pred, st['observed']))
    rep.legs['e2e-model-prediction'] = dict(steps=n, mismatches=len(bad))
    rep.oblige('e2e:model-predicts-hit-miss', not bad, '; '.join(bad[:4]) if bad else '%d e2e compiles: hit/miss as predicted by equality of the model pre-image' % n)
    if bad:
        rep.violation('correspondence', 'e2e-model-prediction', sx.dumps([b'e2e']), bad[0])
