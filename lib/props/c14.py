"""C14 — server statistics account for every request exactly once.

Shares the harness binary (harness/src/bin/c09.rs), the request state machine model and the case generators with
lib/props/c09.py.  The counters printed by the harness are the REAL `ServerStats`, fetched through
`Request::GetStats` from the real `SccacheService` after every step (every step ends at a quiescent point); the
monitor evaluates the property's conservation laws and the agreement with the observed behaviour on them.
"""
import os
import shutil
import time

from .. import pipeline
from ..pipeline import Leg
from . import c09

ID = 'C14'
HARNESS_BIN = 'c09'
RUN_MODULE = 'Run.C14'
THEOREMS = ['C14_requests_partition', 'C14_outcome_once', 'C14_writes_match_misses', 'C14_language_sums',
            'C14_compilations', 'C14_schedules_cover_interleavings', 'C14_every_request_is_a_program',
            'C14_hit_did_not_compile', 'C14_panic_is_an_error_outcome', 'C14_not_cacheable_compile_is_executed_only',
            'C14_dist_client_error_is_an_error_outcome', 'C14_every_request_in_one_class',
            'C14_unsuccessful_status_has_an_outcome', 'C14_zero_midflight_refuted']
ASSUMPTIONS = [
    'each critical section on the statistics mutex is atomic (tokio::sync::Mutex); the laws are claimed at quiescent '
    'points (no request in flight), zeroing included only there: C14_zero_midflight_refuted shows that is inherent',
    'a request whose processing panics inside the compile task is an executed request with outcome `error`: the panic is '
    'caught by catch_unwind in start_compile_task and counted under cache_errors (C14_panic_is_an_error_outcome); the '
    'fault space of the differential leg makes every storage call and both process spawns panic',
    'not modelled: distributed compilation (dist_compiles, dist_errors; a failed distributed compile bumps both '
    'compilations and compile_fails; an HTTP 4xx error bumps nothing), the *_duration fields, cancellation of the '
    'compile task (no outcome increment at all)',
    'SCCACHE_NO_CACHE compiles have no counter of their own: the class "compiled without storing" is '
    'compilations - cache_misses (forced no-cache + non_cacheable_compilations)',
]
TRUSTED = c09.TRUSTED
REPO_BINS = ['sccache']


def parse_stats(s):
    (cr, un, ncp, nca, ex, E, H, M, ct, cre, ncc, fr, cwe, cw, co, cf, ncl, dist) = s
    return dict(cr=cr, un=un, ncp=ncp, nca=nca, ex=ex, E=E[0], H=H[0], M=M[0], ct=ct, cre=cre, ncc=ncc, fr=fr,
                cwe=cwe, cw=cw, co=co, cf=cf, ncsum=sum(ncl), dist=dist,
                plc=[E, H, M])


def law_violations(t, where):
    vs = []
    if t['cr'] != t['ex'] + t['nca'] + t['ncp'] + t['un']:
        vs.append('%s: compile_requests %d != executed %d + not_cacheable %d + not_compile %d + unsupported %d'
                  % (where, t['cr'], t['ex'], t['nca'], t['ncp'], t['un']))
    if t['ex'] != t['H'] + t['E'] + t['cf'] + t['co']:
        vs.append('%s: executed %d != hits %d + errors %d + compile_fails %d + compilations %d: some request is in no '
                  'outcome class or in two' % (where, t['ex'], t['H'], t['E'], t['cf'], t['co']))
    if t['M'] + t['ncc'] > t['co']:
        vs.append('%s: misses %d + non_cacheable_compilations %d > compilations %d' % (where, t['M'], t['ncc'], t['co']))
    if t['cw'] + t['cwe'] != t['M']:
        vs.append('%s: cache_writes %d + cache_write_errors %d != cache_misses %d' % (where, t['cw'], t['cwe'], t['M']))
    for name, p in zip(('cache_errors', 'cache_hits', 'cache_misses'), t['plc']):
        if sum(p[1]) != p[0] or sum(p[2]) != p[0]:
            vs.append('%s: %s breakdowns %s / %s do not sum to the total %d' % (where, name, p[1], p[2], p[0]))
    if t['nca'] != t['ncsum']:
        vs.append('%s: not_cached reasons sum to %d, requests_not_cacheable = %d' % (where, t['ncsum'], t['nca']))
    if t['fr'] + t['ct'] + t['cre'] > t['M']:
        vs.append('%s: forced_recaches + cache_timeouts + cache_read_errors = %d exceed cache_misses %d'
                  % (where, t['fr'] + t['ct'] + t['cre'], t['M']))
    return vs


KEYS = ('cr', 'un', 'ncp', 'nca', 'ex', 'E', 'H', 'M', 'ct', 'cre', 'ncc', 'fr', 'cwe', 'cw', 'co', 'cf')


def ledger_one(cls, res, ccr, d, where):
    """One request against the delta of the real counters it caused."""
    vs = []
    client = res[0]
    tag = client[0]
    if d['cr'] != 1:
        vs.append('%s: compile_requests moved by %d for one request' % (where, d['cr']))
    if any(d[k] < 0 for k in KEYS):
        vs.append('%s: a counter went down' % where)
    if cls not in c09.EXEC:
        want = 'un' if tag == b'unsupported' else None
        if d['ex'] != 0:
            vs.append('%s: a request handed back to the client was counted as executed' % where)
        if tag == b'unsupported' and d['un'] != 1:
            vs.append('%s: unsupported-compiler answer not counted as such' % where)
        if tag == b'unhandled' and d['ncp'] + d['nca'] != 1:
            vs.append('%s: unhandled request counted in %d of not_compile/not_cacheable' % (where, d['ncp'] + d['nca']))
        return vs
    if d['ex'] != 1:
        vs.append('%s: executed request: requests_executed moved by %d' % (where, d['ex']))
    classes = {'hit': d['H'], 'miss': d['M'], 'failed': d['cf'], 'not_stored': d['co'] - d['M'], 'error': d['E']}
    if sorted(classes.values()) != [0, 0, 0, 0, 1]:
        vs.append('%s: one executed request is reflected in outcome classes %s (must be exactly one)'
                  % (where, {k: v for k, v in classes.items() if v}))
    if d['H'] == 1 and ccr != 0:
        vs.append('%s: counted as a cache hit but the compiler ran' % where)
    if d['M'] == 1 and ccr != 1:
        vs.append('%s: counted as a cache miss but the compiler ran %d times' % (where, ccr))
    if d['co'] + d['cf'] > ccr:
        vs.append('%s: %d compilations/failures counted, compiler ran %d times' % (where, d['co'] + d['cf'], ccr))
    if tag == b'finished' and client[1] == 0 and ccr == 0 and d['H'] != 1:
        vs.append('%s: served without running the compiler but not counted as a hit' % where)
    if tag == b'fatal' and d['E'] != 1:
        vs.append('%s: fatal error not counted under cache_errors' % where)
    if d['M'] == 1 and d['cw'] + d['cwe'] != 1:
        vs.append('%s: a miss with %d write outcomes' % (where, d['cw'] + d['cwe']))
    if d['M'] == 0 and d['cw'] + d['cwe'] != 0:
        vs.append('%s: a cache write outcome without a miss' % where)
    return vs


def monitor(case, out):
    ppmode, orcs, steps = case
    vs = []
    if not isinstance(out, list) or len(out) != len(steps) or (out and out[0] == b'harness_error'):
        return ['malformed implementation output: %r' % (out[:2] if isinstance(out, list) else out)]
    if isinstance(out, list) and len(out) == 1 and out[0] == [b'case_hung']:
        return ['the history never finished: a request of it was never answered (a thread of the server is stuck)']
    if isinstance(out, list) and len(out) == 1 and out[0] == [b'not_run_after_hangs']:
        return []
    if isinstance(out, list) and len(out) == 2 and out[0] == b'unparsable':
        if out[1].startswith(b'(harness_died'):
            return ['the process serving this history was killed (or had been killed by an earlier history of the same shard)']
        return ['the process serving this history died instead of answering: %s' % out[1][:200].decode('utf-8', 'replace')]
    zero = dict((k, 0) for k in KEYS)
    prev = dict(zero)
    dirty = False       # the statistics were zeroed while a request was in flight: no law is claimed until the next zeroing
    for i, (st, ob) in enumerate(zip(steps, out)):
        kind = st[0]
        if ob[0] == b'aborted':
            break
        if ob[0] != kind:
            vs.append('step %d: malformed observation' % i)
            break
        if ob[-1] == [b'stats_hung']:
            vs.append('step %d: the server no longer answers a statistics request (hung)' % i)
            break
        if kind in (b'req', b'midzero') and ob[1][0][0] == b'hung':
            vs.append('step %d: the request was never answered (hung connection): it stays counted without an outcome' % i)
            break
        where = 'step %d (%s)' % (i, kind.decode())
        if kind in (b'disk', b'heal'):
            continue
        try:
            t = parse_stats(ob[-1])
        except Exception:
            vs.append('%s: no statistics' % where)
            break
        if kind == b'midzero':
            # only what survives the zeroing is claimed: nothing the request did BEFORE its lookup is counted
            if t['cr'] > 0 and ob[1][0][0] in (b'finished', b'fatal') and (t['H'] + t['M'] + t['cf'] + t['E'] + t['co']) > 0:
                vs.append('%s: increments made before the ZeroStats survived it' % where)
            dirty = True
            continue
        if dirty and kind not in (b'zero', b'restart', b'restart_broken', b'restart_distfail'):
            continue
        vs += law_violations(t, where)
        if kind in (b'zero', b'restart', b'restart_broken', b'restart_distfail'):
            if any(t[k] != 0 for k in KEYS):
                vs.append('%s: statistics not zero' % where)
            prev = dict(zero)
            dirty = False
            continue
        d = dict((k, t[k] - prev[k]) for k in KEYS)
        if kind == b'req':
            vs += ledger_one(st[2], ob[1], ob[3], d, where)
        elif kind == b'par':
            rs = st[1:]
            results, ccs = ob[1], ob[3]
            if d['cr'] != len(rs):
                vs.append('%s: %d requests, compile_requests moved by %d' % (where, len(rs), d['cr']))
            nexec = sum(1 for r in rs if r[2] in c09.EXEC)
            if d['ex'] != nexec:
                vs.append('%s: %d executed requests, requests_executed moved by %d' % (where, nexec, d['ex']))
            hits = sum(1 for r, res in zip(rs, results)
                       if r[2] in c09.EXEC and res[0][0] == b'finished' and res[0][1] == 0 and ccs[r[1]] == 0)
            if d['H'] != hits:
                vs.append('%s: %d requests were served without running the compiler, cache_hits moved by %d' % (where, hits, d['H']))
            ran = sum(ccs[r[1]] for r in rs if r[2] in c09.EXEC)
            if d['co'] + d['cf'] > ran or d['M'] > ran:
                vs.append('%s: counters claim more compiler runs than happened' % where)
        prev = dict((k, t[k]) for k in KEYS)
    return vs


def nontrivial(case, out):
    # at least two different request kinds / outcomes were counted
    try:
        kinds = set()
        for st, ob in zip(case[2], out):
            if st[0] == b'midzero':
                kinds.add(b'midzero')
            if st[0] == b'req':
                kinds.add((st[2], ob[1][0][0], ob[3]))
            if st[0] == b'par':
                kinds.add(b'par')
        return len(kinds) >= 2
    except Exception:
        return True


def stats(case, out):
    ks = c09.stats(case, out)
    try:
        last = None
        for ob in out:
            if ob[0] in (b'req', b'par'):
                last = parse_stats(ob[-1])
        if last:
            for k in ('H', 'M', 'E', 'cf', 'cre', 'ct', 'fr', 'cwe', 'un', 'ncp', 'nca'):
                if last[k]:
                    ks.append('counted.' + k)
    except Exception:
        pass
    return ks


def legs(tier):
    def gen(rng, tier):
        if tier == 'thorough':
            return (c09.gen_table('quick') + c09.gen_histories(rng, 30000, 18, par_weight=5, zero_weight=3)
                    + c09.gen_midzero(rng, 3000))
        return (c09.gen_table('quick', force_level='single')
                + c09.gen_histories(rng, 3500, 16, par_weight=5, zero_weight=3) + c09.gen_midzero(rng, 400))
    return [Leg('reqsm', gen, monitor=monitor, nontrivial=nontrivial, shrink=c09.shrink, neighbours=c09.neighbours,
                compare=c09.compare,
                stats=stats,
                rule='PRNG histories over 4 translation units: requests of all six classes (executed, unsupported '
                     'compiler, vanished compiler, not a compilation, two kinds of not cacheable) x cache control x '
                     'compiler outcome x storage faults, 2-4 concurrent requests on separate tasks, zeroing, restarts, '
                     'disk damage; plus the single-fault request table of C09; the REAL ServerStats are read after every '
                     'step; non-trivial = >= 2 different request kinds/outcomes counted; distinct by case text')]


# ---------------------------------------------------------------- end to end (real server, concurrent clients)

prebuild = c09.prebuild


def extra(rep, known):
    from e2e import c09_e2e
    if not getattr(rep, 'e2e_ok', False) or not shutil.which('gcc'):
        rep.notes.append('e2e leg not run (sccache binary or gcc missing, or VERIF_NO_E2E=1)')
        return
    t0 = time.time()
    sccache = pipeline.repo_bin('sccache')
    plans = [(1, 10), (3, 8), (6, 6), (8, 5)] if rep.tier == 'quick' else [(1, 20), (2, 15), (4, 12), (6, 10), (8, 10), (8, 16)]
    bad = 0
    skipped = 0
    for i, (n, rounds) in enumerate(plans):
        r = c09_e2e.run_stats_scenario(sccache, n, rounds, rep.seed * 100 + i)
        rep.evaluations += 1
        rep.traces += 1
        rep.count('e2e.clients=%d' % n)
        if r.get('skipped'):
            skipped += 1
            rep.notes.append('e2e stats scenario skipped: %s' % r['notes'])
            continue
        if r['violations']:
            bad += 1
            rep.violation('property', 'e2e', 'clients=%d rounds=%d seed=%d' % (n, rounds, rep.seed * 100 + i),
                          'real server, %d concurrent clients x %d requests: %s' % (n, rounds, '; '.join(r['violations'][:4])))
        else:
            rep.distinct.add('e2e:%d:%d' % (n, rounds))
            rep.count('e2e.requests', r['ledger']['requests'])
            rep.count('e2e.compiler_runs', r['runs'])
            rep.count('e2e.hits', r['hits'])
    rep.legs['e2e'] = dict(cases=len(plans), violations=bad, skipped=skipped, wall_s=round(time.time() - t0, 1))
    rep.oblige('e2e:stats', bad == 0 and skipped < len(plans),
               '%d concurrent-client histories against the real server, %d violate the laws, %d skipped' % (len(plans), bad, skipped))
    rep.rule.append('e2e: 1-8 concurrent clients, mixed requests (own unit, shared unit, failing unit, forced recache, '
                    'no-cache, link step, two inputs, unknown compiler); --show-stats --stats-format=json against the '
                    'client-side ledger and the log of a wrapper compiler (hit => not invoked, miss => invoked once)')
    pipeline.log('leg e2e: %d histories, %d bad, %.1fs' % (len(plans), bad, time.time() - t0))
