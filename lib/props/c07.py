"""C07 — disk cache stays within its size limit, evicts in LRU order, never wedges."""
import itertools

from ..pipeline import Leg

ID = 'C07'
HARNESS_BIN = 'c07'
RUN_MODULE = 'Run.C07'
COQ_EXTRA = ['Gen.C07Consts_ok']
THEOREMS = ['C07_accounting', 'C07_disk_agrees', 'C07_lru_order', 'C07_get_is_use',
            'C07_too_large_refused', 'C07_never_wedges', 'C07_recency_survives_restart',
            'C07_put_releases', 'C07_put_never_wedges', 'C07_lazy_open_recovers']
ASSUMPTIONS = [
    'no external interference with the cache directory for the disk-agreement and restart theorems (the property\'s "externally deleted files" are covered by the accounting / no-panic theorems and by the differential leg)',
    'the file-system clock is strictly monotone between file-touching calls (the harness rewrites each touched file\'s mtime to a logical clock after checking WHICH files the real code touched)',
    'I/O errors other than "file missing" and a failing write of the entry data in DiskCache::put (disk full / quota / EFBIG, injected through RLIMIT_FSIZE) and a failing lazy open of the cache directory (ENOTDIR, injected by an obstacle file) are not modelled',
    'restart theorem only: no operation names a key whose file name starts with .sccachetmp (init deletes such files; sccache keys are hex digests)',
]
TRUSTED = ['hook: LruDiskCache::verif_index / verif_pending (read-only views of the private LRU order and reservations)',
           'hooks: DiskCache::verif_indexes (read-only), CacheWrite::verif_with_comment (entries of an exact size)']

KEYS = [b'a', b'b', b'd/c', b'd/e']
SIZES = [0, 1, 5, 10, 12, 13, 20, 25, 26]
CAPS = [0, 1, 25, 40]


def key_of(op):
    t = op[0]
    if t in (b'insert_bytes', b'insert_with', b'insert_file', b'prepare_add', b'get', b'remove', b'contains', b'ext_delete'):
        return op[1]
    return None


def gen_random(rng, n, maxlen, heavy_reserve=False, keys=None, sizes=None):
    """PRNG op sequences.  A light shadow of the state (keys inserted so far, handle ids handed out) biases
    choices towards operations that are VALID (existing keys, live handles), as most real sequences are."""
    keys = keys or KEYS
    sizes = sizes or SIZES
    out = []
    for _ in range(n):
        cap = rng.weighted([(25, 6), (40, 3), (1, 1), (0, 1)])
        init = []
        present = []
        if rng.chance(1, 3):
            used = set()
            for _ in range(rng.range(1, 4)):
                k = rng.choice(keys + [b'.sccachetmpOLD', b'd/.sccachetmpX'])
                if k in used:
                    continue
                used.add(k)
                init.append([k, rng.choice(sizes), 1 + len(init)])
                if k in keys:
                    present.append(k)
        ops = []
        nh = 0
        live = []
        for _ in range(rng.range(1, maxlen)):
            if heavy_reserve:
                kind = rng.weighted([('prepare_add', 8), ('write_tmp', 5), ('commit', 6), ('abandon', 3),
                                     ('insert_bytes', 4), ('get', 3), ('remove', 1), ('reopen', 1), ('insert_with', 2)])
            else:
                kind = rng.weighted([('insert_bytes', 8), ('insert_with', 3), ('insert_file', 2), ('prepare_add', 4),
                                     ('write_tmp', 3), ('commit', 4), ('abandon', 1), ('get', 6), ('remove', 2),
                                     ('contains', 1), ('ext_delete', 1), ('reopen', 2)])
            k = rng.choice(present) if present and rng.chance(2, 3) else rng.choice(keys)
            sz = rng.choice(sizes)
            if kind in ('insert_bytes', 'insert_file', 'prepare_add'):
                if kind == 'prepare_add' and rng.chance(1, 3):
                    sz = rng.choice([0, 1, 5])          # under-reservation, as the preprocessor cache does
                ops.append([kind.encode(), k, sz])
                if kind == 'prepare_add':
                    live.append(nh)
                    nh += 1
                else:
                    present.append(k)
            elif kind == 'insert_with':
                ops.append([b'insert_with', k, sz, 1 if rng.chance(1, 6) else 0])
                present.append(k)
            elif kind == 'write_tmp':
                h = rng.choice(live) if live and rng.chance(5, 6) else rng.below(nh + 1)
                ops.append([b'write_tmp', h, sz])
            elif kind in ('commit', 'abandon'):
                h = rng.choice(live) if live and rng.chance(5, 6) else rng.below(nh + 1)
                if h in live:
                    live.remove(h)
                ops.append([kind.encode(), h])
            elif kind == 'reopen':
                ops.append([b'reopen', cap if rng.chance(3, 4) else rng.choice(CAPS)])
                live = []
            else:
                ops.append([kind.encode(), k])
        out.append([cap, init, ops, 1 if rng.chance(1, 2) else 0])
    return out


def gen_ties(rng, n):
    """Directories whose entry files SHARE modification times (a restored backup, a coarse-timestamp file system):
    every file within capacity must still be indexed after open / reopen.  The order among equal mtimes is not
    determined (directory order), so these cases are compared up to index order (5th element = 1) and stay
    within capacity (no eviction whose victim would depend on that order)."""
    out = []
    for _ in range(n):
        init = []
        names = rng.shuffle(KEYS + [b'e', b'd/f'])[:rng.range(2, 5)]
        mt = [rng.range(1, 3) for _ in names]
        for k, m in zip(names, mt):
            init.append([k, rng.choice([0, 1, 5, 10]), m])
        ops = []
        for _ in range(rng.range(0, 4)):
            kind = rng.weighted([('get', 3), ('contains', 2), ('reopen', 2), ('insert_bytes', 1)])
            k = rng.choice(names)
            if kind == 'reopen':
                ops.append([b'reopen', 100])
            elif kind == 'insert_bytes':
                ops.append([b'insert_bytes', b'zz', 5])
            else:
                ops.append([kind.encode(), k])
        out.append([100, init, ops, rng.below(2), 1])
    return out


def gen_scenarios(depth):
    """A full two-entry cache, then EVERY sequence (to the given depth) of two-phase / lookup operations on it:
    overwrites of the least and most recently used key with under- and over-reservation."""
    prefixes = [[[b'insert_bytes', b'a', 10], [b'insert_bytes', b'b', 10]],
                [[b'insert_bytes', b'a', 12], [b'insert_bytes', b'b', 13]]]
    alpha = [[b'prepare_add', b'a', 0], [b'prepare_add', b'a', 12], [b'prepare_add', b'b', 5],
             [b'write_tmp', 0, 13], [b'write_tmp', 0, 5], [b'write_tmp', 1, 20], [b'commit', 0], [b'commit', 1],
             [b'abandon', 0], [b'get', b'a'], [b'insert_bytes', b'd/c', 5], [b'reopen', 20]]
    out = []
    for cap in (20, 25):
        for pre in prefixes:
            for d in range(1, depth + 1):
                for seq in itertools.product(alpha, repeat=d):
                    out.append([cap, [], [list(o) for o in pre] + [list(o) for o in seq], (len(out) & 1)])
    return out


def gen_exhaustive(depth):
    alpha = [[b'insert_bytes', b'a', 10], [b'insert_bytes', b'b', 12], [b'insert_with', b'a', 26, 0],
             [b'prepare_add', b'd/c', 20], [b'write_tmp', 0, 13], [b'commit', 0], [b'abandon', 1],
             [b'get', b'a'], [b'remove', b'b'], [b'reopen', 25]]
    out = []
    for d in range(1, depth + 1):
        for seq in itertools.product(alpha, repeat=d):
            out.append([25, [], [list(o) for o in seq], (len(out) & 1)])
    return out


def monitor(case, out):
    """The property's own predicates, evaluated on the REAL implementation's observations."""
    cap, init, ops = case[:3]
    ties = len(case) > 4 and case[4] == 1
    vs = []
    if not isinstance(out, list) or len(out) != len(ops) + 1:
        return ['malformed implementation output']
    interfered = False
    reserved = {}
    hkey = {}
    nh = 0
    prev = None
    for i, obs in enumerate(out):
        op = ops[i - 1] if i > 0 else None
        if obs and obs[0] == b'panic':
            vs.append('op %d %s: the cache panicked' % (i, op))
            break
        res, touched, size, ln, psize, index, files, handles, ntmp = obs
        if op is not None:
            t = op[0]
            if t == b'ext_delete':
                interfered = True
            if t == b'reopen':
                cap = op[1]
                reserved = {}
            if t == b'prepare_add' and res == b'ok':
                reserved[nh] = op[2]
                hkey[nh] = op[1]
                nh += 1
            if t in (b'commit', b'abandon') and res != b'bad_handle':
                reserved.pop(op[1], None)
        isum = sum(e[1] for e in index)
        keys = [e[0] for e in index]
        if size != isum + psize:
            vs.append('op %d: size() %d != indexed %d + reserved %d' % (i, size, isum, psize))
        if size > cap:
            vs.append('op %d: stored+reserved %d exceeds the limit %d' % (i, size, cap))
        if ln != len(index) or len(set(keys)) != len(keys):
            vs.append('op %d: index length/duplicates inconsistent' % i)
        if psize != sum(reserved.values()):
            vs.append('op %d: reserved space %d but live reservations sum to %d (leak: the cache wedges)' % (i, psize, sum(reserved.values())))
        if ntmp != len(handles):
            vs.append('op %d: %d temp files on disk for %d in-flight stores' % (i, ntmp, len(handles)))
        if not interfered:
            a = sorted((e[0], e[1]) for e in index)
            b = sorted((f[0], f[1]) for f in files)
            if a != b:
                vs.append('op %d %s: index %s and entry files on disk %s differ' % (i, op, a, b))
        if prev is not None and op is not None:
            pidx = [e[0] for e in prev[5]]
            t = op[0]
            k = key_of(op)
            if t == b'commit' and res != b'bad_handle':
                k = hkey.get(op[1])
            if ties:
                pass
            elif t == b'reopen':
                if not interfered:
                    byt = [f[0] for f in sorted(prev[6], key=lambda f: f[2]) if f[1] <= cap and not f[0].split(b'/')[-1].startswith(b'.sccachetmp')]
                    if keys != byt[len(byt) - len(keys):] or any(x not in byt for x in keys):
                        vs.append('op %d reopen: index %s is not the most recent tail of %s' % (i, keys, byt))
            else:
                p2 = [x for x in pidx if x != k]
                n2 = [x for x in keys if x != k]
                if n2 != p2[len(p2) - len(n2):]:
                    vs.append('op %d %s: eviction not in LRU order: before %s after %s' % (i, op, pidx, keys))
                if t == b'get' and res == b'ok':
                    if not keys or keys[-1] != k:
                        vs.append('op %d get: looked-up key not most recent' % i)
                    if touched != [k]:
                        vs.append('op %d get: use not recorded on disk (mtime untouched), recency would not survive a restart' % i)
                if t in (b'insert_bytes', b'insert_file', b'prepare_add') and op[2] > cap:
                    if res != b'too_large' or prev[5] != index or prev[6] != files:
                        vs.append('op %d %s: oversized entry not refused cleanly' % (i, op))
                # evictions happen only while space is needed: keeping the last evicted entry would have
                # exceeded the limit (C07_lru_order: the evicted entries are a prefix; the loop stops as soon
                # as stored + reserved + needed fits).  Sizes come from the cache's own index, so this holds
                # with externally deleted files too.
                kk = None if t == b'prepare_add' else k      # prepare_add does not forget its own key first
                pp = [e for e in prev[5] if e[0] != kk]
                nn = [x for x in keys if x != kk]
                ev = pp[:len(pp) - len(nn)] if nn == [e[0] for e in pp][len(pp) - len(nn):] else []
                if ev:
                    if t in (b'get', b'remove', b'contains', b'write_tmp', b'abandon', b'ext_delete'):
                        vs.append('op %d %s: entries %s evicted by an operation that needs no space' % (i, op, [e[0] for e in ev]))
                    elif not (t == b'commit' and k in pidx) and size + ev[-1][1] <= cap:
                        vs.append('op %d %s: live entry %s (%d bytes) evicted although there was room without it: stored+reserved %d of %d afterwards'
                                  % (i, op, ev[-1][0], ev[-1][1], size, cap))
                # a store that fits beside the live reservations is never refused (C07_never_wedges)
                need = None
                if t in (b'insert_bytes', b'insert_file', b'prepare_add'):
                    need, before = op[2], prev[4]
                elif t == b'insert_with' and not op[3]:
                    need, before = op[2], prev[4]
                elif t == b'commit' and res != b'bad_handle':
                    hh = [h for h in prev[7] if h[0] == op[1]]
                    if hh:
                        need, before = hh[0][1], psize
                if need is not None and res == b'too_large' and before + need <= cap:
                    vs.append('op %d %s: a %d byte store refused as too large although only %d of %d bytes are reserved%s'
                              % (i, op, need, before, cap, ' (and the cache is empty afterwards)' if not index else ''))
                if t == b'remove' and k in keys:
                    vs.append('op %d remove: the key is still indexed after remove() (result %s): a ghost entry keeps being counted and evicts live entries' % (i, res.decode()))
                if t in (b'insert_bytes', b'insert_file', b'insert_with') and res == b'ok' and (not keys or keys[-1] != k):
                    vs.append('op %d %s: inserted key not most recent' % (i, op))
        prev = obs
    return vs


def nontrivial(case, out):
    cap, init, ops = case[:3]
    # non-trivial: at least one eviction or reservation happened
    try:
        prevn = None
        for obs in out:
            if obs[0] == b'panic':
                return True
            if obs[4] > 0:
                return True
            if prevn is not None and obs[3] < prevn:
                return True
            prevn = obs[3]
    except Exception:
        return True
    return False


def stats(case, out):
    ks = ['cap=%d' % case[0], 'len=%d' % min(len(case[2]), 30), 'mtimes=%s' % ('fresh' if case[3:] == [1] else 'old')]
    for op in case[2]:
        ks.append('op=' + op[0].decode())
    try:
        for obs in out:
            ks.append('res=' + obs[0].decode())
    except Exception:
        pass
    return ks


def shrink(case):
    cap, init, ops = case[:3]
    fresh = case[3:]
    for i in range(len(ops)):
        yield [cap, init, ops[:i] + ops[i + 1:]] + fresh
    if init:
        for i in range(len(init)):
            yield [cap, init[:i] + init[i + 1:], ops] + fresh


def neighbours(case):
    cap, init, ops = case[:3]
    fresh = case[3:]
    for i in range(1, len(ops)):
        yield [cap, init, ops[i:] + ops[:i]] + fresh
    for i, op in enumerate(ops):
        if op[0] in (b'insert_bytes', b'insert_file', b'prepare_add', b'insert_with', b'write_tmp'):
            for s in SIZES:
                o2 = list(op)
                o2[2] = s
                yield [cap, init, ops[:i] + [o2] + ops[i + 1:]] + fresh


def translate(rep):
    from translator import c07_consts
    from .. import pipeline
    consts = c07_consts.run(pipeline.REPO, pipeline.COQ)
    rep.oblige('translate:TEMPFILE_PREFIX', True, repr(consts))


def compare_case(m, i, case):
    if m == i:
        return True
    if not (len(case) > 4 and case[4] == 1):
        return False
    try:
        from .. import sx
        a, b = sx.loads(m), sx.loads(i)
    except Exception:
        return False
    def norm(o):
        return [[x[0], [], x[2], x[3], x[4], sorted(x[5]), [f[:2] for f in x[6]], x[7], x[8]] if len(x) == 9 else x for x in o]
    return norm(a) == norm(b)


# ---------------------------------------------------------------- leg "put": DiskCache::put with write faults

PKEYS = [b'aaaa0000', b'bbbb0001', b'cccc0002']


def ppath(k):
    return k[0:1] + b'/' + k[1:2] + b'/' + k


def gen_put_exhaustive(depth):
    alpha = [[b'put', b'aaaa0000', 40, 0], [b'put', b'bbbb0001', 40, 0], [b'put', b'cccc0002', 60, 0],
             [b'put', b'aaaa0000', 40, 1], [b'put', b'bbbb0001', 60, 11], [b'put', b'cccc0002', 101, 1],
             [b'get', b'aaaa0000'], [b'get', b'bbbb0001']]
    out = []
    for d in range(1, depth + 1):
        for seq in itertools.product(alpha, repeat=d):
            out.append([100, [list(o) for o in seq]])
    return out


def gen_put_random(rng, n, maxlen):
    out = []
    for _ in range(n):
        cap = rng.choice([100, 150, 64])
        ops = []
        for _ in range(rng.range(1, maxlen)):
            k = rng.choice(PKEYS)
            if rng.chance(1, 4):
                ops.append([b'get', k])
            else:
                sz = rng.choice([22, 30, 40, 50, 60, 64, 65, 100, 101, 151])
                fault = 0 if rng.chance(1, 2) else rng.choice([1, 2, 11, 23, sz])
                ops.append([b'put', k, sz, fault])
        out.append([cap, ops])
    return out


def put_monitor(case, out):
    """DiskCache (reserve -> write -> commit | abandon): no reservation and no temp file outlives a call, whatever
    the outcome of the write; a store that fits is accepted.  Evaluated on the real implementation's observations."""
    cap, ops = case[:2]
    vs = []
    if not isinstance(out, list) or len(out) != len(ops):
        return ['malformed implementation output']
    prev = []
    for i, (op, obs) in enumerate(zip(ops, out)):
        if obs and obs[0] == b'panic':
            vs.append('op %d %s: the cache panicked' % (i, op))
            break
        res, size, index, ntmp = obs
        keys = [e[0] for e in index]
        isum = sum(e[1] for e in index)
        k = ppath(op[1])
        if size - isum != 0:
            vs.append('op %d %s -> %s: %d bytes stay reserved although no store is in flight: the space is withheld until restart (the cache wedges)'
                      % (i, op, res.decode(), size - isum))
        if ntmp:
            vs.append('op %d %s: %d temp file(s) left behind' % (i, op, ntmp))
        if size > cap:
            vs.append('op %d: stored+reserved %d exceeds the limit %d' % (i, size, cap))
        if len(set(keys)) != len(keys):
            vs.append('op %d: duplicate index keys' % i)
        pk = [e[0] for e in prev]
        p2 = [x for x in pk if x != k]
        n2 = [x for x in keys if x != k]
        if n2 != p2[len(p2) - len(n2):]:
            vs.append('op %d %s: eviction not in LRU order: before %s after %s' % (i, op, pk, keys))
        else:
            ev = [e for e in prev if e[0] != k][:len(p2) - len(n2)]
            if op[0] == b'get' and ev:
                vs.append('op %d get evicted %s' % (i, ev))
            if op[0] == b'put' and ev:
                held = isum + (op[2] if res != b'ok' else 0)
                if not (k in pk) and held + ev[-1][1] <= cap:
                    vs.append('op %d %s: entry %s evicted although there was room without it' % (i, op, ev[-1][0]))
        if op[0] == b'put':
            n, fault = op[2], op[3]
            if n > cap:
                if res != b'too_large' or index != prev:
                    vs.append('op %d %s: oversized entry not refused cleanly (%s)' % (i, op, res.decode()))
            elif fault == 0 or fault - 1 >= n:
                if res != b'ok' or not index or index[-1] != [k, n]:
                    vs.append('op %d %s: an entry that fits was not stored (%s): earlier failed stores keep their space' % (i, op, res.decode()))
            else:
                if res != b'write_err':
                    vs.append('op %d %s: failing write reported as %s' % (i, op, res.decode()))
        else:
            want = b'hit' if k in pk else b'miss'
            if res != want:
                vs.append('op %d %s: %s, expected %s' % (i, op, res.decode(), want.decode()))
            if res == b'hit' and (not keys or keys[-1] != k):
                vs.append('op %d get: looked-up key not most recent' % i)
        prev = index
    return vs


def put_nontrivial(case, out):
    try:
        pn = 0
        for op, obs in zip(case[1], out):
            if obs[0] in (b'write_err', b'panic'):
                return True
            if len(obs[2]) < pn:
                return True
            pn = len(obs[2])
    except Exception:
        return True
    return False


def put_stats(case, out):
    ks = ['put-cap=%d' % case[0]]
    for op in case[1]:
        ks.append('op=' + op[0].decode() + ('-fault' if op[0] == b'put' and op[3] else ''))
    try:
        for obs in out:
            ks.append('res=' + obs[0].decode())
    except Exception:
        pass
    return ks


def put_shrink(case):
    cap, ops = case[:2]
    for i in range(len(ops)):
        yield [cap, ops[:i] + ops[i + 1:]]


def put_neighbours(case):
    cap, ops = case[:2]
    for i in range(1, len(ops)):
        yield [cap, ops[i:] + ops[:i]]
    yield [cap, ops + [[b'put', b'cccc0002', min(cap, 60), 0]]]


# ---------------------------------------------------------------- leg "lazy": lazy open with open faults

def gen_lazy_exhaustive(depth):
    alpha = [[b'put', b'aaaa0000', 40, 0, 0], [b'put', b'aaaa0000', 40, 0, 1], [b'put', b'bbbb0001', 70, 0, 0],
             [b'put', b'bbbb0001', 60, 11, 0], [b'put', b'bbbb0001', 60, 1, 1],
             [b'get', b'aaaa0000', 0], [b'get', b'aaaa0000', 1]]
    out = []
    for d in range(1, depth + 1):
        for seq in itertools.product(alpha, repeat=d):
            out.append([100, [list(o) for o in seq]])
    return out


def gen_lazy_random(rng, n, maxlen):
    out = []
    for _ in range(n):
        cap = rng.choice([100, 150])
        ops = []
        nfail = rng.range(0, 3)                     # the first requests find the directory unusable
        for j in range(rng.range(1, maxlen)):
            of = 1 if (j < nfail or rng.chance(1, 8)) else 0
            k = rng.choice(PKEYS)
            if rng.chance(1, 3):
                ops.append([b'get', k, of])
            else:
                sz = rng.choice([22, 40, 60, 100, 101])
                ops.append([b'put', k, sz, 0 if rng.chance(2, 3) else rng.choice([1, 11]), of])
        out.append([cap, ops])
    return out


def lazy_monitor(case, out):
    """A failed lazy open is retried on the CONFIGURED directory: requests fail only while the directory cannot be
    opened, nothing is ever written elsewhere, the cache keeps reporting the configured location, and afterwards
    it behaves like any other DiskCache (put_monitor)."""
    cap, ops = case[:2]
    vs = []
    if not isinstance(out, list) or len(out) != len(ops):
        return ['malformed implementation output']
    opened = False
    served = []
    for i, (op, obs) in enumerate(zip(ops, out)):
        if obs and obs[0] == b'panic':
            vs.append('op %d %s: the cache panicked' % (i, op))
            return vs
        res, size, index, ntmp, stray, loc_ok, nroot = obs
        blocked = op[-1] == 1 and not opened
        if blocked and res != b'open_err':
            vs.append('op %d %s: answered %s although the configured cache directory could not be opened (the cache is rooted somewhere else)' % (i, op, res.decode()))
        if not blocked:
            opened = True
            if res == b'open_err':
                vs.append('op %d %s: the request fails although the cache directory can be opened now: an earlier failed open wedged the cache' % (i, op))
        if stray:
            vs.append('op %d %s: %d file(s) written outside the configured cache directory (under the working directory)' % (i, op, stray))
        if not loc_ok:
            vs.append('op %d %s: the cache no longer reports the configured directory as its location' % (i, op))
        if nroot != len(index):
            vs.append('op %d %s: %d entries indexed but %d entry files under the configured directory' % (i, op, len(index), nroot))
        if res != b'open_err':
            served.append((op[:-1], obs[:4]))
    vs += put_monitor([cap, [o for o, _ in served]], [b for _, b in served])
    return vs


def lazy_nontrivial(case, out):
    try:
        return any(obs[0] in (b'open_err', b'write_err', b'panic') for obs in out)
    except Exception:
        return True


def lazy_stats(case, out):
    ks = ['lazy-cap=%d' % case[0]]
    for op in case[1]:
        ks.append('op=' + op[0].decode() + ('-openfault' if op[-1] else ''))
    try:
        for obs in out:
            ks.append('res=' + obs[0].decode())
    except Exception:
        pass
    return ks


def lazy_neighbours(case):
    cap, ops = case[:2]
    for i in range(1, len(ops)):
        yield [cap, ops[i:] + ops[:i]]
    yield [cap, ops + [[b'put', b'cccc0002', 60, 0, 0]]]
    yield [cap, [[b'get', b'aaaa0000', 1]] + ops + [[b'put', b'cccc0002', 60, 0, 0]]]


def legs(tier):
    def gen(rng, tier):
        two = dict(keys=[b'a', b'b'], sizes=[0, 5, 10, 12, 13, 15])
        if tier == 'thorough':
            return (gen_exhaustive(5) + gen_scenarios(4) + gen_random(rng, 40000, 30) + gen_random(rng, 20000, 30, True)
                    + gen_random(rng, 20000, 12, True, **two) + gen_ties(rng, 5000))
        return (gen_exhaustive(3) + gen_scenarios(3) + gen_random(rng, 2200, 30) + gen_random(rng, 800, 30, True)
                + gen_random(rng, 1500, 12, True, **two) + gen_ties(rng, 300))

    def gen_put(rng, tier):
        if tier == 'thorough':
            return gen_put_exhaustive(5) + gen_put_random(rng, 20000, 14)
        return gen_put_exhaustive(3) + gen_put_random(rng, 1200, 12)
    def gen_lazy(rng, tier):
        if tier == 'thorough':
            return gen_lazy_exhaustive(5) + gen_lazy_random(rng, 10000, 10)
        return gen_lazy_exhaustive(3) + gen_lazy_random(rng, 800, 10)
    return [Leg('lru', gen, compare_case=compare_case, monitor=monitor, nontrivial=nontrivial, shrink=shrink, neighbours=neighbours,
                stats=stats,
                rule='exhaustive op sequences over a 10-op alphabet (depth 3 quick / 5 thorough) + exhaustive two-phase/overwrite scenarios on a full two-entry cache (12-op alphabet, depth 3/4) + state-aware PRNG sequences of '
                     'length<=30 over 4 keys x 9 sizes x 4 capacities incl. a reservation-heavy stream and pre-populated '
                     'directories; non-trivial = at least one eviction or live reservation occurred; distinct by full case text'),
            Leg('put', gen_put, monitor=put_monitor, nontrivial=put_nontrivial, shrink=put_shrink, neighbours=put_neighbours,
                stats=put_stats,
                rule='real DiskCache::put / get (reserve -> write -> commit | abandon) with write faults injected through '
                     'RLIMIT_FSIZE (EFBIG after m bytes): exhaustive sequences over an 8-op alphabet (depth 3 quick / 5 thorough) '
                     '+ PRNG sequences of length<=12 over 3 keys x 10 sizes x 3 capacities x 6 fault points; non-trivial = a write '
                     'failed or an entry was evicted'),
            Leg('lazy', gen_lazy, monitor=lazy_monitor, nontrivial=lazy_nontrivial, shrink=put_shrink, neighbours=lazy_neighbours,
                stats=lazy_stats,
                rule='real DiskCache opened lazily by the first request, with open faults (a regular file in the place of the '
                     'cache directory\'s parent while the request runs) and write faults, in an empty scratch working directory: '
                     'exhaustive sequences over a 7-op alphabet (depth 3 quick / 5 thorough) + PRNG sequences of length<=10 whose '
                     'first 0-3 requests find the directory unusable; non-trivial = an open or a write failed')]
