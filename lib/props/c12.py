"""C12 — replacing the compiler binary invalidates its results without a restart.

Model: coq/theories/Model/CompilerCache.v (`compiler_info` literally + what a request does with the detected
compiler).  Two ties, both against REAL files and the REAL server code:
  inproc  differential leg: harness/src/bin/c12.rs drives a real `SccacheService` (real `compiler_info`, real
          detection, real `get_cached_or_compile`, real DiskCache) through PRNG histories of binary swaps,
          symlink retargets and compile requests with small shell "compilers"; model and implementation must
          print the same events, and the monitor evaluates the property itself on the implementation's events.
  e2e     the real `sccache` server process, wrapper compilers that exec the real gcc and stamp the object,
          `mv`/`ln -sfn` between requests, objects compared with a direct run of the wrapper then in place,
          cache_hits / cache_misses deltas compared with the model's hit/miss prediction.
Both legs also issue requests WITH A WINDOW: the compiler that answers the request's detection probe is held inside the
probe (fifo `ready` / `go`, no timing) while the history's environment ops are applied, then released.
  T       translator/c12_window.py reads the shape of compiler_info / detect_c_compiler / CCompiler::new the window part
          of the model depends on (key, hit condition, mtime bound once before the detection and stored, digest read
          after the probe, memoise-if-unchanged or unconditionally) and says which model variant the tree is.
"""
import json
import os
import shutil
import socket
import subprocess
import time
from concurrent.futures import ThreadPoolExecutor

from .. import pipeline, sx
from ..pipeline import Leg
from ..prng import Rng

ID = 'C12'
HARNESS_BIN = 'c12'
RUN_MODULE = 'Run.C12'
REPO_BINS = ['sccache']
THEOREMS = ['C12_identity_is_current', 'C12_no_cross_binary_results', 'C12_swap_back',
            'C12_distinct_binaries_never_share', 'C12_same_mtime_refuted', 'C12_shared_entry_refuted',
            'C12_window_refuted', 'C12_asfound_is_fixed_without_windows',
            'C12_proxy_follows_selection', 'C12_proxy_memo_refuted', 'C12_join_refuted',
            'C12_rust_identity_sees_through_links']
ASSUMPTIONS = [
    'premise of the property, explicit as the boolean `wf_history` (= `mtime_tracks_content` on the recorded requests): two '
    'requests naming the same compiler path that see the same mtime there (through links, as stat does) see the same bytes '
    'there; C12_same_mtime_refuted shows it is necessary (documented limit of mtime re-validation, incl. a link retargeted '
    'between two differently named binaries with equal mtimes)',
    'the identity digest (file digest + version string) is a function `detect` of the bytes at the path; `detect` and the key '
    'hash `H` do not collide on the binaries and sources the history touches (boolean `collision_free_in_play`; not needed '
    'for C12_identity_is_current)',
    'a binary that is not recognised as a compiler also fails to preprocess; a recognised one compiles (a NON-compiler put at the '
    'path while a detection of a compiler is in flight is hashed and memoised like one; its digest, 0 in the model, never reaches '
    'a key because the preprocessor run fails first)',
    'the detection window is modelled with ONE injection point per request (while the probe runs, i.e. between the stat and the '
    'digest read); changes between the digest read, the re-stat and the preprocessor / compiler runs of the same request, and two '
    'requests in flight at once, are not modelled.  For a request with a window "the bytes at the path" are those it was served '
    'under (after the window)',
    'links only in the final path component (directories are plain); the dist toolchain archive (dist_info is always None '
    'without a dist client), result-cache eviction and concurrent requests are left out',
    'rustc: Model/RustToolchain.v models (1) the proxy world — a rustup proxy path leads to the toolchain rustup selects NOW; the '
    'registered proxy is asked for every request; entries keyed (proxy, resolved rustc) revalidated by the resolved rustc\'s mtime; '
    'requests straight through a toolchain\'s rustc — and (2) the identity of a rustc = digests of what <sysroot>/lib/*.so loads, '
    'through links.  Premise there: at one toolchain\'s rustc the same mtime means the same build; ident / H collision-free (global '
    'hypotheses).  Left out: a selection pointing to a toolchain that is not installed (the code falls back to the entry of the '
    'very first detection), changes of the proxy FILE (e2e-rustup scenario only), rustc -vV text as part of the identity, the '
    'detection window on the rustc path.  Tie: leg rustworld (real server, minimal rustup + proxy, wrappers around the real rustc, '
    'sysroot libraries as files or as links) + translator checks on RustupProxy / resolve_proxied_executable / Rust::new',
    'an in-place rewrite of a regular file (`rewrite`, same inode) is for the model the same as replacing it (`swap`); the '
    'generators rewrite regular files only',
    'a symlinked DIRECTORY component of a compiler path (`retargetdir`) is for the model the three same-named final-component '
    'links it amounts to for stat / canonicalize / exec; the generators never create files through a linked directory',
    'within one history all fake compilers report the same version text (revision-stamped in half of the histories): the identity '
    'must come from the bytes.  Not modelled: the version text taken from the binary that answered the probe combined with the '
    'digest of the file read after a window (a mixed identity that matches nothing: a harmless extra miss)',
    'rustc, long detection (RHoldBegin..RHoldEnd in Model/RustToolchain.v, held inside `--print=sysroot` in leg rustworld): the '
    'request that overlapped its own detection is keyed on the build that named the sysroot and compiled by the one in place at '
    'the end — it is not constrained by the property and its crate is reserved (never requested otherwise); requests ARRIVING '
    'inside the window are constrained.  If such a request does not finish within 10 s the driver releases the held detection '
    '(only a server that makes it wait gets there)',
]
TRUSTED = [
    'harness/src/bin/c12.rs and the e2e driver in lib/props/c12.py: the shell compilers / gcc wrappers, their invocation log, '
    'the stamp read back from the object, the mapping logical mtime <-> (seconds, quarter-second nanos)',
]

NAMES = ['gcc', 'cc', 'mycc']
GOOD = [1, 2, 3, 4, 5]


# ------------------------------------------------------------------ a tiny python file system, for generation only

class Fs:
    def __init__(self):
        self.n = {}

    def resolve(self, p, fuel=41):
        while fuel > 0:
            x = self.n.get(p)
            if x is None:
                return None
            if x[0] == 'f':
                return (p, x[1], x[2])
            p = x[1]
            fuel -= 1
        return None


def apply_op(fs, op):
    t = op[0]
    if t in (b'swap', b'rewrite'):
        fs.n[(op[1] % 8, op[2] % 3)] = ('f', op[3], op[4])
    elif t == b'retarget':
        fs.n[(op[1] % 8, op[2] % 3)] = ('l', (op[3] % 8, op[4] % 3))
    elif t == b'remove':
        fs.n.pop((op[1] % 8, op[2] % 3), None)
    elif t == b'touch':
        r = fs.resolve((op[1] % 8, op[2] % 3))
        if r:
            fs.n[r[0]] = ('f', r[1], op[3])
    elif t == b'retargetdir':
        for nm in range(3):
            fs.n[(op[1] % 8, nm)] = ('l', (op[2] % 8, nm))
    elif t == b'compile' and len(op) > 4:
        for e in op[4]:
            apply_op(fs, e)


def req_key(fs, p):
    """the key of the compilers map a request through p looks up (None if p cannot be stat'ed)"""
    r = fs.resolve(p)
    if not r:
        return None
    return (p, r[0] if r[0][1] == p[1] else p)


def gen_history(rng, maxlen, adversarial, only_live=False, only_good=False, windows=True):
    """adversarial=False: every binary id travels with its own mtime (like `cp -p` / `mv` of prepared wrappers) and a
    touch uses a never-used mtime, so the premise holds by construction; True: small random mtimes (collisions)."""
    fs = Fs()
    ops = []
    fresh = [40]
    ndirs = rng.choice([2, 3, 4])
    own = {}

    def mt(b):
        if adversarial:
            return rng.range(1, 6)
        if b not in own or rng.chance(1, 8):
            fresh[0] += rng.range(1, 3)
            own[b] = fresh[0]
        return own[b]

    def somepath():
        return (rng.below(ndirs), rng.weighted([(0, 5), (1, 3), (2, 2)]))

    def livepaths():
        return [p for p in sorted(fs.n) if fs.resolve(p)]

    n = rng.range(3, maxlen)
    while len(ops) < n:
        live = livepaths()
        kind = rng.weighted([('swap', 6), ('retarget', 4), ('compile', 12), ('touch', 1), ('remove', 1)])
        if not live and kind in ('compile', 'retarget', 'touch'):
            kind = 'swap'
        if kind == 'swap':
            files = [p for p in live if fs.n[p][0] == 'f']
            if files and rng.chance(2, 3):
                d, nm = rng.choice(files)
            else:
                d, nm = somepath()
            pool = GOOD[:3] if rng.chance(1, 2) else (GOOD if only_good else GOOD + [100, 101])
            b = rng.choice(pool)
            op = [b'swap', d, nm, b, mt(b)]
            if fs.n.get((d, nm), ('', 0))[0] == 'f' and rng.chance(1, 3):
                op[0] = b'rewrite'      # the same change, made in place (same inode; sizes are equal for ids < 10)
        elif kind == 'retarget':
            tgt = rng.choice(live) if (only_live or not rng.chance(1, 10)) else somepath()
            if rng.chance(3, 5):
                l = (rng.below(ndirs), tgt[1])      # same file name: the canonicalised case
            else:
                l = somepath()
            if l == tgt:
                continue
            op = [b'retarget', l[0], l[1], tgt[0], tgt[1]]
        elif kind == 'compile':
            if only_live or not rng.chance(1, 12):
                d, nm = rng.choice(live)
            else:
                d, nm = somepath()
            op = [b'compile', d, nm, rng.weighted([(0, 6), (1, 3), (2, 1)])]
            if windows and fs.resolve((d, nm)) and rng.chance(1, 6):
                # something happens to the file system while this request's detection probe runs
                env = []
                tgt = fs.resolve((d, nm))[0]
                for _ in range(rng.range(1, 2)):
                    k2 = rng.weighted([('swap_here', 5), ('swap_target', 3), ('touch', 1), ('remove', 1), ('retarget', 1)])
                    if only_live and k2 in ('remove', 'retarget'):
                        k2 = 'swap_here'
                    if k2 in ('swap_here', 'swap_target'):
                        q = (d, nm) if k2 == 'swap_here' else tgt
                        b = rng.choice(GOOD[:3] if (only_good or rng.chance(5, 6)) else [100])
                        env.append([b'rewrite' if (fs.n.get(q, ('', 0))[0] == 'f' and rng.chance(1, 3)) else b'swap',
                                    q[0], q[1], b, mt(b)])
                    elif k2 == 'touch':
                        fresh[0] += 1
                        env.append([b'touch', d, nm, rng.range(1, 6) if adversarial else fresh[0]])
                    elif k2 == 'remove':
                        env.append([b'remove', d, nm])
                    else:
                        q = somepath()
                        if q != (d, nm):
                            env.append([b'retarget', d, nm, q[0], q[1]])
                if env:
                    op.append(env)
        elif kind == 'touch':
            d, nm = rng.choice(live)
            fresh[0] += 1
            op = [b'touch', d, nm, rng.range(1, 6) if adversarial else fresh[0]]
        else:
            d, nm = rng.choice(live) if live else somepath()
            op = [b'remove', d, nm]
        apply_op(fs, op)
        ops.append(op)
    return ops


def gen_scenarios():
    """hand-shaped families: swap / swap back, two links to one binary, name-changing links, loops."""
    out = []
    for nm in (0, 1, 2):
        out.append([[b'swap', 0, nm, 1, 5], [b'compile', 0, nm, 0], [b'compile', 0, nm, 0], [b'swap', 0, nm, 2, 6],
                    [b'compile', 0, nm, 0], [b'swap', 0, nm, 1, 5], [b'compile', 0, nm, 0], [b'compile', 0, nm, 1]])
        out.append([[b'swap', 2, nm, 1, 5], [b'swap', 3, nm, 2, 9], [b'retarget', 0, nm, 2, nm], [b'retarget', 1, nm, 2, nm],
                    [b'compile', 0, nm, 0], [b'retarget', 0, nm, 3, nm], [b'compile', 1, nm, 1], [b'compile', 0, nm, 1],
                    [b'compile', 1, nm, 0]])
        out.append([[b'swap', 2, nm, 1, 5], [b'retarget', 0, nm, 2, nm], [b'retarget', 1, nm, 2, nm],
                    [b'compile', 0, nm, 0], [b'remove', 0, nm], [b'compile', 1, nm, 1]])
    out.append([[b'swap', 2, 0, 1, 5], [b'swap', 3, 0, 2, 5], [b'retarget', 0, 1, 2, 0], [b'compile', 0, 1, 0],
                [b'retarget', 0, 1, 3, 0], [b'compile', 0, 1, 0]])
    out.append([[b'swap', 2, 0, 1, 5], [b'swap', 3, 0, 2, 5], [b'retarget', 0, 0, 2, 0], [b'compile', 0, 0, 0],
                [b'retarget', 0, 0, 3, 0], [b'compile', 0, 0, 0]])
    out.append([[b'retarget', 0, 0, 1, 0], [b'retarget', 1, 0, 0, 0], [b'compile', 0, 0, 0], [b'swap', 1, 0, 1, 5],
                [b'compile', 0, 0, 0]])
    out.append([[b'swap', 0, 0, 100, 5], [b'compile', 0, 0, 0], [b'swap', 0, 0, 1, 6], [b'compile', 0, 0, 0],
                [b'swap', 0, 0, 100, 7], [b'compile', 0, 0, 0], [b'swap', 0, 0, 1, 6], [b'compile', 0, 0, 0]])
    out.append([[b'swap', 0, 0, 1, 5], [b'compile', 0, 0, 0], [b'swap', 0, 0, 2, 4], [b'compile', 0, 0, 0],
                [b'touch', 0, 0, 5], [b'compile', 0, 0, 0]])
    return out


def gen_recycled(rng, p=None, via_link=None, good_only=False):
    """three binaries at one path, A and C sharing an exact mtime, B another one; a walk A/C -> B -> A/C -> B ... so
    that EVERY swap changes both contents and mtime, each binary being requested while it is there."""
    p = p or (rng.below(3), rng.below(3))
    a, b, c = rng.shuffle(GOOD)[:3]
    if not good_only and rng.chance(1, 3):
        b = rng.choice([100, 101])      # the binary in between is no compiler at all: its requests are refused
    ma = rng.range(1, 20)
    mb = ma + rng.range(1, 9)
    req = p
    ops = []
    if via_link if via_link is not None else rng.chance(1, 3):
        req = ((p[0] + 1) % 4, p[1] if rng.chance(1, 2) else (p[1] + 1) % 3)
        ops.append([b'retarget', req[0], req[1], p[0], p[1]])
    seq = []
    for i in range(rng.range(3, 7)):
        seq.append(rng.choice([a, c]) if i % 2 == 0 else b)
    if a not in seq or c not in seq:
        seq[0], seq[2] = a, c
    inplace = rng.chance(1, 2)
    for i, x in enumerate(seq):
        ops.append([b'rewrite' if (inplace and i > 0) else b'swap', p[0], p[1], x, mb if x == b else ma])
        for _ in range(rng.range(1, 2)):
            ops.append([b'compile', req[0], req[1], rng.below(2)])
    return ops


def gen_inplace(rng, p=None):
    """binaries of equal size written IN PLACE over each other (same inode) with mtimes that differ only below the
    second (the logical mtime counts quarter seconds): a change in the sense of the property that an identity taken
    from (device, inode, size, whole seconds) does not see."""
    p = p or (rng.below(3), rng.below(3))
    sec = 4 * rng.range(2, 30)
    bins = rng.shuffle(GOOD)[:3]
    quarters = rng.shuffle([0, 1, 2, 3])
    ops = [[b'swap', p[0], p[1], bins[0], sec + quarters[0]], [b'compile', p[0], p[1], 0]]
    own = {bins[0]: quarters[0]}
    last = bins[0]
    for i in range(rng.range(2, 4)):
        x = rng.choice([y for y in bins if y != last])
        if x not in own:
            own[x] = quarters[len(own)]
        ops.append([b'rewrite', p[0], p[1], x, sec + own[x]])
        for _ in range(rng.range(1, 2)):
            ops.append([b'compile', p[0], p[1], rng.below(2)])
        last = x
    return ops


def gen_dirlink(rng, nm=None):
    """toolchains installed side by side in directories a, b(, c); the compiler path goes through a DIRECTORY link
    (d6 or d7 -> a) that is retargeted back and forth; the files themselves are never touched."""
    nm = rng.below(3) if nm is None else nm
    dirs = rng.shuffle([0, 1, 2, 3])[:rng.range(2, 3)]
    bins = rng.shuffle(GOOD)
    L = rng.choice([6, 7])
    ops = []
    m0 = rng.range(1, 20)
    same_mtime = rng.chance(1, 4)       # side-by-side installs from one package: equal timestamps, different files
    for i, d in enumerate(dirs):
        ops.append([b'swap', d, nm, bins[i], m0 if same_mtime else m0 + 3 * i])
    cur = None
    for _ in range(rng.range(3, 6)):
        d = rng.choice([x for x in dirs if x != cur])
        cur = d
        ops.append([b'retargetdir', L, d])
        for _ in range(rng.range(1, 2)):
            ops.append([b'compile', L, nm, rng.below(2)])
        if rng.chance(1, 5):
            ops.append([b'compile', d, nm, rng.below(2)])
    return ops


def gen_window(rng, p=None):
    """a detection in flight while the binary is replaced: the new binary stays (later requests must be keyed on it),
    or the old file comes back with its original mtime before / after another request, or the swap happens during a
    RE-detection of a reinstalled binary."""
    p = p or (rng.below(3), rng.below(3))
    a, b = rng.shuffle(GOOD)[:2]
    ma = rng.range(1, 20)
    mb = ma + rng.range(1, 9)
    s0, s1 = rng.below(2), rng.below(3)
    ops = [[b'swap', p[0], p[1], a, ma]]
    if rng.chance(1, 2):
        # the binary is known already; it is reinstalled (new mtime), so the next request re-detects
        ops.append([b'compile', p[0], p[1], s1])
        ma2 = mb + rng.range(1, 5)
        ops.append([b'swap', p[0], p[1], a, ma2])
        mb2 = ma2 + rng.range(1, 5)
    else:
        ma2, mb2 = ma, mb
    ops.append([b'compile', p[0], p[1], s0, [[b'swap', p[0], p[1], b, mb2]]])
    tail = rng.weighted([('stays', 5), ('restore_now', 3), ('restore_later', 2)])
    if tail == 'stays':
        ops += [[b'compile', p[0], p[1], s1], [b'compile', p[0], p[1], s0]]
        if rng.chance(1, 2):
            ops += [[b'swap', p[0], p[1], a, ma2], [b'compile', p[0], p[1], s1], [b'compile', p[0], p[1], s0]]
    elif tail == 'restore_now':
        ops += [[b'swap', p[0], p[1], a, ma2], [b'compile', p[0], p[1], s1], [b'compile', p[0], p[1], s0]]
    else:
        ops += [[b'compile', p[0], p[1], s1], [b'swap', p[0], p[1], a, ma2], [b'compile', p[0], p[1], s1],
                [b'compile', p[0], p[1], s0]]
    return ops


# ------------------------------------------------------------------ the property, on the implementation's events

def compile_ops(case):
    return [op for op in case if op and op[0] == b'compile']


def request_keys(case):
    """for every compile op: the compilers-map key it looks up, from a replay of the history"""
    fs = Fs()
    keys = []
    for op in case:
        if op and op[0] == b'compile':
            keys.append(req_key(fs, (op[1] % 8, op[2] % 3)))
        apply_op(fs, op)
    return keys


def cur0_of(ev):
    return ev[5] if len(ev) > 5 else ev[2]


def premise_holds(case, out):
    """mtime_tracks_content: a request that finds, on arrival, the mtime under which the previous request with the same
    key was served, finds the same bytes; evaluated on what the implementation's side really saw at the paths."""
    last = {}
    for key, ev in zip(request_keys(case), out):
        cur0 = cur0_of(ev)
        if key is None or not cur0:
            if key is not None:
                last[key] = ev[2] or None
            continue
        prev = last.get(key)
        if prev and prev[1] == cur0[1] and prev[0] != cur0[0]:
            return False
        last[key] = ev[2] or None
    return True


def window_restored(case, out, upto):
    """known class C12-K1: before request `upto` there is a request whose window changed the file at its path, and
    the NEXT request with the same key found the pre-window mtime there again (the old file put back with its original
    timestamp, or anything else carrying it): the entry (pre-window mtime, post-window digest) is trusted."""
    last = {}
    for i, (key, ev) in enumerate(zip(request_keys(case), out)):
        if i > upto:
            break
        cur0 = cur0_of(ev)
        if key is None:
            continue
        w = last.get(key)
        if w is not None and cur0 and cur0[1] == w:
            return True
        changed = bool(cur0) and list(ev[2] or []) != list(cur0)
        last[key] = cur0[1] if changed else None
    return False


def classify(case, out, v):
    import re as _re
    m = _re.match(r'request (\d+)\b', v)
    if m and window_restored(case, out, int(m.group(1))):
        return 'C12-K1'
    return None


def monitor(case, out):
    cops = compile_ops(case)
    if not isinstance(out, list) or len(out) != len(cops) or any(not isinstance(e, list) or len(e) < 4 for e in out):
        return ['malformed implementation output']
    vs = []
    for i, ev in enumerate(out):
        if ev[2] and ev[2][0] >= 777000:
            vs.append('request %d: harness problem — running the path directly did not give the labelled binary' % i)
    if vs or not premise_holds(case, out):
        return vs
    served = {}          # (binary, src) -> True once a result for it was produced/returned
    for i, (op, ev) in enumerate(zip(cops, out)):
        res, prod, cur = ev[0], ev[1], ev[2]
        src = op[3] % 4
        where = 'request %d (%s/%s, source %d)' % (i, 'd%d' % (op[1] % 8), NAMES[op[2] % 3], src)
        if not cur:
            # the property is silent about HOW a request for a path holding nothing is turned down;
            # it only must not be answered with somebody's object
            if res in (b'hit', b'miss'):
                vs.append('%s: nothing at the path, yet the server handed back an object (%s, producer %d)' % (where, res.decode(), prod))
            continue
        b = cur[0]
        if res in (b'hit', b'miss'):
            if prod != b:
                vs.append('%s: binary %d is at the path but the object handed back was produced by binary %d (%s)'
                          % (where, b, prod, res.decode()))
            if res == b'miss' and (b, src) in served:
                vs.append('%s: binary %d is back at the path but its earlier result was not reused' % (where, b))
            if res == b'hit' and (b, src) not in served:
                vs.append('%s: cache hit for binary %d which never compiled this source in this history' % (where, b))
            served[(b, src)] = True
        elif b < 100:
            # proved as part of C12_identity_is_current (a working compiler at the path is always served, keyed on
            # its own identity): e.g. the pre-fix shared entry made such requests fail once the other link was removed
            vs.append('%s: a working compiler (binary %d) is at the path but the request ended in %s' % (where, b, res.decode()))
        # a non-compiler at the path: how it is turned down (unsupported / fail) is not the property's business
    return vs


def nontrivial(case, out):
    try:
        bins = {}
        for op, ev in zip(compile_ops(case), out):
            if ev[0] in (b'hit', b'miss'):
                bins.setdefault((op[1] % 8, op[2] % 3), set()).add(ev[2][0])
        return any(len(s) >= 2 for s in bins.values())
    except Exception:
        return True


def stats(case, out):
    ks = ['len=%d' % min(len(case), 40)]
    for op in case:
        ks.append('op=' + op[0].decode())
    try:
        ks.append('premise=%s' % ('holds' if premise_holds(case, out) else 'violated'))
        for ev in out:
            ks.append('res=' + ev[0].decode())
            ks.append('detected=%d' % ev[3])
    except Exception:
        pass
    return ks


def shrink(case):
    for i in range(len(case)):
        yield case[:i] + case[i + 1:]


def neighbours(case):
    # model-guided families on the paths the case requests: A -> B -> C with A and C sharing an mtime (each swap changes
    # contents and mtime), and a swap during a detection
    rng = Rng(len(case) + 7)
    seen = []
    for op in case:
        if op[0] == b'compile' and (op[1] % 8, op[2] % 3) not in seen:
            seen.append((op[1] % 8, op[2] % 3))
    for p in seen[:3] or [(0, 0)]:
        for k in range(12):
            yield gen_recycled(rng, p, via_link=(k % 3 == 2))
        for k in range(8):
            yield gen_window(rng, p)
        for k in range(6):
            yield gen_inplace(rng, p)
        for k in range(6):
            yield gen_dirlink(rng, p[1])
    for i in range(1, len(case)):
        yield case[i:] + case[:i]
    for i, op in enumerate(case):
        if op[0] == b'swap':
            for m in (1, 2, 3, 50 + i):
                yield case[:i] + [[b'swap', op[1], op[2], op[3], m]] + case[i + 1:]
            for b in (1, 2, 100):
                yield case[:i] + [[b'swap', op[1], op[2], b, op[4]]] + case[i + 1:]
        if op[0] == b'compile':
            for d in range(4):
                yield case[:i] + [[b'compile', d, op[2], op[3]]] + case[i + 1:]


def gen_inproc(rng, tier):
    n = 24000 if tier == 'thorough' else 1700
    out = gen_scenarios()
    for i in range(n):
        out.append(gen_history(rng, 24, adversarial=(i % 4 == 3)))
    for i in range(n // 8):
        out.append(gen_recycled(rng))
        out.append(gen_window(rng))
        if i % 2 == 0:
            out.append(gen_inplace(rng))
        else:
            out.append(gen_dirlink(rng))
    return out


def legs(tier):
    return [Leg('inproc', gen_inproc, monitor=monitor, nontrivial=nontrivial, shrink=shrink, neighbours=neighbours,
                stats=stats, classify=classify,
                rule='PRNG histories (<= 24 ops) over 4 directories x 3 file names (gcc, cc = detected directly; mycc = via the '
                     'rustc probe first), 5 working + 2 non-compiler binaries, regular files and links (same-name = '
                     'canonicalised, other-name = not, chains, loops, dangling), 3/4 with the premise holding by '
                     'construction and 1/4 with colliding mtimes, 1/6 of the requests with a WINDOW (file-system changes applied '
                     'while the request\'s detection probe is held, fifo-synchronised), plus families: swap / swap-back / '
                     'two-links / removed-link, three binaries with a recycled mtime (A -> B -> C, A and C sharing an mtime, '
                     'every swap changing contents and mtime), swap during a (re-)detection with the new binary staying or '
                     'the old file restored; non-trivial = some requested path was served by two different binaries; distinct by case text')]


def translate(rep):
    from translator import c12_window
    facts = c12_window.run(pipeline.REPO, pipeline.COQ)
    rep.oblige('translate:compiler_info-shape', True, repr(facts))
    rep.tree_variant = facts['variant']
    if facts['variant'] == 'VAsFound':
        k1 = any(k.get('id') == 'C12-K1' for k in pipeline.load_known(ID))
        rep.oblige('window-fix-or-known-finding', k1,
                   'the tree memoises a detection unconditionally (model variant VAsFound); the four theorems are about VFixed, '
                   'which it equals on histories without a detection window (C12_asfound_is_fixed_without_windows); the rest is '
                   'known finding C12-K1' + ('' if k1 else ' — which is NOT registered as open'))
        rep.notes.append('tree variant VAsFound: fix "do not memoise a compiler whose executable changed while it was being detected" '
                         '(branch verif/C12-b) not merged; known finding C12-K1 open')
    else:
        rep.notes.append('tree variant VFixed')


# ------------------------------------------------------------------ e2e: the real server process, real gcc

def prebuild(rep):
    ok, out = pipeline.build_repo_bins(REPO_BINS)
    rep.oblige('build:sccache', ok, out[-3000:] if not ok else 'cargo build --offline --bin sccache, --cfg sccache_verif')
    rep.bin_ok = ok


WRAPPER = r'''#!/bin/sh
# compiler %(id)d
mode=C; out=; src=; prev=
for a in "$@"; do
  case "$a" in -E) mode=E;; *.c) src=$a;; esac
  [ "$prev" = -o ] && out=$a
  prev=$a
done
case "$src" in *testfile.c) [ $mode = E ] && mode=D;; esac
echo "%(id)d $mode" >> %(log)s
if [ $mode = D ] && [ -e %(root)s/arm ]; then rm -f %(root)s/arm; echo r > %(root)s/ready; read x < %(root)s/go; fi
# what a compiler says about itself does not tell two builds apart (per history: one revision-stamped version, or one plain one)
if [ $mode = D ]; then echo "compiler_id=gcc"; echo 'compiler_version=%(version)s'; exit 0; fi
/usr/bin/gcc "$@"; rc=$?
if [ $rc -eq 0 ] && [ $mode = C ] && [ -n "$out" ] && [ -f "$out" ]; then printf '\nWRAPPER_ID=%(id)d\n' >> "$out"; fi
exit $rc
'''
BASE = 1500000000


def wrapper_version(stamped):
    return '"12.2.0 (https://git.example.org/toolchain/gcc 6009708b4367171ccdbf4b5905cb6a803753fe18)"' if stamped else '"12.2.0"'


def free_port():
    s = socket.socket()
    s.bind(('127.0.0.1', 0))
    p = s.getsockname()[1]
    s.close()
    return p


def kill_servers(cache_dir):
    want = ('SCCACHE_DIR=' + cache_dir).encode()
    for d in os.listdir('/proc'):
        if not d.isdigit():
            continue
        try:
            env = open('/proc/%s/environ' % d, 'rb').read().split(b'\0')
            if want not in env or b'SCCACHE_START_SERVER=1' not in env:
                continue
            st = open('/proc/%s/stat' % d).read()
            if st[st.rindex(')') + 2] == 'Z':
                continue
            os.kill(int(d), 9)
        except (OSError, ValueError):
            continue


def stamp_of(path):
    try:
        data = open(path, 'rb').read()
    except OSError:
        return 0
    i = data.rfind(b'WRAPPER_ID=')
    if i < 0:
        return 0
    try:
        return int(data[i + 11:].split()[0])
    except (ValueError, IndexError):
        return 0


def e2e_history(binp, case, idx):
    """-> (events like the model's, minus the E/C log entries, problems)"""
    root = '/dev/shm/c12e2e-%d-%d' % (os.getpid(), idx)
    shutil.rmtree(root, ignore_errors=True)
    os.makedirs(root)
    log = os.path.join(root, 'log')
    open(log, 'w').close()
    os.mkfifo(os.path.join(root, 'ready'))
    os.mkfifo(os.path.join(root, 'go'))
    ready_fd = os.open(os.path.join(root, 'ready'), os.O_RDONLY | os.O_NONBLOCK)   # stays open: the held wrapper's write never blocks
    for d in range(8):
        os.makedirs(os.path.join(root, 'd%d' % d))
    cwd = os.path.join(root, 'w')
    os.makedirs(cwd)
    for s in range(4):
        open(os.path.join(cwd, 's%d.c' % s), 'w').write('int f%d(void){return %d;}\n' % (s, s))
    cache = os.path.join(root, 'cache')
    env = {'PATH': '/usr/bin:/bin', 'HOME': root, 'SCCACHE_DIR': cache, 'SCCACHE_IDLE_TIMEOUT': '120',
           'SCCACHE_SERVER_PORT': '0', 'TMPDIR': root}

    def P(d, n):
        return os.path.join(root, 'd%d' % (d % 8), NAMES[n % 3])

    def take_log():
        t = open(log).read().split('\n')
        open(log, 'w').close()
        return [l.split() for l in t if l.strip()]

    def sccache(*a, **kw):
        return subprocess.run([binp] + list(a), env=env, cwd=cwd, stdout=subprocess.PIPE, stderr=subprocess.PIPE, timeout=120, **kw)

    def counters():
        r = sccache('--show-stats', '--stats-format=json')
        st = json.loads(r.stdout.decode())['stats']
        return (sum(st['cache_hits']['counts'].values()), sum(st['cache_misses']['counts'].values()),
                st.get('requests_unsupported_compiler', 0), st.get('compile_requests', 0))

    events = []
    problems = []
    try:
        for attempt in range(5):
            env['SCCACHE_SERVER_PORT'] = str(free_port())
            r = sccache('--start-server')
            if r.returncode == 0:
                break
        else:
            return None, ['server did not start: ' + r.stderr.decode()[-300:]]
        prev = counters()

        def fs_op(op):
            t = op[0]
            if t == b'swap':
                p = P(op[1], op[2])
                tmp = p + '.tmp'
                # written by a child process: this driver is multi-threaded, and a file it had open for writing
                # while another thread forks would be ETXTBSY for whoever executes it next
                subprocess.run(['/bin/sh', '-c', 'cat > "$0" && chmod 755 "$0"', tmp],
                               input=(WRAPPER % {'id': op[3], 'log': log, 'root': root, 'version': wrapper_version(len(case) % 2 == 1)}).encode(), check=True)
                m = op[4]
                ns = (BASE + m // 4) * 10**9 + (m % 4) * 250000000
                os.utime(tmp, ns=(ns, ns))
                os.rename(tmp, p)          # mv: the path is a new regular file, mtime preserved
            elif t == b'retargetdir':
                l = os.path.join(root, 'd%d' % (op[1] % 8))
                if os.path.islink(l):
                    os.unlink(l)
                else:
                    shutil.rmtree(l, ignore_errors=True)
                os.symlink(os.path.join(root, 'd%d' % (op[2] % 8)), l)    # ln -sfn on a directory
            elif t == b'rewrite':
                p = P(op[1], op[2])
                if os.path.islink(p) or not os.path.isfile(p):
                    try:
                        os.unlink(p)
                    except OSError:
                        pass
                # `cat new > path`: in place, the file keeps its inode
                subprocess.run(['/bin/sh', '-c', 'cat > "$0" && chmod 755 "$0"', p],
                               input=(WRAPPER % {'id': op[3], 'log': log, 'root': root, 'version': wrapper_version(len(case) % 2 == 1)}).encode(), check=True)
                m = op[4]
                ns = (BASE + m // 4) * 10**9 + (m % 4) * 250000000
                os.utime(p, ns=(ns, ns))
            elif t == b'retarget':
                l = P(op[1], op[2])
                try:
                    os.unlink(l)
                except OSError:
                    pass
                os.symlink(P(op[3], op[4]), l)    # ln -sfn
            elif t == b'remove':
                try:
                    os.unlink(P(op[1], op[2]))
                except OSError:
                    pass
            elif t == b'touch':
                m = op[3]
                ns = (BASE + m // 4) * 10**9 + (m % 4) * 250000000
                try:
                    os.utime(P(op[1], op[2]), ns=(ns, ns))
                except OSError:
                    pass
            else:
                return False
            return True

        def measure(p, src):
            """what is at the path now: (stamp of a DIRECT run of it, mtime, the object it makes)"""
            try:
                st = os.stat(p)
            except OSError:
                return [], b''
            mt = (st.st_mtime_ns // 10**9 - BASE) * 4 + (st.st_mtime_ns % 10**9) // 250000000
            dobj = os.path.join(cwd, 'direct.o')
            try:
                os.unlink(dobj)
            except OSError:
                pass
            subprocess.run([p, '-c', src, '-o', 'direct.o'], cwd=cwd, env=env, stdout=subprocess.PIPE, stderr=subprocess.PIPE, timeout=120)
            direct = stamp_of(dobj)
            data = open(dobj, 'rb').read() if direct else b''
            take_log()
            return [direct, mt], data

        for op in case:
            if fs_op(op):
                continue
            if op[0] == b'compile':
                p = P(op[1], op[2])
                src = 's%d.c' % (op[3] % 4)
                envops = op[4] if len(op) > 4 else []
                obj = os.path.join(cwd, 'o.o')
                try:
                    os.unlink(obj)
                except OSError:
                    pass
                cur0, direct_obj = measure(p, src)
                held = False
                if not envops:
                    r = sccache(p, '-c', src, '-o', 'o.o')
                    rc = r.returncode
                else:
                    # a request during whose detection probe the environment acts: the wrapper that answers the probe
                    # stops in it (writes `ready`, blocks on `go`) until the envops are applied.  No timing involved.
                    open(os.path.join(root, 'arm'), 'w').close()
                    pr = subprocess.Popen([binp, p, '-c', src, '-o', 'o.o'], env=env, cwd=cwd, stdout=subprocess.PIPE, stderr=subprocess.PIPE)
                    t0 = time.time()
                    while pr.poll() is None and time.time() - t0 < 120:
                        try:
                            if os.read(ready_fd, 8):
                                held = True
                                break
                        except BlockingIOError:
                            pass
                        time.sleep(0.002)
                    if held:
                        for e in envops:
                            fs_op(e)
                        with open(os.path.join(root, 'go'), 'w') as g:
                            g.write('g\n')
                    pr.communicate(timeout=120)
                    rc = pr.returncode
                    if not held:
                        try:
                            os.unlink(os.path.join(root, 'arm'))
                        except OSError:
                            pass
                        for e in envops:
                            fs_op(e)
                lg = take_log()
                now = counters()
                dh, dm, du = now[0] - prev[0], now[1] - prev[1], now[2] - prev[2]
                prev = now
                got = stamp_of(obj)
                got_obj = open(obj, 'rb').read() if got else b''
                if held:
                    cur, direct_obj = measure(p, src)
                else:
                    cur = cur0
                direct = cur[0] if cur else 0
                if rc != 0:
                    res = b'fail'
                elif (dh, dm, du) == (1, 0, 0):
                    res = b'hit'
                elif (dh, dm, du) == (0, 1, 0):
                    res = b'miss'
                elif du == 1:
                    res = b'unsupported'
                else:
                    res = ('stats_%d_%d_%d' % (dh, dm, du)).encode()
                detected = 1 if any(len(x) == 2 and x[1] == 'D' for x in lg) else 0
                events.append([res, got if res in (b'hit', b'miss') else 0, cur, detected, [], cur0])
                if res in (b'hit', b'miss') and direct and got_obj != direct_obj:
                    problems.append('request %d: object differs byte-wise from the direct run of the wrapper in place '
                                    '(stamp got %d, direct %d)' % (len(events) - 1, got, direct))
    finally:
        try:
            sccache('--stop-server')
        except Exception:
            pass
        kill_servers(cache)
        try:
            os.close(ready_fd)
        except OSError:
            pass
        shutil.rmtree(root, ignore_errors=True)
    return events, problems


RUST_WRAPPER = r"""#!/bin/sh
case "$1" in +*) echo "error: no such toolchain" >&2; exit 1;; --print=sysroot) echo %(sys)s; exit 0;; esac
exec %(real)s --cfg %(cfg)s "$@"
"""
RUST_SRC = """#[cfg(wrapper_b)] pub fn f() -> u32 { 2222 }
#[cfg(wrapper_c)] pub fn f() -> u32 { 3333 }
#[cfg(not(any(wrapper_b, wrapper_c)))] pub fn f() -> u32 { 1111 }
"""


def e2e_rustup(binp):
    """The rustup-proxy branch of compiler_info (not in the Coq model), as a fixed scenario on the real server:
    a path that first holds a rustup proxy, then toolchain B, then toolchain C, then B again, then the proxy again
    (B, C = wrappers around the real rustc that flip a cfg and announce their own sysroot, i.e. different identity).
    -> (list of (what, outcome, same_as_direct), problems) or (None, [reason]) when rustup is not usable here."""
    rustup = shutil.which('rustup')
    if not rustup:
        return None, ['no rustup in PATH']
    renv = {'PATH': os.environ.get('PATH', '/usr/bin:/bin'), 'HOME': os.path.expanduser('~'),
            'RUSTUP_HOME': os.environ.get('RUSTUP_HOME', os.path.expanduser('~/.rustup')),
            'CARGO_HOME': os.environ.get('CARGO_HOME', os.path.expanduser('~/.cargo'))}
    try:
        real = subprocess.run([rustup, 'which', 'rustc'], env=renv, stdout=subprocess.PIPE, stderr=subprocess.PIPE,
                              timeout=60).stdout.decode().strip()
    except Exception:
        real = ''
    if not real or not os.path.exists(real):
        return None, ['rustup which rustc gave nothing']
    root = '/dev/shm/c12rust-%d' % os.getpid()
    shutil.rmtree(root, ignore_errors=True)
    os.makedirs(os.path.join(root, 'x'))
    cwd = os.path.join(root, 'w')
    os.makedirs(cwd)
    cache = os.path.join(root, 'cache')
    env = dict(renv)
    env.update({'SCCACHE_DIR': cache, 'SCCACHE_IDLE_TIMEOUT': '120', 'TMPDIR': root})
    for n in 'abc':
        open(os.path.join(cwd, n + '.rs'), 'w').write(RUST_SRC)
    px = os.path.join(root, 'x', 'rustc')
    os.symlink(os.path.realpath(rustup), os.path.join(root, 'x', 'rustup'))

    def install(what):
        try:
            os.unlink(px)
        except OSError:
            pass
        if what == 'proxy':
            os.symlink('rustup', px)
            return
        cfg, day = {'B': ('wrapper_b', 1), 'C': ('wrapper_c', 2)}[what]
        sysd = os.path.join(root, 'sys_' + what, 'lib')
        os.makedirs(sysd, exist_ok=True)
        open(os.path.join(sysd, 'librustc_driver-%s.so' % what), 'w').write('driver of ' + what)
        subprocess.run(['/bin/sh', '-c', 'cat > "$0" && chmod 755 "$0"', px],
                       input=(RUST_WRAPPER % {'sys': os.path.dirname(sysd), 'real': real, 'cfg': cfg}).encode(), check=True)
        ns = (BASE + 86400 * day) * 10**9
        os.utime(px, ns=(ns, ns))

    def sccache(*a):
        return subprocess.run([binp] + list(a), env=env, cwd=cwd, stdout=subprocess.PIPE, stderr=subprocess.PIPE, timeout=300)

    def counters():
        st = json.loads(sccache('--show-stats', '--stats-format=json').stdout.decode())['stats']
        return sum(st['cache_hits']['counts'].values()), sum(st['cache_misses']['counts'].values())

    steps = [('proxy', 'a'), ('proxy', 'c'), ('B', 'b'), ('C', 'b'), ('B', 'b'), ('proxy', 'a')]
    obs = []
    problems = []
    try:
        for attempt in range(5):
            env['SCCACHE_SERVER_PORT'] = str(free_port())
            r = sccache('--start-server')
            if r.returncode == 0:
                break
        else:
            return None, ['server did not start: ' + r.stderr.decode()[-300:]]
        prev = counters()
        seen = set()
        for i, (what, src) in enumerate(steps):
            install(what)
            for d in ('out', 'dout'):
                shutil.rmtree(os.path.join(cwd, d), ignore_errors=True)
                os.makedirs(os.path.join(cwd, d))
            args = ['--crate-type', 'lib', '--crate-name', src, src + '.rs', '--emit=dep-info,link']
            r = sccache(px, *args, '--out-dir', 'out')
            subprocess.run([px] + args + ['--out-dir', 'dout'], env=env, cwd=cwd, stdout=subprocess.PIPE, stderr=subprocess.PIPE, timeout=300)
            now = counters()
            dh, dm = now[0] - prev[0], now[1] - prev[1]
            prev = now
            res = 'hit' if (dh, dm) == (1, 0) else 'miss' if (dh, dm) == (0, 1) else 'stats_%d_%d' % (dh, dm)
            try:
                same = open(os.path.join(cwd, 'out', 'lib%s.rlib' % src), 'rb').read() == \
                    open(os.path.join(cwd, 'dout', 'lib%s.rlib' % src), 'rb').read()
            except OSError:
                same = False
            obs.append((what, src, res, same))
            where = 'step %d (%s at the path, crate %s)' % (i, what, src)
            if r.returncode != 0:
                problems.append('%s: sccache failed: %s' % (where, r.stderr.decode()[-200:]))
            elif not same:
                problems.append('%s: the library handed back differs from what the compiler now at the path produces (%s)' % (where, res))
            want = 'hit' if (what, src) in seen else 'miss'
            if res != want and r.returncode == 0:
                problems.append('%s: expected a cache %s, observed %s' % (where, want, res))
            seen.add((what, src))
    finally:
        try:
            sccache('--stop-server')
        except Exception:
            pass
        kill_servers(cache)
        shutil.rmtree(root, ignore_errors=True)
    return obs, problems


# ------------------------------------------------------------------ e2e: the rustc world (proxy selection, sysroot layouts)

RW_TOOLCHAIN = r"""#!/bin/sh
# rustc build %(b)d
case "$1" in
  --print=sysroot)
    echo "%(sys)s"
    # a LONG detection: this build has named its sysroot (that fixes the identity); the rest of the detection
    # lasts until the driver releases it
    if [ -e %(root)s/arm ]; then rm -f %(root)s/arm; echo r > %(root)s/ready; read x < %(root)s/go; fi
    exit 0 ;;
  +*) echo "error: not a rustup proxy" >&2; exit 1 ;;
esac
outdir=; prev=
for a in "$@"; do
  [ "$prev" = "--out-dir" ] && outdir=$a
  prev=$a
done
"%(real)s" "$@" || exit $?
if [ -n "$outdir" ]; then
  for f in "$outdir"/*.rlib; do [ -f "$f" ] && printf '\nWRAPPER_ID=%(b)d\n' >> "$f"; done
fi
exit 0
"""
RW_RUSTUP = r"""#!/bin/sh
case "$1" in
  --version) echo "rustup 1.27.1 (verif)"; exit 0 ;;
  which) [ "$2" = rustc ] && { echo "%(root)s/toolchains/$(cat "%(root)s/rustup/default")/bin/rustc"; exit 0; } ;;
esac
exit 1
"""
RW_PROXY = r"""#!/bin/sh
case "$1" in +*) shift ;; esac
[ $# = 0 ] && { echo "Usage: rustc [OPTIONS] INPUT"; exit 0; }
exec "%(root)s/toolchains/$(cat "%(root)s/rustup/default")/bin/rustc" "$@"
"""


def real_rustc():
    for cand in (shutil.which('rustup'),):
        if cand:
            try:
                out = subprocess.run([cand, 'which', 'rustc'], stdout=subprocess.PIPE, stderr=subprocess.PIPE, timeout=60).stdout.decode().strip()
                if out and os.path.exists(out):
                    return out
            except Exception:
                pass
    r = shutil.which('rustc')
    return os.path.realpath(r) if r else None


def gen_rustworld(rng):
    """default switches (rustup default / override), reinstalls of a toolchain with another build, requests through
    the proxy and straight through a toolchain's rustc.  Every build travels with its own mtime (premise)."""
    ops = []
    assign = rng.shuffle([1, 2, 3, 4])
    where = {}
    for t in (1, 2, 3):
        where[t] = assign[t - 1]
        ops.append([b'install', t, where[t], 20 + 3 * where[t]])
    ops.append([b'default', rng.range(1, 3)])
    for _ in range(rng.range(6, 10)):
        k = rng.weighted([('default', 3), ('install', 2), ('req', 5), ('reqd', 2)])
        if k == 'default':
            ops.append([b'default', rng.range(1, 3)])
        elif k == 'install':
            t = rng.range(1, 3)
            b = rng.choice([x for x in (1, 2, 3, 4) if x != where[t]])
            where[t] = b
            ops.append([b'install', t, b, 20 + 3 * b])
        elif k == 'req':
            ops.append([b'req', rng.below(2)])
        else:
            ops.append([b'reqd', rng.range(1, 3), rng.below(2)])
    return ops


RUSTWORLD_SCENARIOS = [
    # rustup default A: one, one; default B: one, two; default A: two
    [[b'install', 1, 1, 23], [b'install', 2, 2, 26], [b'default', 1], [b'req', 0], [b'req', 0], [b'default', 2],
     [b'req', 0], [b'req', 1], [b'default', 1], [b'req', 1]],
    # the rustc at a plain path is swapped between two builds and back
    [[b'install', 1, 1, 23], [b'reqd', 1, 0], [b'install', 1, 2, 26], [b'reqd', 1, 0], [b'reqd', 1, 1],
     [b'install', 1, 1, 23], [b'reqd', 1, 1], [b'reqd', 1, 0]],
]


def e2e_rustworld(binp, real, case, idx, links):
    """-> (events [res, producer, cur], problems).  links: the sysroots' lib/*.so are symbolic links into a store."""
    root = '/dev/shm/c12rw-%d-%d' % (os.getpid(), idx)
    shutil.rmtree(root, ignore_errors=True)
    for d in ('cargo/bin', 'rustup', 'w', 'store', 'sys'):
        os.makedirs(os.path.join(root, d))
    cwd = os.path.join(root, 'w')
    cache = os.path.join(root, 'cache')
    env = {'PATH': '/usr/bin:/bin', 'HOME': root, 'SCCACHE_DIR': cache, 'SCCACHE_IDLE_TIMEOUT': '120', 'TMPDIR': root}
    for n in (0, 1, 3):
        open(os.path.join(cwd, 'c%d.rs' % n), 'w').write('pub fn f%d() -> u32 { %d }\n' % (n, n))
    os.mkfifo(os.path.join(root, 'ready'))
    os.mkfifo(os.path.join(root, 'go'))
    ready_fd = os.open(os.path.join(root, 'ready'), os.O_RDONLY | os.O_NONBLOCK)
    held = {}        # the request whose detection is being held: proc, src, path, released

    def script(path, text, ns=None):
        subprocess.run(['/bin/sh', '-c', 'cat > "$0.tmp" && chmod 755 "$0.tmp"', path], input=text.encode(), check=True)
        if ns is not None:
            os.utime(path + '.tmp', ns=(ns, ns))
        os.rename(path + '.tmp', path)

    old = (BASE - 86400) * 10**9
    script(os.path.join(root, 'cargo/bin/rustup'), RW_RUSTUP % {'root': root}, old)
    script(os.path.join(root, 'cargo/bin/rustc'), RW_PROXY % {'root': root}, old)
    proxy = os.path.join(root, 'cargo/bin/rustc')

    def sysroot(b):
        sd = os.path.join(root, 'sys', str(b))
        if not os.path.isdir(sd):
            os.makedirs(os.path.join(sd, 'lib'))
            lib = os.path.join(sd, 'lib', 'librustc_driver-0123456789abcdef.so')
            if links:
                os.makedirs(os.path.join(root, 'store', str(b)))
                open(os.path.join(root, 'store', str(b), 'librustc_driver.1'), 'w').write('compiler libraries of build %d\n' % b)
                os.symlink(os.path.join(root, 'store', str(b), 'librustc_driver.1'), lib)
            else:
                open(lib, 'w').write('compiler libraries of build %d\n' % b)
        return sd

    tc = {}
    dflt = [None]

    def sccache(*a):
        return subprocess.run([binp] + list(a), env=env, cwd=cwd, stdout=subprocess.PIPE, stderr=subprocess.PIPE, timeout=300)

    def counters():
        st = json.loads(sccache('--show-stats', '--stats-format=json').stdout.decode())['stats']
        return sum(st['cache_hits']['counts'].values()), sum(st['cache_misses']['counts'].values())

    events, problems = [], []
    try:
        for attempt in range(5):
            env['SCCACHE_SERVER_PORT'] = str(free_port())
            r = sccache('--start-server')
            if r.returncode == 0:
                break
        else:
            return None, ['server did not start: ' + r.stderr.decode()[-300:]]
        prev = counters()
        for op in case:
            t = op[0]
            if t == b'install':
                d = os.path.join(root, 'toolchains', str(op[1]), 'bin')
                os.makedirs(d, exist_ok=True)
                m = op[3]
                script(os.path.join(d, 'rustc'), RW_TOOLCHAIN % {'b': op[2], 'sys': sysroot(op[2]), 'real': real, 'root': root},
                       (BASE + m // 4) * 10**9 + (m % 4) * 250000000)
                tc[op[1]] = (op[2], m)
            elif t == b'default':
                open(os.path.join(root, 'rustup/default'), 'w').write('%d\n' % op[1])
                dflt[0] = op[1]
            elif t in (b'req', b'reqd', b'holdbegin'):
                if t == b'holdbegin' and held:
                    continue
                path = proxy if t == b'req' else os.path.join(root, 'toolchains', str(op[1]), 'bin', 'rustc')
                sel = dflt[0] if t == b'req' else op[1]
                src = op[1] if t == b'req' else op[2]
                cur = list(tc[sel]) if sel in tc else []
                outd = 'outh' if t == b'holdbegin' else 'out'
                for d in (outd, 'dout'):
                    shutil.rmtree(os.path.join(cwd, d), ignore_errors=True)
                    os.makedirs(os.path.join(cwd, d))
                args = ['--crate-name', 'c%d' % src, '--edition=2021', 'c%d.rs' % src, '--crate-type', 'lib', '--emit=dep-info,link',
                        '-C', 'opt-level=0']
                # the path run DIRECTLY: which build does it lead to now
                subprocess.run([path] + args + ['--out-dir', 'dout'], env=env, cwd=cwd, stdout=subprocess.PIPE, stderr=subprocess.PIPE, timeout=300)
                direct = stamp_of(os.path.join(cwd, 'dout', 'libc%d.rlib' % src))
                if cur and direct != cur[0]:
                    problems.append('request %d: driver problem — the path run directly gave build %d, expected %d' % (len(events), direct, cur[0]))
                if t == b'holdbegin':
                    open(os.path.join(root, 'arm'), 'w').close()
                pr = subprocess.Popen([binp, path] + args + ['--out-dir', outd], env=env, cwd=cwd, stdout=subprocess.PIPE, stderr=subprocess.PIPE)
                is_held = False
                t0 = time.time()
                # a request arriving while a detection is held finishes on its own on a server where every request
                # detects for itself; if it does not (it waits for the held one), the held one is released after 10 s
                limit = 300 if not (held and not held.get('released')) else 10
                while pr.poll() is None:
                    if t == b'holdbegin':
                        try:
                            if os.read(ready_fd, 8):
                                is_held = True
                                break
                        except BlockingIOError:
                            pass
                    if time.time() - t0 > limit:
                        if held and not held.get('released'):
                            with open(os.path.join(root, 'go'), 'w') as g:
                                g.write('g\n')
                            held['released'] = True
                            limit = 300
                        else:
                            break
                    time.sleep(0.005)
                if is_held:
                    held.update(proc=pr, src=src, t=op[1], released=False)
                    events.append([b'pending', 0, cur, b'held', list(op)])
                    continue
                pr.communicate(timeout=300)
                if t == b'holdbegin':
                    try:
                        os.unlink(os.path.join(root, 'arm'))
                    except OSError:
                        pass
                got = stamp_of(os.path.join(cwd, outd, 'libc%d.rlib' % src))
                now = counters()
                dh, dm = now[0] - prev[0], now[1] - prev[1]
                prev = now
                res = b'fail' if pr.returncode != 0 else b'hit' if (dh, dm) == (1, 0) else b'miss' if (dh, dm) == (0, 1) else ('stats_%d_%d' % (dh, dm)).encode()
                events.append([res, got if res in (b'hit', b'miss') else 0, cur, b'held' if t == b'holdbegin' else b'plain', list(op)])
            elif t == b'holdend':
                if not held:
                    continue
                if not held.get('released'):
                    with open(os.path.join(root, 'go'), 'w') as g:
                        g.write('g\n')
                pr = held['proc']
                pr.communicate(timeout=300)
                src, tt = held['src'], held['t']
                held.clear()
                cur = list(tc[tt]) if tt in tc else []
                got = stamp_of(os.path.join(cwd, 'outh', 'libc%d.rlib' % src))
                now = counters()
                dh, dm = now[0] - prev[0], now[1] - prev[1]
                prev = now
                res = b'fail' if pr.returncode != 0 else b'hit' if (dh, dm) == (1, 0) else b'miss' if (dh, dm) == (0, 1) else ('stats_%d_%d' % (dh, dm)).encode()
                events.append([res, got if res in (b'hit', b'miss') else 0, cur, b'held', list(op)])
    finally:
        if held and held.get('proc') is not None and held['proc'].poll() is None:
            try:
                if not held.get('released'):
                    with open(os.path.join(root, 'go'), 'w') as g:
                        g.write('g\n')
                held['proc'].communicate(timeout=60)
            except Exception:
                try:
                    held['proc'].kill()
                except Exception:
                    pass
        try:
            sccache('--stop-server')
        except Exception:
            pass
        kill_servers(cache)
        try:
            os.close(ready_fd)
        except OSError:
            pass
        shutil.rmtree(root, ignore_errors=True)
    return events, problems


def monitor_rustworld(case, events):
    """the property on the real server's answers: whatever is handed back was made by the build the requested path
    leads to now; a build that is back gets its earlier result; nothing is shared between builds."""
    vs = []
    served = set()
    for i, ev in enumerate(events):
        res, prod, cur, tag, op = ev[0], ev[1], ev[2], ev[3], ev[4]
        if tag == b'held':
            continue      # the request overlapped its own detection (and the change): the property does not constrain it
        src = op[1] if op[0] == b'req' else op[2]
        where = 'request %d (%s, crate %d)' % (i, 'through the rustup proxy' if op[0] == b'req' else 'toolchain %d' % op[1], src)
        if not cur:
            if res in (b'hit', b'miss'):
                vs.append('%s: no toolchain selected, yet a library was handed back' % where)
            continue
        b = cur[0]
        if res in (b'hit', b'miss'):
            if prod != b:
                vs.append('%s: the path leads to build %d but the library handed back was made by build %d (%s)' % (where, b, prod, res.decode()))
            if res == b'miss' and (b, src) in served:
                vs.append('%s: build %d is selected again but its earlier result was not reused' % (where, b))
            if res == b'hit' and (b, src) not in served:
                vs.append('%s: cache hit for build %d which never compiled this crate in this history' % (where, b))
            served.add((b, src))
        else:
            vs.append('%s: build %d is in place but the request ended in %s' % (where, b, res.decode()))
    return vs


def gen_rustjoin(rng):
    """a LONG detection of the rustc at a toolchain path (its crate, 3, is reserved), the build replaced while it runs,
    requests arriving inside the window, then the old build back."""
    t = rng.range(1, 3)
    a, b = rng.shuffle([1, 2, 3, 4])[:2]
    s0, s1 = rng.shuffle([0, 1])
    ops = [[b'install', t, a, 20 + 3 * a]]
    if rng.chance(1, 2):
        ops += [[b'reqd', t, s0], [b'install', t, a, 40 + 3 * a]]     # known already, reinstalled: re-detection
        ma = 40 + 3 * a
    else:
        ma = 20 + 3 * a
    ops.append([b'holdbegin', t, 3])
    ops.append([b'install', t, b, 20 + 3 * b])
    for _ in range(rng.range(1, 2)):
        ops.append([b'reqd', t, rng.choice([s0, s1])])
    ops.append([b'holdend'])
    ops.append([b'reqd', t, s1])
    ops += [[b'install', t, a, ma], [b'reqd', t, s1], [b'reqd', t, s0]]
    return ops


def run_rustworld(rep, binp):
    real = real_rustc()
    if not real:
        rep.notes.append('rustworld leg not run: no rustc')
        return
    rng = Rng(rep.seed).fork('C12:rustworld')
    n = 40 if rep.tier == 'thorough' else 6
    cases = [c for c in RUSTWORLD_SCENARIOS] + pipeline.corpus_cases(ID, 'rustworld') + [gen_rustworld(rng) for _ in range(n)] + [gen_rustjoin(rng) for _ in range(max(3, n // 2))]
    layouts = [i % 2 == 1 for i in range(len(cases))]
    layouts[0], layouts[1] = False, True
    cases = cases[:2] + [cases[0], cases[1]] + cases[2:]
    layouts = layouts[:2] + [True, False] + layouts[2:]
    t0 = time.time()
    mout = pipeline.run_sharded([os.path.join(pipeline.BUILD, 'modelrun-' + ID), 'rustworld'], [sx.dumps(c) for c in cases], 2)
    with ThreadPoolExecutor(max_workers=8) as ex:
        results = list(ex.map(lambda x: e2e_rustworld(binp, real, x[1], x[0], layouts[x[0]]), enumerate(cases)))
    dis = nviol = nreq = 0
    for i, (case, m, (events, problems)) in enumerate(zip(cases, mout, results)):
        rep.evaluations += 1
        if events is None:
            rep.oblige('rustworld:server-start', False, '; '.join(problems))
            continue
        nreq += len(events)
        rep.count('rustworld.layout=%s' % ('links' if layouts[i] else 'files'))
        for op in case:
            rep.count('rustworld.op=' + op[0].decode())
        for ev in events:
            rep.count('rustworld.res=' + ev[0].decode())
        if len({ev[2][0] for ev in events if ev[2]}) >= 2:
            rep.distinct.add('rustworld:%d:' % layouts[i] + sx.dumps(case))
        tagged = [b'links' if layouts[i] else b'files', case]
        for v in monitor_rustworld(case, events) + problems:
            nviol += 1
            if nviol <= 3:
                rep.violation('property', 'rustworld', tagged, v)
        model = [e[:3] for e in pipeline.parse_out(m)]
        if model != [e[:3] for e in events]:
            dis += 1
            if dis <= 2 and not nviol:
                rep.violation('correspondence', 'rustworld', tagged,
                              'model and real server disagree; model=%s impl=%s' % (sx.dumps(model)[:1500], sx.dumps(events)[:1500]))
    rep.traces += len(cases)
    rep.legs['rustworld'] = dict(cases=len(cases), requests=nreq, disagreements=dis, violations=nviol, wall_s=round(time.time() - t0, 1))
    rep.rule.append('rustworld: real sccache server, a minimal rustup + rustc proxy whose selection is a file, toolchains = wrappers '
                    'around the real rustc with their own sysroot (lib/*.so regular files in half of the histories, symbolic links '
                    'into a store in the other half); histories of rustup-default switches, reinstalls of a toolchain with another '
                    'build, requests through the proxy and straight through a toolchain; per request: library stamp == build the '
                    'path leads to (checked by running the path directly), stats delta == model hit/miss')
    rep.oblige('correspondence:rustworld', dis == 0, '%d of %d histories disagree' % (dis, len(cases)) if dis else '%d histories, %d requests agree' % (len(cases), nreq))
    pipeline.log('leg rustworld: %d histories, %d requests, %d disagreements, %d violations, %.1fs' % (len(cases), nreq, dis, nviol, time.time() - t0))


def gen_e2e(rng, tier):
    n = 400 if tier == 'thorough' else 60
    out = [c for c in gen_scenarios()[:9]]
    for i in range(n):
        out.append(gen_history(rng, 16, adversarial=False, only_live=True, only_good=True))
    for i in range(max(4, n // 6)):
        out.append(gen_recycled(rng, good_only=True))
        out.append(gen_window(rng))
        out.append(gen_inplace(rng))
        out.append(gen_dirlink(rng))
    # the client refuses a path that does not exist: keep only requests on paths that resolve
    clean = []
    for case in out:
        fs = Fs()
        keep = []
        for op in case:
            if op[0] == b'compile' and not fs.resolve((op[1] % 8, op[2] % 3)):
                continue
            apply_op(fs, op)
            keep.append(op)
        clean.append(keep)
    return clean


def extra(rep, known):
    if not getattr(rep, 'bin_ok', False):
        rep.notes.append('e2e leg not run: sccache binary did not build')
        return
    binp = pipeline.repo_bin('sccache')
    rng = Rng(rep.seed).fork('C12:e2e')
    cases = pipeline.corpus_cases(ID, 'e2e') + gen_e2e(rng, rep.tier)
    t0 = time.time()
    lines = [sx.dumps(c) for c in cases]
    mout = pipeline.run_sharded([os.path.join(pipeline.BUILD, 'modelrun-' + ID), 'e2e'], lines, 4)
    with ThreadPoolExecutor(max_workers=8) as ex:
        results = list(ex.map(lambda ic: e2e_history(binp, ic[1], ic[0]), enumerate(cases)))
    dis = 0
    nviol = 0
    nreq = 0
    for case, m, (events, problems) in zip(cases, mout, results):
        rep.evaluations += 1
        if events is None:
            rep.oblige('e2e:server-start', False, '; '.join(problems))
            continue
        nreq += len(events)
        for k in stats(case, events):
            rep.count('e2e.' + k)
        if nontrivial(case, events):
            rep.distinct.add('e2e:' + sx.dumps(case))
        model = [e[:4] + [[], e[5]] for e in pipeline.parse_out(m)]
        vs = monitor(case, events) + problems
        for v in vs:
            fid = classify(case, events, v)
            if fid and any(k['id'] == fid for k in known):
                rep.known_hits[fid] = rep.known_hits.get(fid, 0) + 1
                continue
            nviol += 1
            if nviol <= 3:
                rep.violation('property', 'e2e', case, v)
        if model != events:
            dis += 1
            if dis <= 2 and not nviol:
                rep.violation('correspondence', 'e2e', case,
                              'model and real server disagree; model=%s impl=%s' % (sx.dumps(model)[:2000], sx.dumps(events)[:2000]))
    rep.traces += len(cases)
    rep.legs['e2e'] = dict(cases=len(cases), requests=nreq, disagreements=dis, violations=nviol, wall_s=round(time.time() - t0, 1))
    rep.rule.append('e2e: real sccache server (one per history, own port and SCCACHE_DIR), wrapper compilers = sh scripts that '
                    'exec /usr/bin/gcc and append a stamp; histories of mv / ln -sfn / touch / rm / compile with the premise '
                    'holding by construction; per request: object == direct run of the wrapper in place, stats delta == '
                    'model hit/miss, detection re-run == model')
    # the rustup-proxy branch (left out of the Coq model): fixed regression scenario for S22
    t1 = time.time()
    obs, problems = e2e_rustup(binp)
    if obs is None:
        rep.notes.append('rustup scenario not run: ' + '; '.join(problems))
    else:
        rep.evaluations += 1
        rep.traces += 1
        for v in problems[:3]:
            rep.violation('property', 'e2e-rustup', 'proxy a; proxy c; B b; C b; B b; proxy a', v)
        rep.legs['e2e-rustup'] = dict(steps=[list(o) for o in obs], violations=len(problems), wall_s=round(time.time() - t1, 1))
        rep.oblige('e2e:rustup-proxy-scenario', not problems, '; '.join(problems)[:1500] if problems else
                   '%d steps: every library equals the direct run, hit exactly when the same compiler built the crate before' % len(obs))
        pipeline.log('leg e2e-rustup: %s, %d problems, %.1fs' % (' '.join('%s/%s=%s' % (o[0], o[1], o[2]) for o in obs), len(problems), time.time() - t1))
    run_rustworld(rep, binp)
    rep.oblige('correspondence:e2e', dis == 0, '%d of %d histories disagree' % (dis, len(cases)) if dis else '%d histories, %d requests agree' % (len(cases), nreq))
    pipeline.log('leg e2e: %d histories, %d requests, %d disagreements, %d violations, %.1fs' % (len(cases), nreq, dis, nviol, time.time() - t0))


def check(tier, seed, replay=None):
    """standard pipeline; a replay file of the rustup scenario (not an Sx history) is re-run directly."""
    if replay:
        data = json.load(open(replay))
        if data.get('leg') == 'rustworld':
            ok, out = pipeline.build_repo_bins(REPO_BINS)
            if not ok:
                print(out[-2000:])
                return 2
            tagged = sx.loads(data['case'])
            events, problems = e2e_rustworld(pipeline.repo_bin('sccache'), real_rustc(), tagged[1], 0, tagged[0] == b'links')
            vs = monitor_rustworld(tagged[1], events or []) + problems
            print('case:   ', data['case'])
            print('impl:   ', sx.dumps(events or []))
            print('monitor:', vs or 'no property violation')
            if vs:
                print('VIOLATION property=%s replay=%s' % (ID, replay))
                return 1
            return 0
        if data.get('leg') == 'e2e-rustup':
            ok, out = pipeline.build_repo_bins(REPO_BINS)
            if not ok:
                print(out[-2000:])
                return 2
            obs, problems = e2e_rustup(pipeline.repo_bin('sccache'))
            print('steps:  ', obs)
            print('monitor:', problems or 'no property violation')
            if problems:
                print('VIOLATION property=%s replay=%s' % (ID, replay))
                return 1
            return 0
    # open findings of known/C12.json count as known even before the coordinator has merged them into KNOWN_FINDINGS.json
    orig = pipeline.load_known

    def load_known(pid):
        out = orig(pid)
        if pid == ID:
            kp = os.path.join(pipeline.VERIF, 'known', 'C12.json')
            if os.path.exists(kp):
                for e in json.load(open(kp)).get('findings', []):
                    if e.get('status') == 'open' and not any(o.get('id') == e.get('id') for o in out):
                        out.append(e)
        return out

    pipeline.load_known = load_known
    try:
        return pipeline.standard_check(__import__(__name__, fromlist=['x']), tier, seed, replay)
    finally:
        pipeline.load_known = orig
