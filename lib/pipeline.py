"""pipeline.py — the one pipeline every property check goes through (DESIGN.md §2.1).

build (cargo, from /repo's working tree, hooks on)  ->  translate (optional)  ->  prove (make + Print
Assumptions + forbidden-word grep)  ->  correspond (model vs implementation on the same cases, property
monitors on the implementation)  ->  known findings  ->  search / report  ->  evidence.
"""
import fcntl
import hashlib
import json
import os
import re
import shutil
import subprocess
import sys
import time
from concurrent.futures import ThreadPoolExecutor

from . import sx
from .prng import Rng

VERIF = os.path.dirname(os.path.dirname(os.path.abspath(__file__)))
# The registered checks always use /repo, /verif/harness and /verif/.build.  The three overrides exist only so
# that work on one property can be done against a scratch worktree of /repo without disturbing the others.
REPO = os.environ.get('VERIF_REPO', '/repo')
BUILD = os.environ.get('VERIF_BUILD', os.path.join(VERIF, '.build'))
COQ = os.environ.get('VERIF_COQ', os.path.join(VERIF, 'coq'))   # override: seed testing in parallel lanes only
HARNESS = os.environ.get('VERIF_HARNESS', os.path.join(VERIF, 'harness'))
SHARED_LOCKS = os.path.join(VERIF, '.build')
NPROC = 16

FORBIDDEN = re.compile(
    r'\b(Admitted|admit|Axiom|Axioms|Parameter|Parameters|Conjecture|Conjectures|Hypothesis|Hypotheses|Variable|Variables)\b'
    r'|Unset\s+Guard|bypass_check|type-in-type|impredicative-set|Admit\s+Obligations|Unset\s+Universe\s+Checking|Unset\s+Positivity')

BASE_TRUSTED = [
    'Coq 8.16.1 kernel (coqc; vm_compute used for finite side conditions and witnesses; no native_compute)',
    'no axioms declared; Print Assumptions of every pinned theorem checked against a per-theorem allow-list',
    'extraction: Require Extraction + ExtrOcamlBasic only (bool/option/unit/list/prod/sumbool/sumor mapped to OCaml types; no Extract Constant; N/positive stay inductive); OCaml 4.13.1 ocamlfind ocamlopt; coq/extract/driver.ml',
    'correspondence harness: /verif/harness (Rust, path dependency on /repo, RUSTFLAGS=--cfg sccache_verif), lib/*.py',
    'Rust code is modelled, not verified: the tie is the differential / trace-acceptance check',
]


def log(*a):
    print('[check]', *a, file=sys.stderr, flush=True)


class Lock:
    def __init__(self, name):
        os.makedirs(BUILD, exist_ok=True)
        os.makedirs(SHARED_LOCKS, exist_ok=True)
        self.path = os.path.join(SHARED_LOCKS if (name == 'coq' and 'VERIF_COQ' not in os.environ) else BUILD, name + '.lock')

    def __enter__(self):
        self.f = open(self.path, 'w')
        fcntl.flock(self.f, fcntl.LOCK_EX)
        return self

    def __exit__(self, *a):
        fcntl.flock(self.f, fcntl.LOCK_UN)
        self.f.close()


def _big_stack():
    """Child processes get the largest stack the hard limit allows: the extracted models are ordinary (non
    tail-recursive) structural recursions over `list`, and a case with a multi-megabyte byte string would otherwise
    end in OCaml's Stack_overflow (C11 `bigout` with the 8 MiB default frame limit in the thorough tier)."""
    import resource
    try:
        soft, hard = resource.getrlimit(resource.RLIMIT_STACK)
        resource.setrlimit(resource.RLIMIT_STACK, (hard, hard))
    except Exception:
        pass


def sh(cmd, cwd=None, env=None, timeout=None, input=None):
    """Run cmd in its own session; on timeout the whole process group is killed (a grandchild holding the output
    pipe would otherwise block the reader forever) and whatever was printed so far is returned with rc 124."""
    e = dict(os.environ)
    e.update({'CARGO_NET_OFFLINE': 'true'})
    if env:
        e.update(env)
    t0 = time.time()
    p = subprocess.Popen(cmd, cwd=cwd, env=e, stdout=subprocess.PIPE, stderr=subprocess.STDOUT,
                         stdin=subprocess.PIPE if input is not None else None, start_new_session=True,
                         preexec_fn=_big_stack)
    try:
        out, _ = p.communicate(input=input, timeout=timeout)
        return p.returncode, out.decode('utf-8', 'replace'), time.time() - t0
    except subprocess.TimeoutExpired:
        import signal
        try:
            os.killpg(p.pid, signal.SIGKILL)
        except OSError:
            pass
        try:
            out, _ = p.communicate(timeout=10)
        except subprocess.TimeoutExpired:
            p.kill()
            out = b''
        out = out.decode('utf-8', 'replace') if out else ''
        return 124, out + '\n[timeout after %ss]' % timeout, time.time() - t0


# ---------------------------------------------------------------- builds

def build_harness(bins):
    """cargo build of the harness binaries against /repo's current working tree."""
    with Lock('cargo-vh'):
        lock_src = os.path.join(REPO, 'Cargo.lock')
        lock_dst = os.path.join(HARNESS, 'Cargo.lock')
        # keep every dependency version pinned to /repo's lock file
        if not os.path.exists(lock_dst):
            shutil.copy(lock_src, lock_dst)
        cmd = ['cargo', 'build', '--offline'] + sum((['--bin', b] for b in bins), [])
        tenv = {'CARGO_TARGET_DIR': os.path.join(BUILD, 'target-vh')}
        rc, out, dt = sh(cmd, cwd=HARNESS, timeout=1500, env=tenv)
        if rc != 0 and 'lock file' in out:
            shutil.copy(lock_src, lock_dst)
            rc, out, dt = sh(cmd, cwd=HARNESS, timeout=1500, env=tenv)
    log('cargo build %s: rc=%d %.0fs' % (bins, rc, dt))
    return rc == 0, out


def harness_bin(name):
    return os.path.join(BUILD, 'target-vh', 'debug', name)


def build_repo_bins(bins=('sccache',), features=None):
    """cargo build of /repo's own binaries (hooks on) into .build/target-e2e, for end-to-end legs."""
    with Lock('cargo-e2e'):
        cmd = ['cargo', 'build', '--offline', '--target-dir', os.path.join(BUILD, 'target-e2e')]
        for b in bins:
            cmd += ['--bin', b]
        if features:
            cmd += ['--features', features]
        rc, out, dt = sh(cmd, cwd=REPO, env={'RUSTFLAGS': '--cfg sccache_verif'}, timeout=2400)
    log('cargo build (repo bins %s): rc=%d %.0fs' % (list(bins), rc, dt))
    return rc == 0, out


def repo_bin(name):
    return os.path.join(BUILD, 'target-e2e', 'debug', name)


def coq_project():
    """(Re)generate _CoqProject / Makefile.coq when the set of .v files changed."""
    files = []
    for root, _, names in os.walk(os.path.join(COQ, 'theories')):
        for n in names:
            if n.endswith('.v'):
                files.append(os.path.relpath(os.path.join(root, n), COQ))
    files.sort()
    head = open(os.path.join(COQ, '_CoqProject.head')).read()
    want = head + '\n'.join(files) + '\n'
    cp = os.path.join(COQ, '_CoqProject')
    mk = os.path.join(COQ, 'Makefile.coq')
    cur = open(cp).read() if os.path.exists(cp) else ''
    if cur != want or not os.path.exists(mk):
        open(cp, 'w').write(want)
        rc, out, _ = sh(['coq_makefile', '-f', '_CoqProject', '-o', 'Makefile.coq'], cwd=COQ, timeout=120)
        if rc != 0:
            raise RuntimeError('coq_makefile failed: ' + out)


def coq_make(targets, timeout=1500):
    with Lock('coq'):
        coq_project()
        rc, out, dt = sh(['make', '-f', 'Makefile.coq', '-j%d' % NPROC] + list(targets), cwd=COQ, timeout=timeout)
    log('coq make %s: rc=%d %.0fs' % (list(targets), rc, dt))
    return rc == 0, out


def coq_clean():
    with Lock('coq'):
        coq_project()
        sh(['make', '-f', 'Makefile.coq', 'clean'], cwd=COQ, timeout=300)
        for root, _, names in os.walk(os.path.join(COQ, 'theories')):
            for n in names:
                if n.endswith(('.vo', '.vok', '.vos', '.glob', '.aux')):
                    os.remove(os.path.join(root, n))


def coq_closure(rel_files):
    """.v files (relative to coq/) reachable from rel_files through `From Sccache Require ...` / `Require Sccache.X`."""
    seen = []
    todo = list(rel_files)
    while todo:
        f = todo.pop()
        if f in seen or not os.path.exists(os.path.join(COQ, f)):
            continue
        seen.append(f)
        txt = strip_coq_comments(open(os.path.join(COQ, f), encoding='utf-8', errors='replace').read())
        for m in re.finditer(r'(From\s+Sccache\s+)?Require\s+(?:Import\s+|Export\s+)?(.*?)\.(?=\s|$)', txt, re.S):
            frm = bool(m.group(1))
            for mod in m.group(2).split():
                if mod.startswith('Sccache.'):
                    mod = mod[len('Sccache.'):]
                elif not frm:
                    continue
                todo.append('theories/' + mod.replace('.', '/') + '.v')
    return seen


def forbidden_words(only=None):
    """Admitted / Axiom / Parameter / ... in the development (comments are stripped first).
    only = list of files relative to coq/ (a property's dependency closure); None = everything."""
    hits = []
    paths = []
    if only is None:
        for root, _, names in os.walk(COQ):
            for n in names:
                if n.endswith('.v'):
                    paths.append(os.path.join(root, n))
    else:
        paths = [os.path.join(COQ, f) for f in only]
    for p in paths:
        if True:
            txt = open(p, encoding='utf-8', errors='replace').read()
            txt = strip_coq_comments(txt)
            in_section = 0
            for i, line in enumerate(txt.split('\n'), 1):
                if re.match(r'\s*Section\b', line):
                    in_section += 1
                if re.match(r'\s*End\b', line) and in_section:
                    # may also close a Module; harmless over-approximation handled below
                    pass
                for m in FORBIDDEN.finditer(line):
                    w = m.group(0)
                    if w.split()[0] in ('Variable', 'Variables', 'Hypothesis', 'Hypotheses'):
                        continue  # checked structurally by section_vars_ok
                    hits.append('%s:%d: %s' % (os.path.relpath(p, VERIF), i, line.strip()))
            hits += section_vars_outside(p, txt)
    return hits


def strip_coq_comments(txt):
    out = []
    depth = 0
    i = 0
    instr = False
    while i < len(txt):
        if depth == 0 and txt[i] == '"':
            instr = not instr
            out.append(txt[i])
            i += 1
            continue
        if not instr and txt.startswith('(*', i):
            depth += 1
            i += 2
            continue
        if not instr and depth and txt.startswith('*)', i):
            depth -= 1
            i += 2
            continue
        if depth == 0:
            out.append(txt[i])
        elif txt[i] == '\n':
            out.append('\n')
        i += 1
    return ''.join(out)


def section_vars_outside(path, txt):
    """Variable/Hypothesis/Context outside a Section declare axioms: report them."""
    hits = []
    stack = []
    for i, line in enumerate(txt.split('\n'), 1):
        m = re.match(r'\s*(Section|Module\s+Type|Module)\s+([A-Za-z_0-9\']+)', line)
        if m and ':=' not in line:
            stack.append(('S' if m.group(1) == 'Section' else 'M', m.group(2)))
        m = re.match(r'\s*End\s+([A-Za-z_0-9\']+)\s*\.', line)
        if m and stack:
            stack.pop()
        if re.match(r'\s*(Variable|Variables|Hypothesis|Hypotheses|Context)\b', line):
            if not any(k == 'S' for k, _ in stack):
                hits.append('%s:%d: %s (outside a Section)' % (os.path.relpath(path, VERIF), i, line.strip()))
    return hits


def coq_print_assumptions(prop_file, theorems):
    """Compile Properties/<id>.v on its own and read the Print Assumptions blocks, in order.
    theorems: list of (name, [allowed axiom names])."""
    with Lock('coq'):
        rc, out, dt = sh(['coqc', '-Q', 'theories', 'Sccache', '-w', '-notation-overridden,-deprecated-hint-without-locality',
                          prop_file], cwd=COQ, timeout=900)
    res = []
    if rc != 0:
        return False, out, [(n, False, 'Properties file does not compile') for n, _ in theorems]
    blocks = []
    cur = None
    for line in out.split('\n'):
        if line.startswith('Closed under the global context'):
            blocks.append([])
            cur = None
        elif line.startswith('Axioms:'):
            cur = []
            blocks.append(cur)
        elif cur is not None:
            m = re.match(r'^([A-Za-z_][A-Za-z0-9_.\']*)\s*:', line)
            if m:
                cur.append(m.group(1))
            elif not line.startswith(' ') and line.strip() and not re.match(r'^\s', line):
                cur = None
    ok = True
    if len(blocks) != len(theorems):
        return False, out, [(n, False, 'expected %d Print Assumptions blocks, got %d' % (len(theorems), len(blocks)))
                            for n, _ in theorems]
    for (name, allow), axs in zip(theorems, blocks):
        bad = [a for a in axs if a.split('.')[-1] not in allow and a not in allow]
        res.append((name, not bad, 'closed' if not axs else ('axioms: ' + ', '.join(axs))))
        ok = ok and not bad
    return ok, out, res


def pinned_theorems(prop_file):
    """Theorem names with a Print Assumptions in a Properties file, in order."""
    txt = strip_coq_comments(open(os.path.join(COQ, prop_file)).read())
    return re.findall(r'Print\s+Assumptions\s+([A-Za-z_0-9\']+)\s*\.', txt)


def build_modelrun(pid, run_module):
    """Extract <run_module>.dispatch and link it with the generic driver -> .build/modelrun-<pid>."""
    d = os.path.join(BUILD, 'ml', pid)
    os.makedirs(d, exist_ok=True)
    exe = os.path.join(BUILD, 'modelrun-' + pid)
    vo = os.path.join(COQ, 'theories', *run_module.split('.')) + '.vo'
    drv = os.path.join(COQ, 'extract', 'driver.ml')
    stamp = os.path.join(d, 'stamp')
    if not os.path.exists(vo):
        return False, '%s was not built' % vo
    h = hashlib.sha256(open(vo, 'rb').read() + open(drv, 'rb').read()).hexdigest()
    if os.path.exists(exe) and os.path.exists(stamp) and open(stamp).read() == h:
        return True, 'up to date'
    with Lock('ml-' + pid):
        open(os.path.join(d, 'extract.v'), 'w').write(
            'From Sccache Require Import Base.Sx %s.\nRequire Extraction.\nRequire Import ExtrOcamlBasic.\n'
            'Extraction "model.ml" dispatch.\n' % run_module)
        rc, out, _ = sh(['coqc', '-Q', os.path.join(COQ, 'theories'), 'Sccache', 'extract.v'], cwd=d, timeout=600)
        if rc != 0:
            return False, out
        mli = os.path.join(d, 'model.mli')
        if os.path.exists(mli):
            os.remove(mli)
        shutil.copy(drv, os.path.join(d, 'driver.ml'))
        rc, out2, _ = sh(['ocamlfind', 'ocamlopt', '-O2', '-w', '-a', 'model.ml', 'driver.ml', '-o', exe], cwd=d, timeout=600)
        if rc != 0:
            return False, out + out2
        open(stamp, 'w').write(h)
    return True, out


# ---------------------------------------------------------------- running cases

def run_sharded(cmd, lines, shards=NPROC, timeout=1800, env=None):
    """Feed `lines` to `shards` copies of `cmd`; returns output lines in order (or raises)."""
    if not lines:
        return []
    shards = max(1, min(shards, len(lines)))
    chunks = [lines[i::shards] for i in range(shards)]

    def one(chunk):
        rc, out, _ = sh(cmd, input=('\n'.join(chunk) + '\n').encode(), timeout=timeout, env=env)
        ol = out.split('\n')
        if ol and ol[-1] == '':
            ol.pop()
        return rc, ol

    with ThreadPoolExecutor(max_workers=shards) as ex:
        results = list(ex.map(one, chunks))
    out = [None] * len(lines)
    for si, (rc, ol) in enumerate(results):
        idxs = list(range(si, len(lines), shards))
        if rc == 124:
            # the shard did not finish: the answers printed so far stand, the first unanswered case is the one the
            # implementation hangs on, the rest of the shard was never started
            ol = [l for l in ol if not l.startswith('[timeout after')]
            if ol and len(ol) <= len(idxs) and not (ol[-1].startswith('(') or ol[-1][:1].isdigit() or ol[-1][:1] == '#' or ol[-1][:1].isalpha()):
                ol.pop()
            ol = ol[:len(idxs)]
            if len(ol) < len(idxs):
                ol = ol + [HUNG % timeout] + [NOT_RUN] * (len(idxs) - len(ol) - 1)
        if len(ol) < len(idxs):
            ol = ol + ['(harness_died rc=%d)' % rc] * (len(idxs) - len(ol))
        # extra lines (stderr noise) are tolerated only at the end
        for j, i in enumerate(idxs):
            out[i] = ol[j]
    return out


HUNG = '(harness_hung %s)'
NOT_RUN = '(not_run)'


class Leg:
    """One differential leg: same cases through the extracted model and the real code."""

    def __init__(self, name, gen, monitor=None, nontrivial=None, shrink=None, neighbours=None,
                 classify=None, stats=None, model_leg=None, impl_bin=None, impl_args=None, rule='',
                 compare=None, shards=NPROC, impl_env=None, compare_case=None, timeout=None):
        self.name = name
        self.gen = gen
        self.monitor = monitor or (lambda case, out: [])
        self.nontrivial = nontrivial or (lambda case, out: True)
        self.shrink = shrink
        self.neighbours = neighbours
        self.classify = classify or (lambda case, out, v: None)
        self.stats = stats
        self.model_leg = model_leg or name
        self.impl_bin = impl_bin
        self.impl_args = impl_args if impl_args is not None else [name]
        self.rule = rule
        self.compare = compare or (lambda m, i: m == i)
        self.compare_case = compare_case   # optional (model_line, impl_line, case) -> bool, takes precedence
        self.shards = shards
        self.impl_env = impl_env
        self.timeout = timeout      # seconds per implementation shard (default: 600 quick / 1800 thorough)


class Report:
    def __init__(self, pid, tier, seed):
        self.pid = pid
        self.tier = tier
        self.seed = seed
        self.t0 = time.time()
        self.obligations = []      # (name, ok, detail)
        self.violations = []       # dict(kind, leg, case, detail)
        self.known_hits = {}       # finding id -> count
        self.known_lines = []
        self.evaluations = 0
        self.distinct = set()
        self.samples = []
        self.hist = {}
        self.legs = {}
        self.traces = 0
        self.notes = []
        self.trusted = list(BASE_TRUSTED)
        self.assumptions = []
        self.rule = []
        self.exhaustive = None

    def oblige(self, name, ok, detail=''):
        self.obligations.append((name, bool(ok), detail))
        if not ok:
            log('OBLIGATION FAILED: %s — %s' % (name, detail[-2000:]))

    def violation(self, kind, leg, case, detail):
        self.violations.append(dict(kind=kind, leg=leg, case=case, detail=detail))

    def count(self, key, n=1):
        self.hist[key] = self.hist.get(key, 0) + n


def load_known(pid):
    p = os.path.join(VERIF, 'KNOWN_FINDINGS.json')
    if not os.path.exists(p):
        return []
    data = json.load(open(p))
    return [e for e in data.get('findings', []) if e.get('property') == pid and e.get('status') == 'open']


def corpus_cases(pid, leg):
    d = os.path.join(VERIF, 'corpus', pid)
    out = []
    p = os.path.join(d, leg + '.sx')
    if os.path.exists(p):
        for line in open(p):
            line = line.strip()
            if line and not line.startswith(';'):
                out.append(sx.loads(line))
    return out


def run_pair(rep, pid, leg, cases, harness, timeout=None):
    lines = [sx.dumps(c) for c in cases]
    model_cmd = [os.path.join(BUILD, 'modelrun-' + pid), leg.model_leg]
    impl_cmd = [harness_bin(leg.impl_bin or harness)] + leg.impl_args
    with ThreadPoolExecutor(max_workers=2) as ex:
        fm = ex.submit(run_sharded, model_cmd, lines, leg.shards)
        fi = ex.submit(run_sharded, impl_cmd, lines, leg.shards, timeout or leg_timeout(rep, leg), leg.impl_env)
        return fm.result(), fi.result()


def leg_timeout(rep, leg):
    """Wall-clock limit for one shard of the implementation run.  On the unchanged tree the quick legs take well under
    two minutes; a shard that does not finish means the real code hangs on a case (deadlock, unbounded wait)."""
    if leg.timeout:
        return leg.timeout
    return 1800 if rep.tier == 'thorough' else 600


def parse_out(line):
    try:
        return sx.loads(line)
    except Exception:
        return [b'unparsable', line.encode('utf-8', 'replace')]


def run_leg(rep, pid, leg, harness, known):
    rng = Rng(rep.seed).fork(pid + ':' + leg.name)
    corpus = corpus_cases(pid, leg.name)
    gen = list(leg.gen(rng, rep.tier))
    cases = corpus + gen
    t0 = time.time()
    mout, iout = run_pair(rep, pid, leg, cases, harness)
    dis = []
    nviol = 0
    info = dict(cases=len(cases), corpus=len(corpus), disagreements=0, violations=0, nontrivial=0)
    nhung = 0
    for case, m, i in zip(cases, mout, iout):
        if i == NOT_RUN:
            continue
        if i.startswith('(harness_hung'):
            nhung += 1
            nviol += 1
            if nhung <= 2:
                rep.violation('property', leg.name, case,
                              'the implementation does not answer this case (no result within %s s: it hangs, deadlocks or waits '
                              'without bound); the model answers %s' % (i[len('(harness_hung '):-1], m[:400]))
            continue
        rep.evaluations += 1
        io = parse_out(i)
        if leg.stats:
            for k in leg.stats(case, io):
                rep.count(leg.name + '.' + k)
        key = leg.name + ':' + sx.dumps(case)
        if leg.nontrivial(case, io):
            if key not in rep.distinct:
                rep.distinct.add(key)
                info['nontrivial'] += 1
        if not (leg.compare_case(m, i, case) if leg.compare_case else leg.compare(m, i)):
            dis.append((case, m, i))
        for v in leg.monitor(case, io):
            fid = leg.classify(case, io, v)
            if fid and any(k['id'] == fid for k in known):
                rep.known_hits[fid] = rep.known_hits.get(fid, 0) + 1
                continue
            nviol += 1
            if nviol <= 5:
                rep.violation('property', leg.name, case, v)
    info['disagreements'] = len(dis)
    info['violations'] = nviol
    info['wall_s'] = round(time.time() - t0, 1)
    rep.legs[leg.name] = info
    if leg.rule:
        rep.rule.append('%s: %s' % (leg.name, leg.rule))
    for c in (gen[:1] + gen[len(gen) // 2:len(gen) // 2 + 1] + corpus[:1]):
        if len(rep.samples) < 12:
            rep.samples.append({'leg': leg.name, 'case': sx.dumps(c)[:1500]})
    log('leg %s: %d cases (%d corpus), %d disagreements, %d violations, %.1fs'
        % (leg.name, len(cases), len(corpus), len(dis), nviol, time.time() - t0))
    if nhung:
        rep.oblige('answers:' + leg.name, False, '%d shard(s) of the implementation run hung' % nhung)
    # ---- search on disagreement
    for case, m, i in dis[:3]:
        small = shrink_case(rep, pid, leg, harness, case)
        found = False
        cand = [small]
        if leg.neighbours:
            cand += list(leg.neighbours(small))[:400]
        if cand:
            _, io2 = run_pair(rep, pid, leg, cand, harness, timeout=300)
            for c2, i2 in zip(cand, io2):
                for v in leg.monitor(c2, parse_out(i2)):
                    fid = leg.classify(c2, parse_out(i2), v)
                    if fid and any(k['id'] == fid for k in known):
                        continue
                    rep.violation('property', leg.name, c2, v + ' (found by search around a model/implementation disagreement)')
                    found = True
                    break
                if found:
                    break
        if not found and nviol == 0:
            mm, ii = run_pair(rep, pid, leg, [small], harness)
            rep.violation('correspondence', leg.name, small,
                          'model and implementation disagree; model=%s impl=%s' % (mm[0][:3000], ii[0][:3000]))
    if dis:
        rep.oblige('correspondence:' + leg.name, False, '%d of %d cases disagree' % (len(dis), len(cases)))
    else:
        rep.oblige('correspondence:' + leg.name, True, '%d cases agree' % len(cases))
    return info


def shrink_case(rep, pid, leg, harness, case):
    if not leg.shrink:
        return case
    cur = case
    for _ in range(40):
        cands = list(leg.shrink(cur))[:300]
        if not cands:
            break
        mo, io = run_pair(rep, pid, leg, cands, harness, timeout=300)
        nxt = None
        for c, m, i in zip(cands, mo, io):
            if not (leg.compare_case(m, i, c) if leg.compare_case else leg.compare(m, i)):
                nxt = c
                break
        if nxt is None:
            break
        cur = nxt
    return cur


def replay_known(rep, pid, legs, harness, known):
    """Replay every open known finding's witness on the real code; print KNOWN-FINDING lines."""
    by_leg = {l.name: l for l in legs}
    for k in known:
        leg = by_leg.get(k.get('leg'))
        if leg is None or 'case' not in k:
            continue
        case = sx.loads(k['case'])
        _, io = run_pair(rep, pid, leg, [case], harness)
        out = parse_out(io[0])
        vs = [v for v in leg.monitor(case, out) if leg.classify(case, out, v) == k['id']]
        if vs:
            rep.known_lines.append('KNOWN-FINDING: property=%s %s [%s] witness=%s' % (pid, k['what'], k['id'], k['case'][:300]))
        else:
            rep.notes.append('known finding %s no longer reproduces on its witness' % k['id'])


# ---------------------------------------------------------------- finish

def finish(rep, level='proof', checker_cmd='', extra_cov=None):
    pid = rep.pid
    evdir = os.environ.get('VERIF_EVIDENCE_DIR', os.path.join(VERIF, 'evidence'))  # override: seed testing only
    os.makedirs(evdir, exist_ok=True)
    os.makedirs(os.path.join(VERIF, 'replays'), exist_ok=True)
    failed = [o for o in rep.obligations if not o[1]]
    # a failed proof obligation / correspondence with no concrete failing input
    prop_v = [v for v in rep.violations if v['kind'] == 'property']
    other_v = [v for v in rep.violations if v['kind'] != 'property']
    lines = []
    exit_code = 0
    stamp = '%s-%s-%d' % (pid, rep.tier, int(time.time()))
    if prop_v:
        v = prop_v[0]
        path = os.path.join(VERIF, 'replays', stamp + '.json')
        json.dump({'property': pid, 'kind': 'failing-input', 'leg': v['leg'],
                   'case': sx.dumps(v['case']) if not isinstance(v['case'], str) else v['case'],
                   'what_fails': v['detail'], 'seed': rep.seed,
                   'others': [{'leg': w['leg'], 'what_fails': w['detail'],
                               'case': sx.dumps(w['case']) if not isinstance(w['case'], str) else w['case']} for w in prop_v[1:5]],
                   'broken_obligations': [o[0] + ': ' + o[2][-500:] for o in failed]},
                  open(path, 'w'), indent=1)
        lines.append('VIOLATION property=%s replay=%s' % (pid, path))
        exit_code = 1
    elif failed or other_v:
        path = os.path.join(VERIF, 'replays', stamp + '.json')
        json.dump({'property': pid, 'kind': 'no-failing-input-found',
                   'no_longer_checks': [o[0] + ': ' + o[2][-3000:] for o in failed],
                   'disagreements': [{'leg': w['leg'], 'detail': w['detail'],
                                      'case': sx.dumps(w['case']) if not isinstance(w['case'], str) else w['case']} for w in other_v[:5]],
                   'seed': rep.seed}, open(path, 'w'), indent=1)
        lines.append('VIOLATION property=%s replay=%s no-failing-input-found' % (pid, path))
        exit_code = 1
    for l in rep.known_lines:
        print(l)
    for l in lines:
        print(l)
    cov = {
        'obligations': len(rep.obligations),
        'discharged': len(rep.obligations) - len(failed),
        'checker_cmd': checker_cmd,
        'trusted_base': rep.trusted,
        'evaluations': max(rep.evaluations, 1),
        'distinct_nontrivial': len(rep.distinct),
        'rule': ' | '.join(rep.rule) or 'see legs',
        'samples': rep.samples or [{'note': 'no generated cases in this run'}],
        'traces_validated_against_impl': rep.traces,
        'obligation_list': [{'name': n, 'ok': ok, 'detail': d[-300:]} for n, ok, d in rep.obligations],
        'legs': rep.legs,
        'input_distribution': dict(sorted(rep.hist.items())),
        'known_findings_hit': rep.known_hits,
        'notes': rep.notes,
    }
    if rep.exhaustive is not None:
        cov['exhaustive'] = rep.exhaustive
    if extra_cov:
        cov.update(extra_cov)
    ev = {
        'property_id': pid, 'tier': rep.tier, 'seed': rep.seed, 'level': level,
        'coverage': cov, 'assumptions': rep.assumptions,
        'wall_s': round(time.time() - rep.t0, 1),
        'violations': len(prop_v) + (1 if (not prop_v and (failed or other_v)) else 0),
    }
    json.dump(ev, open(os.path.join(evdir, pid + '.json'), 'w'), indent=1)
    log('%s %s: obligations %d/%d, evaluations %d, distinct nontrivial %d, violations %d, %.0fs'
        % (pid, rep.tier, cov['discharged'], cov['obligations'], rep.evaluations, len(rep.distinct),
           ev['violations'], ev['wall_s']))
    return exit_code


def standard_check(mod, tier, seed, replay=None):
    """The common shape: build, prove, correspond on mod.legs(), known findings, evidence."""
    pid = mod.ID
    rep = Report(pid, tier, seed)
    rep.trusted += getattr(mod, 'TRUSTED', [])
    rep.assumptions += getattr(mod, 'ASSUMPTIONS', [])
    known = load_known(pid)
    legs = mod.legs(tier) if hasattr(mod, 'legs') else []
    harness = getattr(mod, 'HARNESS_BIN', None)

    # 1. build from the working tree
    bins = sorted(set([harness] if harness else []) | set(l.impl_bin for l in legs if l.impl_bin))
    if bins:
        ok, out = build_harness(bins)
        rep.oblige('build:harness', ok, out[-3000:] if not ok else 'cargo build --offline, --cfg sccache_verif')
    else:
        ok = True
    harness_ok = ok
    if hasattr(mod, 'prebuild'):
        mod.prebuild(rep)

    # 2. translate
    if hasattr(mod, 'translate'):
        try:
            mod.translate(rep)
        except Exception as e:  # unrecognisable source = broken obligation, never a pass
            rep.oblige('translate', False, repr(e))

    # 3. prove
    prop_file = 'theories/Properties/%s.v' % pid
    targets = [prop_file + 'o'] + ['theories/%s.vo' % m.replace('.', '/') for m in getattr(mod, 'COQ_EXTRA', [])]
    run_module = getattr(mod, 'RUN_MODULE', None)
    if run_module:
        targets.append('theories/%s.vo' % run_module.replace('.', '/'))
    ok, out = coq_make(targets)
    rep.oblige('coq:make', ok, out[-3000:] if not ok else ' '.join(targets))
    names = pinned_theorems(prop_file)
    allow = getattr(mod, 'ALLOW_AXIOMS', {})
    expected = getattr(mod, 'THEOREMS', None)
    if expected is not None:
        missing = [t for t in expected if t not in names]
        rep.oblige('pinned-theorems-present', not missing, 'missing: %s' % missing if missing else '%d pinned' % len(names))
    if ok:
        ok2, out2, res = coq_print_assumptions(prop_file, [(n, allow.get(n, [])) for n in names])
        for n, o, d in res:
            rep.oblige('theorem:' + n, o, d)
    else:
        for n in names:
            rep.oblige('theorem:' + n, False, 'not checked: make failed')
    # further files of pinned statements (cross-property composition theorems), checked exactly like Properties/<id>.v
    extra_props = list(getattr(mod, 'EXTRA_PROPERTY_FILES', []))
    for xf in extra_props:
        okx, outx = coq_make([xf + 'o'])
        rep.oblige('coq:make:' + xf, okx, outx[-3000:] if not okx else xf + 'o')
        xnames = pinned_theorems(xf)
        want = getattr(mod, 'EXTRA_THEOREMS', {}).get(xf)
        if want is not None:
            miss = [t for t in want if t not in xnames]
            rep.oblige('pinned-theorems-present:' + xf, not miss, 'missing: %s' % miss if miss else '%d pinned' % len(xnames))
        if okx:
            _, _, resx = coq_print_assumptions(xf, [(n, allow.get(n, [])) for n in xnames])
            for n, o, d in resx:
                rep.oblige('theorem:' + n, o, d)
        else:
            for n in xnames:
                rep.oblige('theorem:' + n, False, 'not checked: make failed')
    closure = coq_closure([prop_file] + extra_props + ['theories/%s.v' % m.replace('.', '/') for m in ([run_module] if run_module else []) + list(getattr(mod, 'COQ_EXTRA', []))])
    hits = forbidden_words(None if tier == 'thorough' else closure)
    rep.oblige('no-Admitted/Axiom/Parameter/unsafe-flags', not hits,
               '; '.join(hits[:10]) if hits else 'scanned %s' % ('whole development' if tier == 'thorough' else '%d files in the dependency closure' % len(closure)))
    checker = 'make -f Makefile.coq %s && coqc Properties/%s.v (Print Assumptions)' % (' '.join(targets), pid)
    if tier == 'thorough' and ok and os.environ.get('VERIF_NO_COQCHK') != '1':
        # clean-room: copy the sources, rebuild the property's closure from nothing, re-check with coqchk
        lib = 'Sccache.Properties.' + pid
        okc, detail = clean_room_coqchk(pid, targets, lib, set(sum(allow.values(), [])))
        rep.oblige('clean-rebuild+coqchk:' + lib, okc, detail[-1500:])
        checker += ' && (clean copy) make && coqchk -silent -o ' + lib

    # 4. correspond
    model_ok = False
    if run_module and ok:
        model_ok, mout = build_modelrun(pid, run_module)
        rep.oblige('extract:modelrun', model_ok, mout[-2000:] if not model_ok else 'ExtrOcamlBasic + driver.ml')
    if legs and harness_ok and (model_ok or not run_module):
        if replay:
            return do_replay(rep, mod, legs, harness, replay)
        for leg in legs:
            try:
                run_leg(rep, pid, leg, harness, known)
            except Exception:  # e.g. a generator that reads a spec the translator can no longer recognise
                import traceback
                rep.oblige('leg:%s' % leg.name, False, 'leg crashed: ' + traceback.format_exc()[-2500:])
        try:
            replay_known(rep, pid, legs, harness, known)
        except Exception:
            import traceback
            rep.oblige('replay-known', False, traceback.format_exc()[-2500:])
    elif legs:
        rep.notes.append('correspondence legs not run: build failed')
        if harness_ok is False:
            pass
    # 5. property-specific extra legs (e2e, trace acceptance)
    if hasattr(mod, 'extra') and harness_ok:
        try:
            mod.extra(rep, known)
        except Exception as e:
            import traceback
            rep.oblige('extra-legs', False, traceback.format_exc()[-3000:])
    return finish(rep, 'proof', checker)


def clean_room_coqchk(pid, targets, lib, allowed):
    d = os.path.join(BUILD, 'cleanroom', pid)
    shutil.rmtree(d, ignore_errors=True)
    os.makedirs(d)
    src = os.path.join(COQ, 'theories')
    for root, _, names in os.walk(src):
        for n in names:
            if n.endswith('.v'):
                rel = os.path.relpath(os.path.join(root, n), COQ)
                os.makedirs(os.path.dirname(os.path.join(d, rel)), exist_ok=True)
                shutil.copy(os.path.join(root, n), os.path.join(d, rel))
    files = sorted(os.path.relpath(os.path.join(r, n), d) for r, _, ns in os.walk(os.path.join(d, 'theories')) for n in ns)
    open(os.path.join(d, '_CoqProject'), 'w').write(open(os.path.join(COQ, '_CoqProject.head')).read() + '\n'.join(files) + '\n')
    rc, out, _ = sh(['coq_makefile', '-f', '_CoqProject', '-o', 'Makefile.coq'], cwd=d, timeout=120)
    if rc != 0:
        return False, 'coq_makefile: ' + out
    rc, out, dt = sh(['make', '-f', 'Makefile.coq', '-j%d' % NPROC] + list(targets), cwd=d, timeout=3000)
    if rc != 0:
        return False, 'clean rebuild failed: ' + out[-1500:]
    rc, o, dt2 = sh(['coqchk', '-silent', '-o', '-Q', 'theories', 'Sccache', lib], cwd=d, timeout=3000)
    ok = rc == 0 and coqchk_axioms_ok(o, allowed)
    shutil.rmtree(d, ignore_errors=True)
    return ok, 'clean make %.0fs, coqchk %.0fs: %s' % (dt, dt2, o[-800:])


def coqchk_axioms_ok(out, allowed):
    m = re.search(r'\* Axioms:\s*(.*?)(\n\s*\*|\Z)', out, re.S)
    if not m:
        return False
    body = m.group(1).strip()
    if body.startswith('<none>'):
        return True
    names = [l.strip() for l in body.split('\n') if l.strip()]
    return all(n.split('.')[-1] in allowed for n in names)


def do_replay(rep, mod, legs, harness, path):
    data = json.load(open(path))
    by = {l.name: l for l in legs}
    leg = by.get(data.get('leg')) or legs[0]
    items = []
    if 'case' in data:
        items.append(data['case'])
    for d in data.get('disagreements', []):
        items.append(d['case'])
    bad = False
    for c in items:
        case = sx.loads(c)
        mo, io = run_pair(rep, mod.ID, leg, [case], harness)
        vs = leg.monitor(case, parse_out(io[0]))
        print('case:  ', c)
        print('model: ', mo[0])
        print('impl:  ', io[0])
        print('monitor:', vs or 'no property violation')
        if vs or not leg.compare(mo[0], io[0]):
            bad = True
    if bad:
        print('VIOLATION property=%s replay=%s' % (mod.ID, path))
        return 1
    return 0
