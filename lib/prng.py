"""SplitMix64: every random choice of a run derives from VERIF_SEED through this."""
MASK = (1 << 64) - 1


class Rng:
    def __init__(self, seed):
        self.s = (seed * 0x9E3779B97F4A7C15 + 0x1234567) & MASK

    def next(self):
        self.s = (self.s + 0x9E3779B97F4A7C15) & MASK
        z = self.s
        z = ((z ^ (z >> 30)) * 0xBF58476D1CE4E5B9) & MASK
        z = ((z ^ (z >> 27)) * 0x94D049BB133111EB) & MASK
        return z ^ (z >> 31)

    def below(self, n):
        return self.next() % n if n > 0 else 0

    def range(self, lo, hi):
        return lo + self.below(hi - lo + 1)

    def choice(self, xs):
        return xs[self.below(len(xs))]

    def weighted(self, pairs):
        tot = sum(w for _, w in pairs)
        r = self.below(tot)
        for x, w in pairs:
            if r < w:
                return x
            r -= w
        return pairs[-1][0]

    def chance(self, num, den):
        return self.below(den) < num

    def bytes(self, n):
        return bytes(self.below(256) for _ in range(n))

    def fork(self, tag):
        h = 0
        for c in str(tag).encode():
            h = (h * 131 + c) & MASK
        return Rng(self.next() ^ h)

    def shuffle(self, xs):
        xs = list(xs)
        for i in range(len(xs) - 1, 0, -1):
            j = self.below(i + 1)
            xs[i], xs[j] = xs[j], xs[i]
        return xs
