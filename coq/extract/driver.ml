(* driver.ml — generic line driver around the extracted [Model.dispatch].
   usage: modelrun <leg>   ; one Sx per stdin line -> one Sx per stdout line.
   N is kept as the extracted inductive (positive/N); ints only appear here. *)
type positive = Model.positive = XI of positive | XO of positive | XH
type n = Model.n = N0 | Npos of positive
type sx = Model.sx = SN of n | SB of n list | SL of sx list
let dispatch = Model.dispatch

let rec pos_of_int (i : int) : positive =
  if i = 1 then XH
  else if i land 1 = 0 then XO (pos_of_int (i lsr 1))
  else XI (pos_of_int (i lsr 1))

let n_of_int (i : int) : n = if i = 0 then N0 else Npos (pos_of_int i)

(* decimal string -> N, any size: schoolbook halving of the decimal string *)
let n_of_decimal (s : string) : n =
  (* returns bits, least significant first *)
  let digits = Array.init (String.length s) (fun i -> Char.code s.[i] - 48) in
  let len = Array.length digits in
  let is_zero () = Array.for_all (fun d -> d = 0) digits in
  let bits = ref [] in
  while not (is_zero ()) do
    let carry = ref 0 in
    for i = 0 to len - 1 do
      let cur = !carry * 10 + digits.(i) in
      digits.(i) <- cur / 2;
      carry := cur mod 2
    done;
    bits := !carry :: !bits
  done;
  (* !bits is most significant first *)
  match !bits with
  | [] -> N0
  | _ :: rest ->
      let p = List.fold_left (fun acc b -> if b = 1 then XI acc else XO acc) XH rest in
      Npos p

(* N -> decimal string, any size: bits msb first, double-and-add on a decimal string *)
let decimal_of_n (x : n) : string =
  match x with
  | N0 -> "0"
  | Npos p ->
      let rec bits p acc = match p with
        | XH -> 1 :: acc
        | XO q -> bits q (0 :: acc)
        | XI q -> bits q (1 :: acc) in
      let bl = bits p [] in
      let digits = ref [0] in  (* least significant first *)
      List.iter (fun b ->
        let carry = ref b in
        digits := List.map (fun d -> let v = d * 2 + !carry in carry := v / 10; v mod 10) !digits;
        if !carry > 0 then digits := !digits @ [!carry]) bl;
      String.concat "" (List.rev_map string_of_int !digits)

let rec int_of_pos (p : positive) : int = match p with
  | XH -> 1 | XO q -> 2 * int_of_pos q | XI q -> 2 * int_of_pos q + 1
let int_of_n (x : n) : int = match x with N0 -> 0 | Npos p -> int_of_pos p

let is_ident_start c = (c >= 'a' && c <= 'z') || (c >= 'A' && c <= 'Z') || c = '_'
let is_ident_char c = is_ident_start c || (c >= '0' && c <= '9') || c = '.' || c = '/' || c = '+' || c = '-'
let is_digit c = c >= '0' && c <= '9'
let hexval c = match c with
  | '0'..'9' -> Char.code c - 48 | 'a'..'f' -> Char.code c - 87 | 'A'..'F' -> Char.code c - 55
  | _ -> -1

exception Parse of string

let parse (s : string) : sx =
  let len = String.length s in
  let pos = ref 0 in
  let skip () = while !pos < len && (s.[!pos] = ' ' || s.[!pos] = '\t' || s.[!pos] = '\r') do incr pos done in
  let rec value () : sx =
    skip ();
    if !pos >= len then raise (Parse "unexpected end");
    let c = s.[!pos] in
    if c = '(' then begin
      incr pos;
      let items = ref [] in
      let fin = ref false in
      while not !fin do
        skip ();
        if !pos >= len then raise (Parse "unclosed");
        if s.[!pos] = ')' then (incr pos; fin := true)
        else items := value () :: !items
      done;
      SL (List.rev !items)
    end else if c = '#' then begin
      incr pos;
      let out = ref [] in
      while !pos + 1 < len + 1 && !pos < len && hexval s.[!pos] >= 0 do
        if !pos + 1 >= len || hexval s.[!pos + 1] < 0 then raise (Parse "odd hex");
        out := n_of_int (hexval s.[!pos] * 16 + hexval s.[!pos + 1]) :: !out;
        pos := !pos + 2
      done;
      SB (List.rev !out)
    end else if is_digit c then begin
      let st = !pos in
      while !pos < len && is_digit s.[!pos] do incr pos done;
      let d = String.sub s st (!pos - st) in
      if String.length d <= 17 then SN (n_of_int (int_of_string d)) else SN (n_of_decimal d)
    end else if is_ident_start c then begin
      let st = !pos in
      while !pos < len && is_ident_char s.[!pos] do incr pos done;
      let d = String.sub s st (!pos - st) in
      SB (List.init (String.length d) (fun i -> n_of_int (Char.code d.[i])))
    end else raise (Parse (Printf.sprintf "unexpected char %c at %d" c !pos))
  in
  let v = value () in
  skip ();
  if !pos <> len then raise (Parse "trailing input");
  v

let rec print (b : Buffer.t) (x : sx) : unit =
  match x with
  | SN n ->
      (match n with
       | N0 -> Buffer.add_string b "0"
       | Npos p ->
           let rec nbits p = match p with XH -> 1 | XO q | XI q -> 1 + nbits q in
           if nbits p <= 60 then Buffer.add_string b (string_of_int (int_of_n n))
           else Buffer.add_string b (decimal_of_n n))
  | SB l ->
      let bytes = List.map int_of_n l in
      let ident = (match bytes with
        | [] -> false
        | c0 :: _ -> c0 < 256 && is_ident_start (Char.chr c0)
                     && List.for_all (fun c -> c < 256 && is_ident_char (Char.chr c)) bytes) in
      if ident then List.iter (fun c -> Buffer.add_char b (Char.chr c)) bytes
      else begin
        Buffer.add_char b '#';
        List.iter (fun c -> Buffer.add_string b (Printf.sprintf "%02x" (c land 255))) bytes
      end
  | SL l ->
      Buffer.add_char b '(';
      List.iteri (fun i y -> if i > 0 then Buffer.add_char b ' '; print b y) l;
      Buffer.add_char b ')'

let () =
  let leg = if Array.length Sys.argv > 1 then Sys.argv.(1) else "" in
  let legn = List.init (String.length leg) (fun i -> n_of_int (Char.code leg.[i])) in
  let buf = Buffer.create 65536 in
  (try
    while true do
      let line = input_line stdin in
      let t = String.trim line in
      Buffer.clear buf;
      (if t = "" || t.[0] = ';' then Buffer.add_string buf "()"
       else
         match (try Ok (parse t) with Parse m -> Error m) with
         | Ok v -> print buf (dispatch legn v)
         | Error m -> Buffer.add_string buf ("(driver_parse_error #" ^
                        String.concat "" (List.map (fun c -> Printf.sprintf "%02x" (Char.code c))
                          (List.init (String.length m) (String.get m))) ^ ")"));
      print_string (Buffer.contents buf);
      print_char '\n'
    done
  with End_of_file -> ());
  flush stdout
