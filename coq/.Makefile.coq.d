theories/Base/Sx.vo theories/Base/Sx.glob theories/Base/Sx.v.beautified theories/Base/Sx.required_vo: theories/Base/Sx.v 
theories/Base/Sx.vio: theories/Base/Sx.v 
theories/Base/Sx.vos theories/Base/Sx.vok theories/Base/Sx.required_vos: theories/Base/Sx.v 
theories/Gen/C01ArgTables.vo theories/Gen/C01ArgTables.glob theories/Gen/C01ArgTables.v.beautified theories/Gen/C01ArgTables.required_vo: theories/Gen/C01ArgTables.v theories/Base/Sx.vo theories/Model/ArgTypes.vo
theories/Gen/C01ArgTables.vio: theories/Gen/C01ArgTables.v theories/Base/Sx.vio theories/Model/ArgTypes.vio
theories/Gen/C01ArgTables.vos theories/Gen/C01ArgTables.vok theories/Gen/C01ArgTables.required_vos: theories/Gen/C01ArgTables.v theories/Base/Sx.vos theories/Model/ArgTypes.vos
theories/Gen/C02HashSpec.vo theories/Gen/C02HashSpec.glob theories/Gen/C02HashSpec.v.beautified theories/Gen/C02HashSpec.required_vo: theories/Gen/C02HashSpec.v theories/Base/Sx.vo theories/Model/KeyEnc.vo
theories/Gen/C02HashSpec.vio: theories/Gen/C02HashSpec.v theories/Base/Sx.vio theories/Model/KeyEnc.vio
theories/Gen/C02HashSpec.vos theories/Gen/C02HashSpec.vok theories/Gen/C02HashSpec.required_vos: theories/Gen/C02HashSpec.v theories/Base/Sx.vos theories/Model/KeyEnc.vos
theories/Gen/C02HashSpec_ok.vo theories/Gen/C02HashSpec_ok.glob theories/Gen/C02HashSpec_ok.v.beautified theories/Gen/C02HashSpec_ok.required_vo: theories/Gen/C02HashSpec_ok.v theories/Base/Sx.vo theories/Model/KeyEnc.vo theories/Gen/C02HashSpec.vo
theories/Gen/C02HashSpec_ok.vio: theories/Gen/C02HashSpec_ok.v theories/Base/Sx.vio theories/Model/KeyEnc.vio theories/Gen/C02HashSpec.vio
theories/Gen/C02HashSpec_ok.vos theories/Gen/C02HashSpec_ok.vok theories/Gen/C02HashSpec_ok.required_vos: theories/Gen/C02HashSpec_ok.v theories/Base/Sx.vos theories/Model/KeyEnc.vos theories/Gen/C02HashSpec.vos
theories/Gen/C04Consts.vo theories/Gen/C04Consts.glob theories/Gen/C04Consts.v.beautified theories/Gen/C04Consts.required_vo: theories/Gen/C04Consts.v 
theories/Gen/C04Consts.vio: theories/Gen/C04Consts.v 
theories/Gen/C04Consts.vos theories/Gen/C04Consts.vok theories/Gen/C04Consts.required_vos: theories/Gen/C04Consts.v 
theories/Gen/C07Consts.vo theories/Gen/C07Consts.glob theories/Gen/C07Consts.v.beautified theories/Gen/C07Consts.required_vo: theories/Gen/C07Consts.v 
theories/Gen/C07Consts.vio: theories/Gen/C07Consts.v 
theories/Gen/C07Consts.vos theories/Gen/C07Consts.vok theories/Gen/C07Consts.required_vos: theories/Gen/C07Consts.v 
theories/Gen/C07Consts_ok.vo theories/Gen/C07Consts_ok.glob theories/Gen/C07Consts_ok.v.beautified theories/Gen/C07Consts_ok.required_vo: theories/Gen/C07Consts_ok.v theories/Model/Lru.vo theories/Gen/C07Consts.vo
theories/Gen/C07Consts_ok.vio: theories/Gen/C07Consts_ok.v theories/Model/Lru.vio theories/Gen/C07Consts.vio
theories/Gen/C07Consts_ok.vos theories/Gen/C07Consts_ok.vok theories/Gen/C07Consts_ok.required_vos: theories/Gen/C07Consts_ok.v theories/Model/Lru.vos theories/Gen/C07Consts.vos
theories/Gen/C18Consts.vo theories/Gen/C18Consts.glob theories/Gen/C18Consts.v.beautified theories/Gen/C18Consts.required_vo: theories/Gen/C18Consts.v 
theories/Gen/C18Consts.vio: theories/Gen/C18Consts.v 
theories/Gen/C18Consts.vos theories/Gen/C18Consts.vok theories/Gen/C18Consts.required_vos: theories/Gen/C18Consts.v 
theories/Model/ArgTypes.vo theories/Model/ArgTypes.glob theories/Model/ArgTypes.v.beautified theories/Model/ArgTypes.required_vo: theories/Model/ArgTypes.v 
theories/Model/ArgTypes.vio: theories/Model/ArgTypes.v 
theories/Model/ArgTypes.vos theories/Model/ArgTypes.vok theories/Model/ArgTypes.required_vos: theories/Model/ArgTypes.v 
theories/Model/Args.vo theories/Model/Args.glob theories/Model/Args.v.beautified theories/Model/Args.required_vo: theories/Model/Args.v theories/Base/Sx.vo theories/Model/ArgTypes.vo
theories/Model/Args.vio: theories/Model/Args.v theories/Base/Sx.vio theories/Model/ArgTypes.vio
theories/Model/Args.vos theories/Model/Args.vok theories/Model/Args.required_vos: theories/Model/Args.v theories/Base/Sx.vos theories/Model/ArgTypes.vos
theories/Model/Client.vo theories/Model/Client.glob theories/Model/Client.v.beautified theories/Model/Client.required_vo: theories/Model/Client.v 
theories/Model/Client.vio: theories/Model/Client.v 
theories/Model/Client.vos theories/Model/Client.vok theories/Model/Client.required_vos: theories/Model/Client.v 
theories/Model/CompilerCache.vo theories/Model/CompilerCache.glob theories/Model/CompilerCache.v.beautified theories/Model/CompilerCache.required_vo: theories/Model/CompilerCache.v 
theories/Model/CompilerCache.vio: theories/Model/CompilerCache.v 
theories/Model/CompilerCache.vos theories/Model/CompilerCache.vok theories/Model/CompilerCache.required_vos: theories/Model/CompilerCache.v 
theories/Model/Crc32.vo theories/Model/Crc32.glob theories/Model/Crc32.v.beautified theories/Model/Crc32.required_vo: theories/Model/Crc32.v 
theories/Model/Crc32.vio: theories/Model/Crc32.v 
theories/Model/Crc32.vos theories/Model/Crc32.vok theories/Model/Crc32.required_vos: theories/Model/Crc32.v 
theories/Model/DiskCache.vo theories/Model/DiskCache.glob theories/Model/DiskCache.v.beautified theories/Model/DiskCache.required_vo: theories/Model/DiskCache.v theories/Base/Sx.vo theories/Model/Lru.vo
theories/Model/DiskCache.vio: theories/Model/DiskCache.v theories/Base/Sx.vio theories/Model/Lru.vio
theories/Model/DiskCache.vos theories/Model/DiskCache.vok theories/Model/DiskCache.required_vos: theories/Model/DiskCache.v theories/Base/Sx.vos theories/Model/Lru.vos
theories/Model/DiskConfig.vo theories/Model/DiskConfig.glob theories/Model/DiskConfig.v.beautified theories/Model/DiskConfig.required_vo: theories/Model/DiskConfig.v theories/Base/Sx.vo
theories/Model/DiskConfig.vio: theories/Model/DiskConfig.v theories/Base/Sx.vio
theories/Model/DiskConfig.vos theories/Model/DiskConfig.vok theories/Model/DiskConfig.required_vos: theories/Model/DiskConfig.v theories/Base/Sx.vos
theories/Model/DistArgs.vo theories/Model/DistArgs.glob theories/Model/DistArgs.v.beautified theories/Model/DistArgs.required_vo: theories/Model/DistArgs.v theories/Base/Sx.vo
theories/Model/DistArgs.vio: theories/Model/DistArgs.v theories/Base/Sx.vio
theories/Model/DistArgs.vos theories/Model/DistArgs.vok theories/Model/DistArgs.required_vos: theories/Model/DistArgs.v theories/Base/Sx.vos
theories/Model/DistFallback.vo theories/Model/DistFallback.glob theories/Model/DistFallback.v.beautified theories/Model/DistFallback.required_vo: theories/Model/DistFallback.v theories/Model/DistStatus.vo
theories/Model/DistFallback.vio: theories/Model/DistFallback.v theories/Model/DistStatus.vio
theories/Model/DistFallback.vos theories/Model/DistFallback.vok theories/Model/DistFallback.required_vos: theories/Model/DistFallback.v theories/Model/DistStatus.vos
theories/Model/DistStatus.vo theories/Model/DistStatus.glob theories/Model/DistStatus.v.beautified theories/Model/DistStatus.required_vo: theories/Model/DistStatus.v 
theories/Model/DistStatus.vio: theories/Model/DistStatus.v 
theories/Model/DistStatus.vos theories/Model/DistStatus.vok theories/Model/DistStatus.required_vos: theories/Model/DistStatus.v 
theories/Model/Extract.vo theories/Model/Extract.glob theories/Model/Extract.v.beautified theories/Model/Extract.required_vo: theories/Model/Extract.v theories/Base/Sx.vo theories/Model/FsModel.vo
theories/Model/Extract.vio: theories/Model/Extract.v theories/Base/Sx.vio theories/Model/FsModel.vio
theories/Model/Extract.vos theories/Model/Extract.vok theories/Model/Extract.required_vos: theories/Model/Extract.v theories/Base/Sx.vos theories/Model/FsModel.vos
theories/Model/FsModel.vo theories/Model/FsModel.glob theories/Model/FsModel.v.beautified theories/Model/FsModel.required_vo: theories/Model/FsModel.v theories/Base/Sx.vo
theories/Model/FsModel.vio: theories/Model/FsModel.v theories/Base/Sx.vio
theories/Model/FsModel.vos theories/Model/FsModel.vok theories/Model/FsModel.required_vos: theories/Model/FsModel.v theories/Base/Sx.vos
theories/Model/HitModel.vo theories/Model/HitModel.glob theories/Model/HitModel.v.beautified theories/Model/HitModel.required_vo: theories/Model/HitModel.v theories/Base/Sx.vo theories/Model/Lru.vo
theories/Model/HitModel.vio: theories/Model/HitModel.v theories/Base/Sx.vio theories/Model/Lru.vio
theories/Model/HitModel.vos theories/Model/HitModel.vok theories/Model/HitModel.required_vos: theories/Model/HitModel.v theories/Base/Sx.vos theories/Model/Lru.vos
theories/Model/Jobserver.vo theories/Model/Jobserver.glob theories/Model/Jobserver.v.beautified theories/Model/Jobserver.required_vo: theories/Model/Jobserver.v 
theories/Model/Jobserver.vio: theories/Model/Jobserver.v 
theories/Model/Jobserver.vos theories/Model/Jobserver.vok theories/Model/Jobserver.required_vos: theories/Model/Jobserver.v 
theories/Model/KeyEnc.vo theories/Model/KeyEnc.glob theories/Model/KeyEnc.v.beautified theories/Model/KeyEnc.required_vo: theories/Model/KeyEnc.v theories/Base/Sx.vo
theories/Model/KeyEnc.vio: theories/Model/KeyEnc.v theories/Base/Sx.vio
theories/Model/KeyEnc.vos theories/Model/KeyEnc.vok theories/Model/KeyEnc.required_vos: theories/Model/KeyEnc.v theories/Base/Sx.vos
theories/Model/Lru.vo theories/Model/Lru.glob theories/Model/Lru.v.beautified theories/Model/Lru.required_vo: theories/Model/Lru.v theories/Base/Sx.vo
theories/Model/Lru.vio: theories/Model/Lru.v theories/Base/Sx.vio
theories/Model/Lru.vos theories/Model/Lru.vok theories/Model/Lru.required_vos: theories/Model/Lru.v theories/Base/Sx.vos
theories/Model/PpCache.vo theories/Model/PpCache.glob theories/Model/PpCache.v.beautified theories/Model/PpCache.required_vo: theories/Model/PpCache.v theories/Base/Sx.vo theories/Gen/C04Consts.vo theories/Model/TimeMacro.vo
theories/Model/PpCache.vio: theories/Model/PpCache.v theories/Base/Sx.vio theories/Gen/C04Consts.vio theories/Model/TimeMacro.vio
theories/Model/PpCache.vos theories/Model/PpCache.vok theories/Model/PpCache.required_vos: theories/Model/PpCache.v theories/Base/Sx.vos theories/Gen/C04Consts.vos theories/Model/TimeMacro.vos
theories/Model/RoCache.vo theories/Model/RoCache.glob theories/Model/RoCache.v.beautified theories/Model/RoCache.required_vo: theories/Model/RoCache.v theories/Base/Sx.vo theories/Model/Lru.vo
theories/Model/RoCache.vio: theories/Model/RoCache.v theories/Base/Sx.vio theories/Model/Lru.vio
theories/Model/RoCache.vos theories/Model/RoCache.vok theories/Model/RoCache.required_vos: theories/Model/RoCache.v theories/Base/Sx.vos theories/Model/Lru.vos
theories/Model/RustPath.vo theories/Model/RustPath.glob theories/Model/RustPath.v.beautified theories/Model/RustPath.required_vo: theories/Model/RustPath.v theories/Base/Sx.vo
theories/Model/RustPath.vio: theories/Model/RustPath.v theories/Base/Sx.vio
theories/Model/RustPath.vos theories/Model/RustPath.vok theories/Model/RustPath.required_vos: theories/Model/RustPath.v theories/Base/Sx.vos
theories/Model/Scheduler.vo theories/Model/Scheduler.glob theories/Model/Scheduler.v.beautified theories/Model/Scheduler.required_vo: theories/Model/Scheduler.v theories/Base/Sx.vo theories/Gen/C18Consts.vo
theories/Model/Scheduler.vio: theories/Model/Scheduler.v theories/Base/Sx.vio theories/Gen/C18Consts.vio
theories/Model/Scheduler.vos theories/Model/Scheduler.vok theories/Model/Scheduler.required_vos: theories/Model/Scheduler.v theories/Base/Sx.vos theories/Gen/C18Consts.vos
theories/Model/ServerLife.vo theories/Model/ServerLife.glob theories/Model/ServerLife.v.beautified theories/Model/ServerLife.required_vo: theories/Model/ServerLife.v 
theories/Model/ServerLife.vio: theories/Model/ServerLife.v 
theories/Model/ServerLife.vos theories/Model/ServerLife.vok theories/Model/ServerLife.required_vos: theories/Model/ServerLife.v 
theories/Model/Startup.vo theories/Model/Startup.glob theories/Model/Startup.v.beautified theories/Model/Startup.required_vo: theories/Model/Startup.v 
theories/Model/Startup.vio: theories/Model/Startup.v 
theories/Model/Startup.vos theories/Model/Startup.vok theories/Model/Startup.required_vos: theories/Model/Startup.v 
theories/Model/TcCache.vo theories/Model/TcCache.glob theories/Model/TcCache.v.beautified theories/Model/TcCache.required_vo: theories/Model/TcCache.v theories/Base/Sx.vo theories/Model/Lru.vo
theories/Model/TcCache.vio: theories/Model/TcCache.v theories/Base/Sx.vio theories/Model/Lru.vio
theories/Model/TcCache.vos theories/Model/TcCache.vok theories/Model/TcCache.required_vos: theories/Model/TcCache.v theories/Base/Sx.vos theories/Model/Lru.vos
theories/Model/TimeMacro.vo theories/Model/TimeMacro.glob theories/Model/TimeMacro.v.beautified theories/Model/TimeMacro.required_vo: theories/Model/TimeMacro.v theories/Base/Sx.vo theories/Gen/C04Consts.vo
theories/Model/TimeMacro.vio: theories/Model/TimeMacro.v theories/Base/Sx.vio theories/Gen/C04Consts.vio
theories/Model/TimeMacro.vos theories/Model/TimeMacro.vok theories/Model/TimeMacro.required_vos: theories/Model/TimeMacro.v theories/Base/Sx.vos theories/Gen/C04Consts.vos
theories/Model/Zip.vo theories/Model/Zip.glob theories/Model/Zip.v.beautified theories/Model/Zip.required_vo: theories/Model/Zip.v theories/Model/Crc32.vo
theories/Model/Zip.vio: theories/Model/Zip.v theories/Model/Crc32.vio
theories/Model/Zip.vos theories/Model/Zip.vok theories/Model/Zip.required_vos: theories/Model/Zip.v theories/Model/Crc32.vos
theories/Proofs/Client.vo theories/Proofs/Client.glob theories/Proofs/Client.v.beautified theories/Proofs/Client.required_vo: theories/Proofs/Client.v theories/Model/Client.vo
theories/Proofs/Client.vio: theories/Proofs/Client.v theories/Model/Client.vio
theories/Proofs/Client.vos theories/Proofs/Client.vok theories/Proofs/Client.required_vos: theories/Proofs/Client.v theories/Model/Client.vos
theories/Proofs/CompilerCache.vo theories/Proofs/CompilerCache.glob theories/Proofs/CompilerCache.v.beautified theories/Proofs/CompilerCache.required_vo: theories/Proofs/CompilerCache.v theories/Model/CompilerCache.vo
theories/Proofs/CompilerCache.vio: theories/Proofs/CompilerCache.v theories/Model/CompilerCache.vio
theories/Proofs/CompilerCache.vos theories/Proofs/CompilerCache.vok theories/Proofs/CompilerCache.required_vos: theories/Proofs/CompilerCache.v theories/Model/CompilerCache.vos
theories/Proofs/Lru.vo theories/Proofs/Lru.glob theories/Proofs/Lru.v.beautified theories/Proofs/Lru.required_vo: theories/Proofs/Lru.v theories/Base/Sx.vo theories/Model/Lru.vo
theories/Proofs/Lru.vio: theories/Proofs/Lru.v theories/Base/Sx.vio theories/Model/Lru.vio
theories/Proofs/Lru.vos theories/Proofs/Lru.vok theories/Proofs/Lru.required_vos: theories/Proofs/Lru.v theories/Base/Sx.vos theories/Model/Lru.vos
theories/Proofs/Scheduler.vo theories/Proofs/Scheduler.glob theories/Proofs/Scheduler.v.beautified theories/Proofs/Scheduler.required_vo: theories/Proofs/Scheduler.v theories/Base/Sx.vo theories/Gen/C18Consts.vo theories/Model/Scheduler.vo
theories/Proofs/Scheduler.vio: theories/Proofs/Scheduler.v theories/Base/Sx.vio theories/Gen/C18Consts.vio theories/Model/Scheduler.vio
theories/Proofs/Scheduler.vos theories/Proofs/Scheduler.vok theories/Proofs/Scheduler.required_vos: theories/Proofs/Scheduler.v theories/Base/Sx.vos theories/Gen/C18Consts.vos theories/Model/Scheduler.vos
theories/Proofs/TcCache.vo theories/Proofs/TcCache.glob theories/Proofs/TcCache.v.beautified theories/Proofs/TcCache.required_vo: theories/Proofs/TcCache.v theories/Base/Sx.vo theories/Model/Lru.vo theories/Model/TcCache.vo
theories/Proofs/TcCache.vio: theories/Proofs/TcCache.v theories/Base/Sx.vio theories/Model/Lru.vio theories/Model/TcCache.vio
theories/Proofs/TcCache.vos theories/Proofs/TcCache.vok theories/Proofs/TcCache.required_vos: theories/Proofs/TcCache.v theories/Base/Sx.vos theories/Model/Lru.vos theories/Model/TcCache.vos
theories/Properties/C02.vo theories/Properties/C02.glob theories/Properties/C02.v.beautified theories/Properties/C02.required_vo: theories/Properties/C02.v theories/Model/KeyEnc.vo theories/Gen/C02HashSpec.vo
theories/Properties/C02.vio: theories/Properties/C02.v theories/Model/KeyEnc.vio theories/Gen/C02HashSpec.vio
theories/Properties/C02.vos theories/Properties/C02.vok theories/Properties/C02.required_vos: theories/Properties/C02.v theories/Model/KeyEnc.vos theories/Gen/C02HashSpec.vos
theories/Properties/C04.vo theories/Properties/C04.glob theories/Properties/C04.v.beautified theories/Properties/C04.required_vo: theories/Properties/C04.v 
theories/Properties/C04.vio: theories/Properties/C04.v 
theories/Properties/C04.vos theories/Properties/C04.vok theories/Properties/C04.required_vos: theories/Properties/C04.v 
theories/Properties/C06.vo theories/Properties/C06.glob theories/Properties/C06.v.beautified theories/Properties/C06.required_vo: theories/Properties/C06.v theories/Model/DiskCache.vo
theories/Properties/C06.vio: theories/Properties/C06.v theories/Model/DiskCache.vio
theories/Properties/C06.vos theories/Properties/C06.vok theories/Properties/C06.required_vos: theories/Properties/C06.v theories/Model/DiskCache.vos
theories/Properties/C07.vo theories/Properties/C07.glob theories/Properties/C07.v.beautified theories/Properties/C07.required_vo: theories/Properties/C07.v 
theories/Properties/C07.vio: theories/Properties/C07.v 
theories/Properties/C07.vos theories/Properties/C07.vok theories/Properties/C07.required_vos: theories/Properties/C07.v 
theories/Properties/C11.vo theories/Properties/C11.glob theories/Properties/C11.v.beautified theories/Properties/C11.required_vo: theories/Properties/C11.v theories/Model/Client.vo
theories/Properties/C11.vio: theories/Properties/C11.v theories/Model/Client.vio
theories/Properties/C11.vos theories/Properties/C11.vok theories/Properties/C11.required_vos: theories/Properties/C11.v theories/Model/Client.vos
theories/Properties/C12.vo theories/Properties/C12.glob theories/Properties/C12.v.beautified theories/Properties/C12.required_vo: theories/Properties/C12.v 
theories/Properties/C12.vio: theories/Properties/C12.v 
theories/Properties/C12.vos theories/Properties/C12.vok theories/Properties/C12.required_vos: theories/Properties/C12.v 
theories/Properties/C16.vo theories/Properties/C16.glob theories/Properties/C16.v.beautified theories/Properties/C16.required_vo: theories/Properties/C16.v 
theories/Properties/C16.vio: theories/Properties/C16.v 
theories/Properties/C16.vos theories/Properties/C16.vok theories/Properties/C16.required_vos: theories/Properties/C16.v 
theories/Properties/C17.vo theories/Properties/C17.glob theories/Properties/C17.v.beautified theories/Properties/C17.required_vo: theories/Properties/C17.v theories/Base/Sx.vo theories/Model/Lru.vo theories/Model/TcCache.vo
theories/Properties/C17.vio: theories/Properties/C17.v theories/Base/Sx.vio theories/Model/Lru.vio theories/Model/TcCache.vio
theories/Properties/C17.vos theories/Properties/C17.vok theories/Properties/C17.required_vos: theories/Properties/C17.v theories/Base/Sx.vos theories/Model/Lru.vos theories/Model/TcCache.vos
theories/Properties/C18.vo theories/Properties/C18.glob theories/Properties/C18.v.beautified theories/Properties/C18.required_vo: theories/Properties/C18.v theories/Model/Scheduler.vo
theories/Properties/C18.vio: theories/Properties/C18.v theories/Model/Scheduler.vio
theories/Properties/C18.vos theories/Properties/C18.vok theories/Properties/C18.required_vos: theories/Properties/C18.v theories/Model/Scheduler.vos
theories/Run/C02.vo theories/Run/C02.glob theories/Run/C02.v.beautified theories/Run/C02.required_vo: theories/Run/C02.v theories/Base/Sx.vo theories/Model/KeyEnc.vo theories/Gen/C02HashSpec.vo
theories/Run/C02.vio: theories/Run/C02.v theories/Base/Sx.vio theories/Model/KeyEnc.vio theories/Gen/C02HashSpec.vio
theories/Run/C02.vos theories/Run/C02.vok theories/Run/C02.required_vos: theories/Run/C02.v theories/Base/Sx.vos theories/Model/KeyEnc.vos theories/Gen/C02HashSpec.vos
theories/Run/C03.vo theories/Run/C03.glob theories/Run/C03.v.beautified theories/Run/C03.required_vo: theories/Run/C03.v theories/Base/Sx.vo theories/Model/Lru.vo theories/Model/HitModel.vo
theories/Run/C03.vio: theories/Run/C03.v theories/Base/Sx.vio theories/Model/Lru.vio theories/Model/HitModel.vio
theories/Run/C03.vos theories/Run/C03.vok theories/Run/C03.required_vos: theories/Run/C03.v theories/Base/Sx.vos theories/Model/Lru.vos theories/Model/HitModel.vos
theories/Run/C04.vo theories/Run/C04.glob theories/Run/C04.v.beautified theories/Run/C04.required_vo: theories/Run/C04.v theories/Base/Sx.vo theories/Gen/C04Consts.vo theories/Model/TimeMacro.vo theories/Model/PpCache.vo
theories/Run/C04.vio: theories/Run/C04.v theories/Base/Sx.vio theories/Gen/C04Consts.vio theories/Model/TimeMacro.vio theories/Model/PpCache.vio
theories/Run/C04.vos theories/Run/C04.vok theories/Run/C04.required_vos: theories/Run/C04.v theories/Base/Sx.vos theories/Gen/C04Consts.vos theories/Model/TimeMacro.vos theories/Model/PpCache.vos
theories/Run/C06.vo theories/Run/C06.glob theories/Run/C06.v.beautified theories/Run/C06.required_vo: theories/Run/C06.v theories/Base/Sx.vo theories/Model/Lru.vo theories/Model/DiskCache.vo
theories/Run/C06.vio: theories/Run/C06.v theories/Base/Sx.vio theories/Model/Lru.vio theories/Model/DiskCache.vio
theories/Run/C06.vos theories/Run/C06.vok theories/Run/C06.required_vos: theories/Run/C06.v theories/Base/Sx.vos theories/Model/Lru.vos theories/Model/DiskCache.vos
theories/Run/C07.vo theories/Run/C07.glob theories/Run/C07.v.beautified theories/Run/C07.required_vo: theories/Run/C07.v theories/Base/Sx.vo theories/Model/Lru.vo
theories/Run/C07.vio: theories/Run/C07.v theories/Base/Sx.vio theories/Model/Lru.vio
theories/Run/C07.vos theories/Run/C07.vok theories/Run/C07.required_vos: theories/Run/C07.v theories/Base/Sx.vos theories/Model/Lru.vos
theories/Run/C08.vo theories/Run/C08.glob theories/Run/C08.v.beautified theories/Run/C08.required_vo: theories/Run/C08.v theories/Base/Sx.vo theories/Model/Crc32.vo theories/Model/Zip.vo
theories/Run/C08.vio: theories/Run/C08.v theories/Base/Sx.vio theories/Model/Crc32.vio theories/Model/Zip.vio
theories/Run/C08.vos theories/Run/C08.vok theories/Run/C08.required_vos: theories/Run/C08.v theories/Base/Sx.vos theories/Model/Crc32.vos theories/Model/Zip.vos
theories/Run/C10.vo theories/Run/C10.glob theories/Run/C10.v.beautified theories/Run/C10.required_vo: theories/Run/C10.v theories/Base/Sx.vo theories/Model/FsModel.vo theories/Model/Extract.vo
theories/Run/C10.vio: theories/Run/C10.v theories/Base/Sx.vio theories/Model/FsModel.vio theories/Model/Extract.vio
theories/Run/C10.vos theories/Run/C10.vok theories/Run/C10.required_vos: theories/Run/C10.v theories/Base/Sx.vos theories/Model/FsModel.vos theories/Model/Extract.vos
theories/Run/C11.vo theories/Run/C11.glob theories/Run/C11.v.beautified theories/Run/C11.required_vo: theories/Run/C11.v theories/Base/Sx.vo theories/Model/Client.vo
theories/Run/C11.vio: theories/Run/C11.v theories/Base/Sx.vio theories/Model/Client.vio
theories/Run/C11.vos theories/Run/C11.vok theories/Run/C11.required_vos: theories/Run/C11.v theories/Base/Sx.vos theories/Model/Client.vos
theories/Run/C12.vo theories/Run/C12.glob theories/Run/C12.v.beautified theories/Run/C12.required_vo: theories/Run/C12.v theories/Base/Sx.vo theories/Model/CompilerCache.vo
theories/Run/C12.vio: theories/Run/C12.v theories/Base/Sx.vio theories/Model/CompilerCache.vio
theories/Run/C12.vos theories/Run/C12.vok theories/Run/C12.required_vos: theories/Run/C12.v theories/Base/Sx.vos theories/Model/CompilerCache.vos
theories/Run/C13.vo theories/Run/C13.glob theories/Run/C13.v.beautified theories/Run/C13.required_vo: theories/Run/C13.v theories/Base/Sx.vo theories/Model/DistStatus.vo theories/Model/DistFallback.vo theories/Model/DistArgs.vo
theories/Run/C13.vio: theories/Run/C13.v theories/Base/Sx.vio theories/Model/DistStatus.vio theories/Model/DistFallback.vio theories/Model/DistArgs.vio
theories/Run/C13.vos theories/Run/C13.vok theories/Run/C13.required_vos: theories/Run/C13.v theories/Base/Sx.vos theories/Model/DistStatus.vos theories/Model/DistFallback.vos theories/Model/DistArgs.vos
theories/Run/C15.vo theories/Run/C15.glob theories/Run/C15.v.beautified theories/Run/C15.required_vo: theories/Run/C15.v theories/Base/Sx.vo theories/Model/Lru.vo theories/Model/RoCache.vo theories/Model/DiskConfig.vo
theories/Run/C15.vio: theories/Run/C15.v theories/Base/Sx.vio theories/Model/Lru.vio theories/Model/RoCache.vio theories/Model/DiskConfig.vio
theories/Run/C15.vos theories/Run/C15.vok theories/Run/C15.required_vos: theories/Run/C15.v theories/Base/Sx.vos theories/Model/Lru.vos theories/Model/RoCache.vos theories/Model/DiskConfig.vos
theories/Run/C16.vo theories/Run/C16.glob theories/Run/C16.v.beautified theories/Run/C16.required_vo: theories/Run/C16.v theories/Base/Sx.vo theories/Model/Jobserver.vo
theories/Run/C16.vio: theories/Run/C16.v theories/Base/Sx.vio theories/Model/Jobserver.vio
theories/Run/C16.vos theories/Run/C16.vok theories/Run/C16.required_vos: theories/Run/C16.v theories/Base/Sx.vos theories/Model/Jobserver.vos
theories/Run/C17.vo theories/Run/C17.glob theories/Run/C17.v.beautified theories/Run/C17.required_vo: theories/Run/C17.v theories/Base/Sx.vo theories/Model/Lru.vo theories/Model/TcCache.vo
theories/Run/C17.vio: theories/Run/C17.v theories/Base/Sx.vio theories/Model/Lru.vio theories/Model/TcCache.vio
theories/Run/C17.vos theories/Run/C17.vok theories/Run/C17.required_vos: theories/Run/C17.v theories/Base/Sx.vos theories/Model/Lru.vos theories/Model/TcCache.vos
theories/Run/C18.vo theories/Run/C18.glob theories/Run/C18.v.beautified theories/Run/C18.required_vo: theories/Run/C18.v theories/Base/Sx.vo theories/Gen/C18Consts.vo theories/Model/Scheduler.vo
theories/Run/C18.vio: theories/Run/C18.v theories/Base/Sx.vio theories/Gen/C18Consts.vio theories/Model/Scheduler.vio
theories/Run/C18.vos theories/Run/C18.vok theories/Run/C18.required_vos: theories/Run/C18.v theories/Base/Sx.vos theories/Gen/C18Consts.vos theories/Model/Scheduler.vos
theories/Run/C20.vo theories/Run/C20.glob theories/Run/C20.v.beautified theories/Run/C20.required_vo: theories/Run/C20.v theories/Base/Sx.vo theories/Model/Startup.vo theories/Model/ServerLife.vo
theories/Run/C20.vio: theories/Run/C20.v theories/Base/Sx.vio theories/Model/Startup.vio theories/Model/ServerLife.vio
theories/Run/C20.vos theories/Run/C20.vok theories/Run/C20.required_vos: theories/Run/C20.v theories/Base/Sx.vos theories/Model/Startup.vos theories/Model/ServerLife.vos
